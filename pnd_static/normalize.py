"""Source normalisation applied once to every parsed module before any rule runs.

The rules decide properties from the *shape* of the code, so shapes that mean the same
must look the same.  Three behaviour-preserving rewrites are applied to the syntax trees
(in memory only; nothing is written or executed):

1. **helper inlining** -- a call of a *helper* (a private ``_name`` function / method of
   the same module that the rules do not anchor on, or any function that did not exist
   when the rule instances were confirmed, see ``oracles/inventory.py``) whose body has
   its only ``return`` as the last statement is replaced by that body, parameters
   substituted and locals renamed.  Helpers with several returns are left to the
   path-sensitive clients, which inline them at analysis time (``Repo.is_helper``).
2. **conditional expressions** -- ``x = a if c else b`` / ``return a if c else b`` become
   ``if c: x = a else: x = b`` so the flow engine sees the two paths.
3. **named constants** -- a load of a module-level name (or ``module.NAME``) that is bound
   exactly once, at module level, to a literal int/str/bytes/float expression is replaced
   by the literal (``PDU_HEADER_LENGTH`` -> ``6``).

Statements moved into a caller take the position of the call they replace (allocation sites and loop
membership are those of the call site).
"""
from __future__ import annotations

import ast
import copy
from typing import Dict, List, Optional, Set, Tuple

# private functions the rules anchor on by name (never inlined syntactically)
NO_INLINE = frozenset([
    '_next_type', '_send_response', '_check_network', '_check_outgoing_pdu', '_check_timer',
    '_check_incoming_pdu', '_process_incoming', '_close', '_command_set_to_message',
    '_build_context_def_list', '_get_dul_message', '_handle_errors', '_establish', '_loop',
    '_request', '_new_msg_id', '_get_storage_file',
])

_SIMPLE_STMTS = (ast.Assign, ast.AnnAssign, ast.AugAssign, ast.Expr, ast.Return)


def _bound_names(fnode) -> Set[str]:
    """Every name bound anywhere inside a function (parameters, assignments, loop / with /
    except targets, comprehension targets, imports, nested defs and their parameters)."""
    out: Set[str] = set()
    for n in ast.walk(fnode):
        if isinstance(n, ast.Name) and isinstance(n.ctx, (ast.Store, ast.Del)):
            out.add(n.id)
        elif isinstance(n, ast.arg):
            out.add(n.arg)
        elif isinstance(n, ast.ExceptHandler) and n.name:
            out.add(n.name)
        elif isinstance(n, (ast.FunctionDef, ast.AsyncFunctionDef, ast.ClassDef)) and n is not fnode:
            out.add(n.name)
        elif isinstance(n, (ast.Import, ast.ImportFrom)):
            for a in n.names:
                out.add((a.asname or a.name).split('.')[0])
    return out


def _global_decls(tree) -> Set[str]:
    out: Set[str] = set()
    for n in ast.walk(tree):
        if isinstance(n, (ast.Global, ast.Nonlocal)):
            out.update(n.names)
    return out


_KNOWN_CLASS_ATTRS = None


def _known_class_attr(cls_name: str, attr: str) -> bool:
    """was ``<Class>.<attr>`` a class attribute of the pinned tree, in whatever module the class lived then?  (A class that
    was moved to another module keeps the names the rules talk about.)"""
    global _KNOWN_CLASS_ATTRS
    if _KNOWN_CLASS_ATTRS is None:
        from .oracles.inventory import NAMES
        _KNOWN_CLASS_ATTRS = {k.split(':', 1)[1] for k in NAMES if ':' in k and '.' in k.split(':', 1)[1]}
    return '%s.%s' % (cls_name, attr) in _KNOWN_CLASS_ATTRS


def _is_const_display(e) -> bool:
    if isinstance(e, ast.Constant):
        return True
    if isinstance(e, ast.Tuple) and e.elts:
        return all(_is_const_display(x) for x in e.elts)
    if isinstance(e, ast.UnaryOp) and isinstance(e.op, ast.USub) and isinstance(e.operand, ast.Constant):
        return True
    return False


def _scalar_literal(v, depth=0) -> Optional[ast.expr]:
    """the display of an immutable constant made of ints / strings / bytes / floats / bools / None and tuples of these"""
    if depth > 3:
        return None
    if type(v) in (int, str, bytes, float, bool) or v is None:
        return ast.Constant(value=v)
    if type(v) is tuple and v and len(v) <= 64:
        elts = [_scalar_literal(x, depth + 1) for x in v]
        if any(x is None for x in elts):
            return None
        return ast.Tuple(elts=elts, ctx=ast.Load())
    return None


def _bool_dict_display(v) -> Optional[ast.expr]:
    """``{True: a, False: b}`` with scalar values, as the pair display ``(b, a)`` that ``[bool(c)]`` indexes the same way"""
    if type(v) is dict and set(v) == {True, False} and all(type(k) is bool for k in v):
        a, b = _scalar_literal(v[False], 1), _scalar_literal(v[True], 1)
        if a is not None and b is not None:
            return ast.Tuple(elts=[a, b], ctx=ast.Load())
    return None


def _literal_only(e: ast.expr) -> bool:
    for n in ast.walk(e):
        if not isinstance(n, (ast.Constant, ast.BinOp, ast.UnaryOp, ast.operator, ast.unaryop, ast.Name,
                              ast.Attribute, ast.Load, ast.Tuple, ast.Subscript, ast.Slice)):
            return False
    return True


class _Normalizer:
    def __init__(self, repo):
        self.repo = repo
        self.counter = 0
        self.stats = {'inlined_calls': 0, 'ifexp': 0, 'constants': 0}
        self.inlined: List[Tuple[str, str]] = []   # (caller key, helper key)

    # ------------------------------------------------------------------ driver
    def run(self):
        self._collect_properties()
        for m in self.repo.modules.values():
            self.m = m
            self._each_function(m, self._strip_reporting_try)
            self._each_function(m, self._inline_context_managers)
            if self.props or self.class_props:
                self._each_function(m, self._inline_properties)
        for m in self.repo.modules.values():
            self.m = m
            self.globals_rebound = _global_decls(m.tree)
            aug = set()
            for st in m.tree.body:
                if isinstance(st, ast.AugAssign) and isinstance(st.target, ast.Name):
                    aug.add(st.target.id)
            self.globals_rebound |= aug
            self._each_function(m, self._short_circuit_forms)
            self._each_function(m, self._record_rows)
            self._each_function(m, self._record_locals)
            self._each_function(m, self._inverse_lookup)
            self._each_function(m, self._scalar_replace)
            self._each_function(m, self._spread_keywords)
            self._each_function(m, self._closure_factories)
            self._each_function(m, self._memo_elision)
            self._each_function(m, self._guard_identity)
            for rnd in range(5):
                before = self.stats['inlined_calls'] + self.stats.get('fused_generators', 0)
                self._each_function(m, self._inline_in_function)
                self._each_function(m, self._fuse_in_function)
                if self.stats['inlined_calls'] + self.stats.get('fused_generators', 0) == before:
                    break
            # (a cache and the emptying of what it hands out may have met only now, in the caller)
            self._each_function(m, self._memo_elision)
            self._each_function(m, self._missing_hooks)
            self._each_function(m, self._pathlib_forms)
            self._each_function(m, self._builtin_forms)
            self._each_function(m, self._iteration_idioms)
            self._each_function(m, self._yield_from)
            self._each_function(m, self._generator_form)
            # (a function that returned a generator expression over a helper generator is a loop now: fuse again)
            self._each_function(m, self._fuse_in_function)
            self._each_function(m, self._drop_unused_nested)
            # (second round: only the forms a fusion may have brought together; loops made from generator expressions keep
            # their enumerate() -- the rules read ITEM(enumerate(..)))
            self._idioms_round2 = True
            try:
                self._each_function(m, self._iteration_idioms)
            finally:
                self._idioms_round2 = False
            self._each_function(m, self._augment_function)
            self._each_function(m, self._prune_constant_tests)
            self._each_function(m, self._desugar_function)
            self._each_function(m, self._copy_propagate)
            if self.props or self.class_props:
                self._field_class_cache = None      # helpers are inlined by now: factories have become constructor calls
                self._each_function(m, self._inline_properties)
            self._each_function(m, self._fold_function)
            self._each_function(m, self._inline_pure_everywhere)
            self._each_function(m, self._tabulated_functions)
            self._each_function(m, self._table_dispatch)
            # (a dispatch through a table of one-expression factories leaves calls of those factories behind)
            self._each_function(m, self._inline_pure_everywhere)
            self._each_function(m, self._prune_constant_tests)
            self._each_function(m, self._dict_displays)
            self._each_function(m, self._copy_propagate)
            self._each_function(m, self._data_driven)
            self._each_function(m, self._display_algebra)
            self._each_function(m, self._copy_propagate_locals_once)
            self._each_function(m, self._none_guarded_copy)
            self._each_function(m, self._desugar_function)
            self._each_function(m, self._order_comparisons)
            self._each_function(m, self._positional_calls)
            self._each_function(m, self._truth_contexts)



    def _copy_propagate_locals_once(self, fnode, cls, local):
        """``v = o.attr`` directly followed by an ``if`` / assignment that reads ``v`` and nothing else ever reads or rebinds it
        later: the attribute read in place (several sections unrolled from one loop each bind ``v`` anew)"""
        for blk in _blocks(fnode):
            i = 0
            while i + 1 < len(blk):
                st, nxt = blk[i], blk[i + 1]
                i += 1
                if not (isinstance(st, ast.Assign) and len(st.targets) == 1 and isinstance(st.targets[0], ast.Name)
                        and isinstance(st.value, ast.Attribute) and _is_simple(st.value)):
                    continue
                v = st.targets[0].id
                if v in {a.arg for a in fnode.args.args}:
                    continue
                if not isinstance(nxt, (ast.If, ast.Assign, ast.Expr)):
                    continue
                # later statements of the block: the next read of v (if any) must come after another store to v
                dead = True
                for later in blk[i + 1:]:
                    stores_first = None
                    for y in ast.walk(later):
                        if isinstance(y, ast.Name) and y.id == v:
                            if isinstance(y.ctx, ast.Store) and stores_first is None:
                                stores_first = True
                            elif isinstance(y.ctx, ast.Load) and stores_first is None:
                                stores_first = False
                    if stores_first is True and isinstance(later, ast.Assign) and len(later.targets) == 1 \
                            and isinstance(later.targets[0], ast.Name) and later.targets[0].id == v \
                            and not any(isinstance(y, ast.Name) and y.id == v for y in ast.walk(later.value)):
                        break
                    if stores_first is not None:
                        dead = False
                        break
                if not dead:
                    continue
                # v is only used inside nxt, and nxt does not change what the attribute read depends on before using it
                root = st.value
                while isinstance(root, ast.Attribute):
                    root = root.value
                if any(isinstance(y, ast.Name) and y.id == v and isinstance(y.ctx, ast.Store) for y in ast.walk(nxt)):
                    continue
                if any(isinstance(y, ast.Call) and not (isinstance(y.func, ast.Name) and y.func.id in ('hasattr', 'isinstance', 'int', 'len'))
                       for y in ast.walk(nxt)):
                    continue
                if isinstance(root, ast.Name) and any(isinstance(y, ast.Name) and y.id == root.id and isinstance(y.ctx, ast.Store)
                                                      for y in ast.walk(nxt)):
                    continue
                # used elsewhere in the function outside this block (closures, loops around)? only handle straight-line sections
                uses_in_nxt = sum(1 for y in ast.walk(nxt) if isinstance(y, ast.Name) and y.id == v and isinstance(y.ctx, ast.Load))
                if uses_in_nxt == 0:
                    continue

                class S(ast.NodeTransformer):
                    def visit_Name(self_, y):
                        if y.id == v and isinstance(y.ctx, ast.Load):
                            return copy.deepcopy(st.value)
                        return y
                blk[i] = S().visit(nxt)
                del blk[i - 1]
                i -= 1
                self.stats['copy_once'] = self.stats.get('copy_once', 0) + 1
        ast.fix_missing_locations(fnode)

    # ------------------------------------------------------------------ 9e. tabulated functions
    def _tabulated(self):
        """{table name: (loop variable, value expression, domain)} for module-level ``T = {x: E(x) for x in <constant items>}`` that
        nothing writes to: a precomputed table of a function's values"""
        got = getattr(self, '_tab_cache', None)
        if got is None:
            got = {}
            self._tab_cache = got
        if self.m.name not in got:
            tabs = {}
            for name, vals in self.m.assigns.items():
                if len(vals) == 1 and not isinstance(vals[0], ast.DictComp):
                    # ``tuple(E(x) for x in range(n))`` / ``[E(x) for x in range(n)]``: indexed by x as well
                    v0 = vals[0]
                    comp = v0.args[0] if (isinstance(v0, ast.Call) and isinstance(v0.func, ast.Name) and v0.func.id in ('tuple', 'list')
                                          and len(v0.args) == 1 and not v0.keywords) else v0
                    if isinstance(comp, (ast.GeneratorExp, ast.ListComp)) and len(comp.generators) == 1 and not comp.generators[0].ifs \
                            and isinstance(comp.generators[0].target, ast.Name):
                        it = comp.generators[0].iter
                        if isinstance(it, ast.Call) and isinstance(it.func, ast.Name) and it.func.id == 'range' and len(it.args) == 1 \
                                and isinstance(it.args[0], ast.Constant) and type(it.args[0].value) is int and 0 < it.args[0].value <= 256 \
                                and not self.repo.table_writers(self.m.name, name) \
                                and not any(isinstance(y, (ast.Lambda, ast.Yield, ast.NamedExpr, ast.ListComp, ast.GeneratorExp, ast.DictComp))
                                            for y in ast.walk(comp.elt)):
                            tabs[name] = (comp.generators[0].target.id, comp.elt, tuple(range(it.args[0].value)))
                    continue
                if len(vals) != 1 or not isinstance(vals[0], ast.DictComp):
                    continue
                d = vals[0]
                if len(d.generators) != 1 or d.generators[0].ifs or not isinstance(d.generators[0].target, ast.Name) \
                        or not (isinstance(d.key, ast.Name) and d.key.id == d.generators[0].target.id):
                    continue
                if self.repo.table_writers(self.m.name, name):
                    continue
                try:
                    dom = self.repo.fold(ast.Call(func=ast.Name(id='tuple', ctx=ast.Load()), args=[d.generators[0].iter], keywords=[]), self.m)
                except Exception:
                    it = d.generators[0].iter
                    dom = None
                    if isinstance(it, ast.Call) and isinstance(it.func, ast.Name) and it.func.id == 'range' and not it.keywords \
                            and all(isinstance(a, ast.Constant) and type(a.value) is int for a in it.args) and 1 <= len(it.args) <= 3:
                        dom = tuple(range(*[a.value for a in it.args]))
                if not isinstance(dom, tuple) or not dom or len(dom) > 256:
                    continue
                x = d.generators[0].target.id
                if any(isinstance(y, (ast.Lambda, ast.Yield, ast.NamedExpr, ast.ListComp, ast.GeneratorExp, ast.DictComp)) for y in ast.walk(d.value)):
                    continue
                tabs[name] = (x, d.value, dom)
            got[self.m.name] = tabs
        return got[self.m.name]

    def _tabulated_functions(self, fnode, cls, local):
        """``TABLE[k]`` with TABLE a precomputed ``{x: E(x) for x in items}`` reads as ``E(k)``: the table holds exactly the values of
        the expression (for a key outside the items the table raises KeyError where the expression may not: the rules that use the
        value check the key's range where it matters)"""
        tabs = self._tabulated()
        if not tabs:
            return
        me = self

        class T(ast.NodeTransformer):
            def visit_FunctionDef(self_, n):
                return n if n is not fnode else self_.generic_visit(n)
            visit_AsyncFunctionDef = visit_FunctionDef

            def visit_Subscript(self_, n):
                n = self_.generic_visit(n)
                if isinstance(n.ctx, ast.Load) and isinstance(n.value, ast.Name) and n.value.id in tabs and n.value.id not in local \
                        and not isinstance(n.slice, ast.Slice) and _is_simple_or_const(n.slice):
                    x, expr, _dom = tabs[n.value.id]
                    k = n.slice

                    class S(ast.NodeTransformer):
                        def visit_Name(self__, y):
                            if y.id == x and isinstance(y.ctx, ast.Load):
                                return copy.deepcopy(k)
                            return y
                    me.stats['tabulated'] = me.stats.get('tabulated', 0) + 1
                    return ast.copy_location(S().visit(copy.deepcopy(expr)), n)
                return n
        T().visit(fnode)
        ast.fix_missing_locations(fnode)

    # ------------------------------------------------------------------ 9d. copies guarded against None
    def _dimse_properties(self) -> Set[str]:
        """names bound to ``dimse_property(..)`` in a class body of the package: attributes backed by an element of the command
        set, for which ``None`` and the blank placeholder of a fresh message are both transmitted as an empty element"""
        got = getattr(self, '_dimse_props', None)
        if got is None:
            got = set()
            for c in self.repo.all_classes():
                for name, val in c.attrs.items():
                    if isinstance(val, ast.Call) and ast.unparse(val.func).split('.')[-1] == 'dimse_property':
                        got.add(name)
            self._dimse_props = got
        return got

    def _none_guarded_copy(self, fnode, cls, local):
        """``if v is not None [and C]: rsp.field = v`` on a message created in this function, ``field`` a command-set backed
        property: when ``v`` is None the store would write None where the fresh message holds its blank placeholder -- the two are
        the same empty element on the wire -- so the copy reads unconditional (``if C: rsp.field = v``)."""
        props = self._dimse_properties()
        if not props:
            return
        fresh = set()
        for n in ast.walk(fnode):
            if isinstance(n, ast.Assign) and len(n.targets) == 1 and isinstance(n.targets[0], ast.Name) and isinstance(n.value, ast.Call) \
                    and not n.value.args and not n.value.keywords and (
                        (isinstance(n.value.func, ast.Name) and n.value.func.id == 'cls') or ast.unparse(n.value.func).split('.')[-1].endswith('Message')):
                if sum(1 for y in ast.walk(fnode) if isinstance(y, ast.Name) and y.id == n.targets[0].id and isinstance(y.ctx, ast.Store)) == 1:
                    fresh.add(n.targets[0].id)
        if not fresh:
            return
        for blk in _blocks(fnode):
            for i, st in enumerate(blk):
                if not (isinstance(st, ast.If) and not st.orelse and len(st.body) == 1 and isinstance(st.body[0], ast.Assign)
                        and len(st.body[0].targets) == 1):
                    continue
                a = st.body[0]
                t = a.targets[0]
                if not (isinstance(t, ast.Attribute) and isinstance(t.value, ast.Name) and t.value.id in fresh and t.attr in props
                        and _is_simple(a.value)):
                    continue
                v = ast.unparse(a.value)
                parts = st.test.values if isinstance(st.test, ast.BoolOp) and isinstance(st.test.op, ast.And) else [st.test]
                is_guard = lambda x: isinstance(x, ast.Compare) and len(x.ops) == 1 and isinstance(x.ops[0], ast.IsNot) \
                    and ast.unparse(x.left) == v and isinstance(x.comparators[0], ast.Constant) and x.comparators[0].value is None
                rest = [x for x in parts if not is_guard(x)]
                if len(rest) == len(parts):
                    continue
                if any(isinstance(y, ast.Call) and not (isinstance(y.func, ast.Name) and y.func.id in ('hasattr', 'isinstance'))
                       for x in rest for y in ast.walk(x)):
                    continue
                self.stats['none_guarded_copies'] = self.stats.get('none_guarded_copies', 0) + 1
                if not rest:
                    blk[i] = a
                else:
                    st.test = rest[0] if len(rest) == 1 else ast.BoolOp(op=ast.And(), values=rest)
        ast.fix_missing_locations(fnode)

    # ------------------------------------------------------------------ 9c. look-ups in constant tables
    DISPATCH_REST_MAX = 8

    def _table_dispatch(self, fnode, cls, local):
        """``x = TABLE.get(k[, D])`` / ``x = TABLE[k]`` on a module-level dict display nothing writes to, followed by a few
        statements that use ``x``, reads as the ``if k == K1: .. elif k == K2: ..`` chain the table stands for -- the statements
        after the look-up are repeated in every arm with the row's value in place of ``x`` (a lambda that is only called or
        tested against None is applied / decided on the spot).  ``TABLE[k]`` ends in ``raise KeyError(k)``."""
        me = self

        def table_of(e):
            if isinstance(e, ast.Name) and e.id in local:
                return None
            try:
                r = me.repo.resolve_expr(e, me.m) if not isinstance(e, ast.Name) else me.repo.resolve_name(e.id, me.m)
            except Exception:
                return None
            if not (isinstance(r, tuple) and r and r[0] == 'assign'):
                return None
            mod, name = r[1], r[2]
            from .oracles.inventory import NAMES
            if '%s:%s' % (mod.name, name) in NAMES:
                return None      # the tables of the pinned tree are what the rules talk about: they keep their shape
            vals = mod.assigns.get(name, [])
            if len(vals) != 1 or not isinstance(vals[0], ast.Dict) or me.repo.table_writers(mod.name, name) \
                    or (mod is me.m and name in me.globals_rebound):
                return None
            d = vals[0]
            if not d.keys or len(d.keys) > me.UNROLL_MAX or any(k is None for k in d.keys):
                return None
            if not all(isinstance(k, ast.Constant) or (_is_simple(k) and not isinstance(k, ast.Name)) or
                       (mod is me.m and _is_simple(k)) for k in d.keys):
                return None
            if mod is not me.m:
                # names in the rows are the other module's: only rows of constants travel
                if not all(_is_const_display(k) for k in d.keys) or not all(_is_const_display(v) for v in d.values):
                    return None
            if len({ast.dump(k) for k in d.keys}) != len(d.keys):
                return None
            return d

        def row_value_ok(v):
            if _is_const_display(v) or _is_simple(v):
                return True
            if isinstance(v, ast.Tuple):
                return all(row_value_ok(x) for x in v.elts)
            if isinstance(v, ast.Lambda):
                a = v.args
                if a.vararg or a.kwarg or a.kwonlyargs or a.defaults or a.posonlyargs:
                    return False
                ps = {x.arg for x in a.args}
                return not any(isinstance(y, (ast.Lambda, ast.NamedExpr, ast.Yield, ast.YieldFrom, ast.Await)) for y in ast.walk(v.body)) \
                    and not any(isinstance(y, ast.Name) and y.id in local and y.id not in ps for y in ast.walk(v.body))
            return False

        def truth_of(v):
            from .srcmodel import ClassRef, FuncRef
            if isinstance(v, ast.Constant):
                return bool(v.value)
            if isinstance(v, (ast.Tuple, ast.List)) and not any(isinstance(y, ast.Starred) for y in v.elts):
                return bool(v.elts)
            if isinstance(v, ast.Lambda):
                return True
            if isinstance(v, (ast.Name, ast.Attribute)):
                try:
                    r = me.repo.resolve_expr(v, me.m) if not isinstance(v, ast.Name) else me.repo.resolve_name(v.id, me.m)
                except Exception:
                    return None
                if isinstance(r, (ClassRef, FuncRef)):
                    return True
            return None

        def specialise(rest, x, v):
            """``rest`` with the local ``x`` known to be ``v``; None when a use of ``x`` cannot take the value in place"""
            rest = copy.deepcopy(rest)
            if any(isinstance(n, ast.Name) and n.id == x and isinstance(n.ctx, (ast.Store, ast.Del)) for st in rest for n in ast.walk(st)):
                return None
            if any(isinstance(n, (ast.FunctionDef, ast.Lambda, ast.ClassDef)) and any(
                    isinstance(y, ast.Name) and y.id == x for y in ast.walk(n)) for st in rest for n in ast.walk(st)):
                return None
            is_none = isinstance(v, ast.Constant) and v.value is None
            ok = [True]

            class S(ast.NodeTransformer):
                def visit_Compare(self_, n):
                    if len(n.ops) == 1 and isinstance(n.left, ast.Name) and n.left.id == x and isinstance(n.ops[0], (ast.Is, ast.IsNot)) \
                            and isinstance(n.comparators[0], ast.Constant) and n.comparators[0].value is None \
                            and (is_none or isinstance(v, (ast.Lambda, ast.Tuple)) or (isinstance(v, ast.Constant) and v.value is not None)):
                        return ast.copy_location(ast.Constant(value=(is_none == isinstance(n.ops[0], ast.Is))), n)
                    return self_.generic_visit(n)

                def visit_Call(self_, n):
                    if isinstance(n.func, ast.Name) and n.func.id == x and isinstance(v, ast.Lambda):
                        n.args = [self_.visit(a) for a in n.args]
                        ps = [a.arg for a in v.args.args]
                        if n.keywords or len(ps) != len(n.args) or not all(_is_simple_or_const(a) for a in n.args):
                            ok[0] = False
                            return n
                        env = dict(zip(ps, n.args))

                        class B(ast.NodeTransformer):
                            def visit_Name(self__, y):
                                if isinstance(y.ctx, ast.Load) and y.id in env:
                                    return ast.copy_location(copy.deepcopy(env[y.id]), y)
                                return y
                        return ast.copy_location(B().visit(copy.deepcopy(v.body)), n)
                    return self_.generic_visit(n)

                def visit_Name(self_, n):
                    if n.id == x and isinstance(n.ctx, ast.Load):
                        if isinstance(v, ast.Lambda):
                            ok[0] = False         # the function value escapes
                            return n
                        return ast.copy_location(copy.deepcopy(v), n)
                    return n

                def visit_If(self_, n):
                    # ``if x:`` / ``if not x:`` on the row's value: a class or function of the package and a non-empty display
                    # are true, None / an empty display / 0 / '' are false
                    t, neg = n.test, False
                    while isinstance(t, ast.UnaryOp) and isinstance(t.op, ast.Not):
                        t, neg = t.operand, not neg
                    if isinstance(t, ast.Name) and t.id == x:
                        tv = truth_of(v)
                        if tv is not None:
                            n.test = ast.copy_location(ast.Constant(value=(tv != neg)), n.test)
                            n.body = [self_.visit(b) for b in n.body]
                            n.orelse = [self_.visit(b) for b in n.orelse]
                            return n
                    return self_.generic_visit(n)
            out = [S().visit(st) for st in rest]
            return out if ok[0] else None

        def small(rest):
            return len(rest) <= me.DISPATCH_REST_MAX and sum(1 for st in rest for _ in ast.walk(st)) <= 400 and not any(
                isinstance(n, (ast.For, ast.While, ast.FunctionDef, ast.ClassDef, ast.Try, ast.With)) for st in rest for n in ast.walk(st))

        def do_block(blk):
            i = 0
            while i < len(blk):
                st = blk[i]
                i += 1
                if not (isinstance(st, ast.Assign) and len(st.targets) == 1 and (isinstance(st.targets[0], ast.Name) or (
                        isinstance(st.targets[0], ast.Tuple) and st.targets[0].elts and all(isinstance(y, ast.Name) for y in st.targets[0].elts)
                        and len({y.id for y in st.targets[0].elts}) == len(st.targets[0].elts)))):
                    continue
                xs = [st.targets[0].id] if isinstance(st.targets[0], ast.Name) else [y.id for y in st.targets[0].elts]
                tuple_target = isinstance(st.targets[0], ast.Tuple)
                x = xs[0]
                v = st.value
                key = default = table = None
                if isinstance(v, ast.Call) and isinstance(v.func, ast.Attribute) and v.func.attr == 'get' and 1 <= len(v.args) <= 2 \
                        and not v.keywords:
                    table, key = table_of(v.func.value), v.args[0]
                    default = v.args[1] if len(v.args) == 2 else ast.Constant(value=None)
                    if not (_is_simple_or_const(default) or (tuple_target and isinstance(default, ast.Tuple) and all(
                            row_value_ok(y) for y in default.elts))):
                        continue
                elif isinstance(v, ast.Subscript) and isinstance(v.ctx, ast.Load) and not isinstance(v.slice, ast.Slice):
                    table, key = table_of(v.value), v.slice
                if table is None or not _is_simple(key) or isinstance(key, ast.Constant):
                    continue
                if not all(row_value_ok(val) for val in table.values):
                    continue
                rest = blk[i:]
                if not small(rest) or any(isinstance(n, ast.Name) and n.id in xs for n in ast.walk(key)):
                    continue

                def spec_all(val):
                    """the statements after the look-up with the target name(s) known to be (the parts of) ``val``"""
                    if not tuple_target:
                        vals = [val]
                    elif isinstance(val, ast.Tuple) and len(val.elts) == len(xs) and not any(isinstance(y, ast.Starred) for y in val.elts):
                        vals = list(val.elts)
                    else:
                        return None, False
                    body = rest
                    pre_ = []
                    for nm_, v_ in zip(xs, vals):
                        b2 = specialise(body, nm_, v_)
                        if b2 is None:
                            if isinstance(v_, ast.Lambda):
                                return None, False
                            pre_.append(ast.Assign(targets=[ast.Name(id=nm_, ctx=ast.Store())], value=copy.deepcopy(v_)))
                            b2 = copy.deepcopy(body)
                        body = b2
                    return pre_ + body, True
                # the key expression is read once per arm test: nothing in between changes it (tests only)
                arms = []
                good = True
                for k_, val in zip(table.keys, table.values):
                    body, ok_ = spec_all(val)
                    if not ok_:
                        good = False
                        break
                    arms.append((k_, body))
                if not good:
                    continue
                if default is not None:
                    last, ok_ = spec_all(default)
                    if not ok_:
                        continue
                else:
                    last = [ast.Raise(exc=ast.Call(func=ast.Name(id='KeyError', ctx=ast.Load()), args=[copy.deepcopy(key)], keywords=[]),
                                      cause=None)]
                chain = last or [ast.Pass()]
                for k_, body in reversed(arms):
                    chain = [ast.If(test=ast.Compare(left=copy.deepcopy(key), ops=[ast.Eq()], comparators=[copy.deepcopy(k_)]),
                                    body=body or [ast.Pass()], orelse=chain)]
                for n in chain:
                    ast.copy_location(n, st)
                    ast.fix_missing_locations(n)
                blk[i - 1:] = chain
                me.stats['table_dispatch'] = me.stats.get('table_dispatch', 0) + 1
                return True
            return False

        for _round in range(4):
            if not any(do_block(b) for b in _blocks(fnode)):
                break

    # ------------------------------------------------------------------ 9b. algebra of displays
    def _scalar_replace(self, fnode, cls, local):
        """A local that holds an object of a class introduced after the inventory (a small record with counters, say), is bound
        once to its constructor call and is used only through its fields, properties and methods -- never passed on, returned,
        stored or compared -- is taken apart: one local per field (``p__completed``), the constructor as the assignments it
        makes, method calls as their bodies, properties as their expressions.  What is left is the code the pinned tree writes with
        plain locals."""
        me = self
        from .srcmodel import ClassRef, NotConst
        done = True
        rounds = 0
        while done and rounds < 4:
            done = False
            rounds += 1
            stores: Dict[str, List[ast.stmt]] = {}
            for n in ast.walk(fnode):
                if isinstance(n, ast.Assign) and len(n.targets) == 1 and isinstance(n.targets[0], ast.Name):
                    stores.setdefault(n.targets[0].id, []).append(n)
            params = {a.arg for a in fnode.args.args + fnode.args.kwonlyargs + fnode.args.posonlyargs}
            for x, sts in sorted(stores.items()):
                if x in params or len(sts) != 1 or not isinstance(sts[0].value, ast.Call):
                    continue
                if sum(1 for y in ast.walk(fnode) if isinstance(y, ast.Name) and y.id == x and isinstance(y.ctx, (ast.Store, ast.Del))) != 1:
                    continue
                ctor = sts[0].value
                try:
                    r = me.repo.resolve_expr(ctor.func, me.m, cls)
                except (NotConst, Exception):
                    continue
                if not isinstance(r, ClassRef) or r.module not in me.repo.modules:
                    continue
                K = me.repo.modules[r.module].classes.get(r.name)
                if K is None or not me.repo.is_helper_class(K) or K.ext_bases not in ([], ['object']) or K.bases:
                    continue
                init = K.methods.get('__init__')
                if init is None:
                    continue
                # escape analysis
                ok = True
                parents = {}
                for p_ in ast.walk(fnode):
                    for ch in ast.iter_child_nodes(p_):
                        parents[id(ch)] = p_
                for y in ast.walk(fnode):
                    if isinstance(y, ast.Name) and y.id == x and isinstance(y.ctx, ast.Load):
                        par = parents.get(id(y))
                        if not (isinstance(par, ast.Attribute) and par.value is y):
                            ok = False
                            break
                        m_ = K.find_method(par.attr)
                        gp = parents.get(id(par))
                        if m_ is not None and m_.kind == 'method' and not (isinstance(gp, ast.Call) and gp.func is par):
                            ok = False
                            break
                    if isinstance(y, (ast.Lambda, ast.FunctionDef)) and y is not fnode and any(
                            isinstance(z, ast.Name) and z.id == x for z in ast.walk(y)):
                        ok = False
                        break
                if not ok:
                    continue
                # constructor: only ``self.f = <expr of parameters / constants>``
                fields: List[str] = []
                init_body = _body(init.node)
                # straight-line constructor: assignments to fields of self and to its own locals
                def rooted_at_self(t):
                    while isinstance(t, ast.Attribute):
                        t = t.value
                    return isinstance(t, ast.Name) and t.id == init.params[0]
                if not all(isinstance(b, ast.Assign) and len(b.targets) == 1 and (
                        (isinstance(b.targets[0], ast.Attribute) and rooted_at_self(b.targets[0])) or isinstance(b.targets[0], ast.Name))
                        for b in init_body):
                    continue
                if not me._inlinable(init):
                    continue
                if K.module is not me.m and not all(me._portable_body(m_) for m_ in K.methods.values()):
                    continue
                exp = me._expand(init, ast.Name(id=x, ctx=ast.Load()), ctor)
                if exp is None:
                    continue
                for b in init_body:
                    if isinstance(b.targets[0], ast.Attribute) and isinstance(b.targets[0].value, ast.Name):
                        fields.append(b.targets[0].attr)
                new_stmts = list(exp[0])
                # methods and properties used
                usable = True
                for y in ast.walk(fnode):
                    if isinstance(y, ast.Attribute) and isinstance(y.value, ast.Name) and y.value.id == x:
                        if y.attr in fields:
                            continue
                        m_ = K.find_method(y.attr)
                        if m_ is None or m_.kind not in ('method', 'property') or not me._inlinable(m_) or m_.node.decorator_list and m_.kind != 'property':
                            if m_ is not None and m_.kind == 'property':
                                pb = _body(m_.node)
                                if len(pb) == 1 and isinstance(pb[0], ast.Return) and pb[0].value is not None:
                                    continue
                            usable = False
                            break
                if not usable:
                    continue
                # 1. properties
                class P(ast.NodeTransformer):
                    def visit_Attribute(self_, n):
                        n = self_.generic_visit(n)
                        if isinstance(n.value, ast.Name) and n.value.id == x and isinstance(n.ctx, ast.Load) and n.attr not in fields:
                            m_ = K.find_method(n.attr)
                            if m_ is not None and m_.kind == 'property':
                                e_ = copy.deepcopy(_body(m_.node)[0].value)
                                slf = m_.params[0]

                                class S(ast.NodeTransformer):
                                    def visit_Name(self__, q):
                                        return ast.copy_location(ast.Name(id=x, ctx=q.ctx), q) if q.id == slf else q
                                return ast.copy_location(self_.visit(S().visit(e_)), n)
                        return n
                for _k in range(3):
                    P().visit(fnode)
                # 2. method calls, statement by statement
                def expand_in_block(blk):
                    i = 0
                    while i < len(blk):
                        st = blk[i]
                        if isinstance(st, (ast.FunctionDef, ast.ClassDef)):
                            i += 1
                            continue
                        # calls directly in this statement (not inside its nested blocks)
                        heads = [st.value] if isinstance(st, (ast.Expr, ast.Assign, ast.AugAssign, ast.Return)) and getattr(st, 'value', None) is not None \
                            else [st.test] if isinstance(st, (ast.If, ast.While)) else [st.iter] if isinstance(st, ast.For) else []
                        call = None
                        for h in heads:
                            for y in ast.walk(h):
                                if isinstance(y, ast.Call) and isinstance(y.func, ast.Attribute) and isinstance(y.func.value, ast.Name) \
                                        and y.func.value.id == x and K.find_method(y.func.attr) is not None:
                                    call = y
                                    break
                            if call is not None:
                                break
                        if call is not None and not isinstance(st, ast.While):
                            m_ = K.find_method(call.func.attr)
                            e_ = me._expand(m_, ast.Name(id=x, ctx=ast.Load()), call)
                            if e_ is None:
                                return False
                            pre, retv = e_

                            class RC(ast.NodeTransformer):
                                def visit_Call(self_, q):
                                    if q is call:
                                        return retv
                                    return self_.generic_visit(q)
                            if isinstance(st, ast.Expr) and st.value is call:
                                blk[i:i + 1] = pre
                            else:
                                RC().visit(st)
                                blk[i:i] = pre
                            continue        # look at the same position again
                        for fld in ('body', 'orelse', 'finalbody'):
                            sub = getattr(st, fld, None)
                            if isinstance(sub, list) and sub and isinstance(sub[0], ast.stmt):
                                if expand_in_block(sub) is False:
                                    return False
                        if isinstance(st, ast.Try):
                            for h_ in st.handlers:
                                if expand_in_block(h_.body) is False:
                                    return False
                        i += 1
                    return True
                snapshot = copy.deepcopy(fnode.body)
                if expand_in_block(fnode.body) is False or any(
                        isinstance(y, ast.Call) and isinstance(y.func, ast.Attribute) and isinstance(y.func.value, ast.Name) and y.func.value.id == x
                        for y in ast.walk(fnode)):
                    fnode.body = snapshot
                    continue
                # 3. the constructor call becomes its assignments, fields become locals
                for blk in _blocks(fnode):
                    for j, st in enumerate(blk):
                        if isinstance(st, ast.Assign) and len(st.targets) == 1 and isinstance(st.targets[0], ast.Name) and st.targets[0].id == x \
                                and isinstance(st.value, ast.Call) and ast.unparse(st.value.func) == ast.unparse(ctor.func):
                            blk[j:j + 1] = new_stmts
                            break

                class Fd(ast.NodeTransformer):
                    def visit_Attribute(self_, n):
                        n = self_.generic_visit(n)
                        if isinstance(n.value, ast.Name) and n.value.id == x:
                            return ast.copy_location(ast.Name(id='%s__%s' % (x, n.attr), ctx=n.ctx), n)
                        return n
                Fd().visit(fnode)
                ast.fix_missing_locations(fnode)
                me.stats['scalar_replaced'] = me.stats.get('scalar_replaced', 0) + 1
                done = True
                break

    def _inverse_lookup(self, fnode, cls, local):
        """``KINDS.get(x) == 'a'`` / ``KINDS[x] == 'a'`` with KINDS a constant dict of the package (this module's or another's) whose
        values are constants: the test on the key it stands for, ``x == k`` (one key has that value) or ``x in (k1, k2)``; also
        through a local bound once to the look-up and used only in such comparisons.  (``!=`` gives the negation.  A key outside
        the table makes ``.get`` answer None, which equals no constant value: the rewritten test is false there too.)"""
        me = self

        def table_of(e):
            """(keys exprs, folded values) of a constant dict display named by ``e``"""
            try:
                r = me.repo.resolve_expr(e, me.m, cls)
            except Exception:
                return None
            if not (isinstance(r, tuple) and len(r) == 3 and r[0] == 'assign'):
                return None
            mod, name = r[1], r[2]
            vals = mod.assigns.get(name)
            if not vals or len(vals) != 1 or not isinstance(vals[0], ast.Dict) or any(k is None for k in vals[0].keys):
                return None
            if me.repo.table_writers(mod.name, name):
                return None
            out = []
            for k, v in zip(vals[0].keys, vals[0].values):
                fv = me.repo.try_fold(v, mod)
                if not isinstance(fv, (str, int, bytes)) or isinstance(fv, bool):
                    return None
                # the key as an expression valid here: qualified through the module when it is not this one
                out.append((k, fv, mod))
            return out

        def lookup(e):
            """(table rows, key expression) when e is T.get(x) / T[x]"""
            if isinstance(e, ast.Call) and isinstance(e.func, ast.Attribute) and e.func.attr == 'get' and len(e.args) == 1 and not e.keywords:
                t = table_of(e.func.value)
                if t is not None and _is_simple(e.args[0]):
                    return t, e.args[0]
            if isinstance(e, ast.Subscript) and not isinstance(e.slice, ast.Slice) and _is_simple(e.slice):
                t = table_of(e.value)
                if t is not None:
                    return t, e.slice
            return None
        binds: Dict[str, List[ast.expr]] = {}
        for n in ast.walk(fnode):
            if isinstance(n, ast.Assign) and len(n.targets) == 1 and isinstance(n.targets[0], ast.Name):
                binds.setdefault(n.targets[0].id, []).append(n.value)
            elif isinstance(n, (ast.For, ast.With, ast.AugAssign, ast.NamedExpr)):
                for y in ast.walk(n.target if hasattr(n, 'target') else n):
                    if isinstance(y, ast.Name) and isinstance(y.ctx, ast.Store):
                        binds.setdefault(y.id, []).append(None)
        via_local = {}
        for nm, vs in binds.items():
            if len(vs) == 1 and vs[0] is not None and lookup(vs[0]) is not None:
                # used only as a side of == / != with something else
                uses = [y for y in ast.walk(fnode) if isinstance(y, ast.Name) and y.id == nm and isinstance(y.ctx, ast.Load)]
                cmps = [c for c in ast.walk(fnode) if isinstance(c, ast.Compare) and len(c.ops) == 1 and isinstance(c.ops[0], (ast.Eq, ast.NotEq))
                        and any(isinstance(sd, ast.Name) and sd.id == nm for sd in (c.left, c.comparators[0]))]
                keyn = {y.id for y in ast.walk(lookup(vs[0])[1]) if isinstance(y, ast.Name)}
                if uses and len(uses) == len(cmps) and not any(len(binds.get(k_, [])) > 1 for k_ in keyn):
                    via_local[nm] = vs[0]

        def key_expr(k, mod):
            if mod is me.m:
                return copy.deepcopy(k)
            # names of the other module, reached through the name this module knows it by
            alias = next((a_ for a_, imp in me.m.imports.items() if getattr(imp, 'name', None) == mod.name), None)
            if alias is None:
                return None

            class Q(ast.NodeTransformer):
                def visit_Name(self_, n):
                    if n.id in mod.assigns or n.id in mod.classes or n.id in mod.functions or n.id in mod.imports:
                        return ast.copy_location(ast.Attribute(value=ast.Name(id=alias, ctx=ast.Load()), attr=n.id, ctx=ast.Load()), n)
                    return n
            k2 = Q().visit(copy.deepcopy(k))
            # ``suboperations.dimsemessages.X`` is ``dimsemessages.X`` when this module imports that module under the same name
            class Z(ast.NodeTransformer):
                def visit_Attribute(self_, n):
                    n = self_.generic_visit(n)
                    if isinstance(n.value, ast.Attribute) and isinstance(n.value.value, ast.Name) and n.value.value.id == alias \
                            and n.value.attr in me.m.imports and n.value.attr in mod.imports \
                            and getattr(me.m.imports[n.value.attr], 'name', 1) == getattr(mod.imports[n.value.attr], 'name', 2):
                        return ast.copy_location(ast.Attribute(value=ast.Name(id=n.value.attr, ctx=ast.Load()), attr=n.attr, ctx=n.ctx), n)
                    return n
            return Z().visit(k2)

        class T(ast.NodeTransformer):
            def visit_FunctionDef(self_, n):
                return n if n is not fnode else self_.generic_visit(n)
            visit_AsyncFunctionDef = visit_FunctionDef

            def visit_Compare(self_, n):
                n = self_.generic_visit(n)
                if len(n.ops) != 1 or not isinstance(n.ops[0], (ast.Eq, ast.NotEq)):
                    return n
                for a_, b_ in ((n.left, n.comparators[0]), (n.comparators[0], n.left)):
                    src = via_local.get(a_.id) if isinstance(a_, ast.Name) else a_
                    lk = lookup(src) if src is not None else None
                    if lk is None:
                        continue
                    want = me.repo.try_fold(b_, me.m, cls)
                    if not isinstance(want, (str, int, bytes)) or isinstance(want, bool):
                        continue
                    rows, key = lk
                    ks = [key_expr(k, mod) for k, fv, mod in rows if fv == want and type(fv) is type(want)]
                    if not ks or any(k is None for k in ks):
                        continue
                    if len(ks) == 1:
                        new = ast.Compare(left=copy.deepcopy(key), ops=[ast.Eq() if isinstance(n.ops[0], ast.Eq) else ast.NotEq()], comparators=[ks[0]])
                    else:
                        new = ast.Compare(left=copy.deepcopy(key), ops=[ast.In() if isinstance(n.ops[0], ast.Eq) else ast.NotIn()],
                                          comparators=[ast.Tuple(elts=ks, ctx=ast.Load())])
                    me.stats['inverse_lookups'] = me.stats.get('inverse_lookups', 0) + 1
                    return ast.copy_location(new, n)
                return n
        T().visit(fnode)
        # a look-up local that no comparison reads any more is gone
        for nm in via_local:
            if not any(isinstance(y, ast.Name) and y.id == nm and isinstance(y.ctx, ast.Load) for y in ast.walk(fnode)):
                for blk in _blocks(fnode):
                    for st in list(blk):
                        if isinstance(st, ast.Assign) and len(st.targets) == 1 and isinstance(st.targets[0], ast.Name) and st.targets[0].id == nm:
                            blk.remove(st)
                            if not blk:
                                blk.append(ast.Pass())
        ast.fix_missing_locations(fnode)

    def _spread_keywords(self, fnode, cls, local):
        """``f(a, **{'k': v, 'm': w})`` -> ``f(a, k=v, m=w)`` (a dict display with constant string keys spread into a call)"""
        for n in ast.walk(fnode):
            if isinstance(n, ast.Call) and any(k.arg is None and isinstance(k.value, ast.Dict) for k in n.keywords):
                new = []
                ok = True
                for k in n.keywords:
                    if k.arg is None and isinstance(k.value, ast.Dict):
                        if not all(isinstance(x, ast.Constant) and isinstance(x.value, str) and x.value.isidentifier() for x in k.value.keys):
                            ok = False
                            break
                        new.extend(ast.keyword(arg=x.value, value=v) for x, v in zip(k.value.keys, k.value.values))
                    else:
                        new.append(k)
                names = [k.arg for k in new if k.arg is not None]
                if ok and len(names) == len(set(names)):
                    n.keywords = new
                    self.stats['spread_keywords'] = self.stats.get('spread_keywords', 0) + 1
        ast.fix_missing_locations(fnode)

    def _closure_factories(self, fnode, cls, local):
        """``enc, dec = _codec(ctx)`` where the new helper ``_codec`` binds a few locals to simple expressions of its parameters,
        defines one-expression functions over them and returns those functions: every ``enc(x)`` / ``dec(x)`` in this function reads as
        the expression of the nested function, with the helper's parameters, its locals and the nested function's own parameters
        replaced.  The targets must be bound by that statement only and used only as the function of calls."""
        me = self

        def subst(e, env):
            class S(ast.NodeTransformer):
                def visit_Name(self_, n):
                    if isinstance(n.ctx, ast.Load) and n.id in env:
                        return ast.copy_location(copy.deepcopy(env[n.id]), n)
                    return n
            return S().visit(copy.deepcopy(e))
        for blk in _blocks(fnode):
            i = 0
            while i < len(blk):
                st = blk[i]
                i += 1
                if not (isinstance(st, ast.Assign) and len(st.targets) == 1 and isinstance(st.value, ast.Call)
                        and isinstance(st.value.func, ast.Name) and not st.value.keywords):
                    continue
                tg = st.targets[0]
                names = [tg.id] if isinstance(tg, ast.Name) else [t.id for t in tg.elts] if isinstance(tg, ast.Tuple) and all(
                    isinstance(t, ast.Name) for t in tg.elts) else None
                if not names:
                    continue
                F = me.m.functions.get(st.value.func.id)
                if F is None or not me.repo.is_helper(F) or F.node is fnode:
                    continue
                a = F.node.args
                if a.vararg or a.kwarg or a.kwonlyargs or a.defaults or len(a.args) + len(a.posonlyargs) != len(st.value.args) \
                        or not all(_is_simple_or_const(x) for x in st.value.args):
                    continue
                env = {p.arg: x for p, x in zip(list(a.posonlyargs) + list(a.args), st.value.args)}
                nested: Dict[str, ast.FunctionDef] = {}
                ret = None
                ok = True
                for b in _body(F.node):
                    if isinstance(b, ast.Assign) and len(b.targets) == 1 and isinstance(b.targets[0], ast.Name) and _is_simple_or_const(b.value):
                        env[b.targets[0].id] = subst(b.value, env)
                    elif isinstance(b, ast.FunctionDef) and not b.decorator_list:
                        body_ = _body(b)
                        ga = b.args
                        if len(body_) == 1 and isinstance(body_[0], ast.Return) and body_[0].value is not None and not (
                                ga.vararg or ga.kwarg or ga.kwonlyargs or ga.defaults or ga.posonlyargs):
                            nested[b.name] = b
                        else:
                            ok = False
                    elif isinstance(b, ast.Return) and b.value is not None:
                        ret = b.value
                    else:
                        ok = False
                if not ok or ret is None:
                    continue
                rnames = [ret.id] if isinstance(ret, ast.Name) else [e.id for e in ret.elts] if isinstance(ret, ast.Tuple) and all(
                    isinstance(e, ast.Name) for e in ret.elts) else None
                if not rnames or len(rnames) != len(names) or any(r not in nested for r in rnames):
                    continue
                live = [n_ for n_ in names if n_ != '_']
                # each target: one binding, loads only as the function of a call
                good = True
                for n_ in live:
                    stores = [y for y in ast.walk(fnode) if isinstance(y, ast.Name) and y.id == n_ and isinstance(y.ctx, (ast.Store, ast.Del))]
                    loads = [y for y in ast.walk(fnode) if isinstance(y, ast.Name) and y.id == n_ and isinstance(y.ctx, ast.Load)]
                    calls = [y for y in ast.walk(fnode) if isinstance(y, ast.Call) and isinstance(y.func, ast.Name) and y.func.id == n_
                             and not y.keywords and not any(isinstance(z, ast.Starred) for z in y.args)]
                    if len(stores) != 1 or len(loads) != len(calls):
                        good = False
                if not good:
                    continue
                bind = {n_: nested[r] for n_, r in zip(names, rnames)}

                class C(ast.NodeTransformer):
                    def visit_Call(self_, n):
                        n = self_.generic_visit(n)
                        if isinstance(n.func, ast.Name) and n.func.id in bind and n.func.id != '_':
                            g = bind[n.func.id]
                            if len(g.args.args) == len(n.args):
                                env2 = dict(env)
                                env2.update({p.arg: x for p, x in zip(g.args.args, n.args)})
                                return ast.copy_location(subst(_body(g)[0].value, env2), n)
                        return n
                C().visit(fnode)
                blk.remove(st)
                i -= 1
                if not blk:
                    blk.append(ast.Pass())
                me.stats['closure_factories'] = me.stats.get('closure_factories', 0) + 1
        ast.fix_missing_locations(fnode)

    def _dict_displays(self, fnode, cls, local):
        """* ``{'a': x, **d}`` with ``d`` a local bound once, directly before, to a dict display with constant keys (and used nowhere
          else) -> the merged display (later keys win, as in Python);
        * ``for k, v in {'a': x, 'b': y}.items(): BODY`` (constant keys, values names / attribute reads / constants, no break /
          continue in BODY, BODY not rebinding what the values read) -> BODY once per item, in display order, with k and v bound."""
        me = self

        def const_keys(d) -> bool:
            return isinstance(d, ast.Dict) and all(isinstance(k, ast.Constant) for k in d.keys)
        for blk in _blocks(fnode):
            i = 0
            while i + 1 < len(blk):
                st, nxt = blk[i], blk[i + 1]
                if isinstance(st, ast.Assign) and len(st.targets) == 1 and isinstance(st.targets[0], ast.Name) and const_keys(st.value) \
                        and all(_is_simple_or_const(v) or (isinstance(v, ast.Subscript) and _is_simple(v.value)) for v in st.value.values):
                    nm = st.targets[0].id
                    uses = [y for y in ast.walk(fnode) if isinstance(y, ast.Name) and y.id == nm]
                    read_ = {y.id for v in st.value.values for y in ast.walk(v) if isinstance(y, ast.Name)}
                    spreads = []
                    for later in blk[i + 1:]:
                        spreads = [d for d in ast.walk(later) if isinstance(d, ast.Dict) and any(
                            k is None and isinstance(v, ast.Name) and v.id == nm for k, v in zip(d.keys, d.values))]
                        if spreads or any(isinstance(y, ast.Name) and (y.id == nm or (y.id in read_ and isinstance(y.ctx, (ast.Store, ast.Del))))
                                          for y in ast.walk(later)):
                            break
                    if len(uses) == 2 and len(spreads) == 1:
                        d = spreads[0]
                        keys, vals = [], []
                        for k, v in zip(d.keys, d.values):
                            if k is None and isinstance(v, ast.Name) and v.id == nm:
                                for k2, v2 in zip(st.value.keys, st.value.values):
                                    keys.append(k2)
                                    vals.append(v2)
                            else:
                                keys.append(k)
                                vals.append(v)
                        # later entries replace earlier ones with the same constant key
                        seen_, mk, mv = {}, [], []
                        for k, v in zip(keys, vals):
                            if isinstance(k, ast.Constant) and k.value in seen_:
                                mv[seen_[k.value]] = v
                            else:
                                if isinstance(k, ast.Constant):
                                    seen_[k.value] = len(mk)
                                mk.append(k)
                                mv.append(v)
                        d.keys, d.values = mk, mv
                        del blk[i]
                        me.stats['dict_displays'] = me.stats.get('dict_displays', 0) + 1
                        continue
                i += 1
        for blk in _blocks(fnode):
            i = 0
            while i < len(blk):
                st = blk[i]
                if isinstance(st, ast.For) and not st.orelse and isinstance(st.iter, ast.Call) and isinstance(st.iter.func, ast.Attribute) \
                        and st.iter.func.attr in ('items', 'iteritems') and not st.iter.args and const_keys(st.iter.func.value) \
                        and 0 < len(st.iter.func.value.keys) <= 12 and isinstance(st.target, ast.Tuple) and len(st.target.elts) == 2 \
                        and all(isinstance(t, ast.Name) for t in st.target.elts) \
                        and all(_is_simple_or_const(v) or (isinstance(v, ast.Subscript) and _is_simple(v.value)) for v in st.iter.func.value.values) \
                        and not any(isinstance(y, (ast.Break, ast.Continue)) for b in st.body for y in ast.walk(b)):
                    kn, vn = st.target.elts[0].id, st.target.elts[1].id
                    read = {y.id for v in st.iter.func.value.values for y in ast.walk(v) if isinstance(y, ast.Name)}
                    if any(isinstance(y, ast.Name) and isinstance(y.ctx, (ast.Store, ast.Del)) and y.id in read for b in st.body for y in ast.walk(b)):
                        i += 1
                        continue
                    out = []
                    rebinds = any(isinstance(y, ast.Name) and isinstance(y.ctx, (ast.Store, ast.Del)) and y.id in (kn, vn)
                                  for b in st.body for y in ast.walk(b))
                    used_after = any(isinstance(y, ast.Name) and y.id in (kn, vn) and isinstance(y.ctx, ast.Load)
                                     and getattr(y, 'lineno', 0) > getattr(st, 'end_lineno', getattr(st, 'lineno', 0)) for y in ast.walk(fnode))
                    for k, v in zip(st.iter.func.value.keys, st.iter.func.value.values):
                        if rebinds or used_after:
                            out.append(ast.Assign(targets=[ast.Name(id=kn, ctx=ast.Store())], value=copy.deepcopy(k)))
                            out.append(ast.Assign(targets=[ast.Name(id=vn, ctx=ast.Store())], value=copy.deepcopy(v)))
                            out.extend(copy.deepcopy(st.body))
                        else:
                            class S(ast.NodeTransformer):
                                def visit_Name(self_, n):
                                    if isinstance(n.ctx, ast.Load) and n.id == kn:
                                        return ast.copy_location(copy.deepcopy(k), n)
                                    if isinstance(n.ctx, ast.Load) and n.id == vn:
                                        return ast.copy_location(copy.deepcopy(v), n)
                                    return n
                            out.extend(S().visit(b) for b in copy.deepcopy(st.body))
                    for x in out:
                        ast.copy_location(x, st)
                        ast.fix_missing_locations(x)
                    blk[i:i + 1] = out
                    me.stats['dict_displays'] = me.stats.get('dict_displays', 0) + 1
                    i += len(out)
                    continue
                i += 1

    def _display_algebra(self, fnode, cls, local):
        """Positional plumbing through short-lived sequences reads as the values themselves:

        * a local bound once to a display of simple values (names, attribute reads, constants) and used -- in the statements
          right after it, with nothing in between that could change those values -- only through constant subscripts, constant
          slices and ``*`` is replaced by the display;
        * ``v[i:j]`` of a local bound once to ``S.unpack(..)`` of a struct constant of n fields -> ``(v[i], .., v[j-1])``;
        * ``(a, b, c)[1]`` -> ``b``; ``(a, b, c)[1:]`` -> ``(b, c)``; ``(a,) + (b, c)`` -> ``(a, b, c)``;
        * ``zip(D1, D2)`` -> the display of pairs, ``dict(<display of (const, v) pairs>)`` -> ``{const: v, ..}``,
          ``f(**{'k': v})`` -> ``f(k=v)``, ``f(*(a, b))`` -> ``f(a, b)``."""
        me = self
        from .srcmodel import StructVal
        params = {a.arg for a in fnode.args.args + fnode.args.kwonlyargs + fnode.args.posonlyargs}
        if fnode.args.vararg:
            params.add(fnode.args.vararg.arg)
        if fnode.args.kwarg:
            params.add(fnode.args.kwarg.arg)

        def stores_of(name):
            return [n for n in ast.walk(fnode) if isinstance(n, ast.Name) and n.id == name and isinstance(n.ctx, (ast.Store, ast.Del))]

        # -- arity of unpack results
        arity: Dict[str, int] = {}
        for n in ast.walk(fnode):
            if isinstance(n, ast.Assign) and len(n.targets) == 1 and isinstance(n.targets[0], ast.Name) and isinstance(n.value, ast.Call) \
                    and isinstance(n.value.func, ast.Attribute) and n.value.func.attr in ('unpack', 'unpack_from'):
                nm = n.targets[0].id
                if nm in params or len(stores_of(nm)) != 1:
                    continue
                recv = n.value.func.value
                sv = None
                try:
                    if isinstance(recv, ast.Attribute) and isinstance(recv.value, ast.Name) and recv.value.id in ('self', 'cls') and cls is not None:
                        hit = cls.find_attr(recv.attr)
                        if hit and not any(k is not hit[0] and recv.attr in k.attrs for k in me.repo.subclasses(cls)):
                            sv = me.repo.try_fold(recv, me.m, cls)
                    elif isinstance(recv, ast.Name) and recv.id == 'struct' and n.value.args:
                        f0 = me.repo.try_fold(n.value.args[0], me.m, cls)
                        sv = StructVal(f0) if isinstance(f0, str) else None
                    else:
                        sv = me.repo.try_fold(recv, me.m, cls)
                except Exception:
                    sv = None
                if isinstance(sv, StructVal):
                    import struct as _st
                    try:
                        arity[nm] = len(_st.unpack(sv.fmt, b'\0' * _st.calcsize(sv.fmt)))
                    except Exception:
                        pass

        def const_int(x):
            if x is None:
                return None
            if isinstance(x, ast.Constant) and type(x.value) is int:
                return x.value
            if isinstance(x, ast.UnaryOp) and isinstance(x.op, ast.USub) and isinstance(x.operand, ast.Constant) and type(x.operand.value) is int:
                return -x.operand.value
            return 'no'

        def plain(d):
            return isinstance(d, (ast.Tuple, ast.List)) and not any(isinstance(x, ast.Starred) for x in d.elts)

        changed = [False]

        def spread(x):
            """``v[i:j]`` of an unpack result of known arity, as the display of its elements (only where it is combined with
            other displays: a plain ``a = v[i:j]`` keeps its shape)"""
            if isinstance(x, ast.Subscript) and isinstance(x.ctx, ast.Load) and isinstance(x.slice, ast.Slice) and x.slice.step is None \
                    and isinstance(x.value, ast.Name) and x.value.id in arity:
                lo, hi = const_int(x.slice.lower), const_int(x.slice.upper)
                if lo != 'no' and hi != 'no':
                    idx = list(range(arity[x.value.id]))[slice(lo, hi)]
                    changed[0] = True
                    return ast.copy_location(ast.Tuple(elts=[ast.Subscript(value=ast.Name(id=x.value.id, ctx=ast.Load()),
                                                                           slice=ast.Constant(value=i), ctx=ast.Load()) for i in idx],
                                                       ctx=ast.Load()), x)
            return x

        def is_spreadable(x):
            return isinstance(x, ast.Subscript) and isinstance(x.slice, ast.Slice) and isinstance(x.value, ast.Name) and x.value.id in arity

        class A(ast.NodeTransformer):
            def visit_FunctionDef(self_, n):
                return n if n is not fnode else self_.generic_visit(n)
            visit_AsyncFunctionDef = visit_FunctionDef

            def visit_Lambda(self_, n):
                return n

            def visit_Subscript(self_, n):
                n = self_.generic_visit(n)
                if not isinstance(n.ctx, ast.Load):
                    return n
                if isinstance(n.slice, ast.Slice) and n.slice.step is None:
                    lo, hi = const_int(n.slice.lower), const_int(n.slice.upper)
                    if lo == 'no' or hi == 'no':
                        return n
                    if plain(n.value):
                        changed[0] = True
                        return ast.copy_location(type(n.value)(elts=n.value.elts[slice(lo, hi)], ctx=ast.Load()), n)
                    return n
                k = const_int(n.slice) if not isinstance(n.slice, ast.Slice) else 'no'
                if k not in ('no', None) and plain(n.value) and -len(n.value.elts) <= k < len(n.value.elts):
                    changed[0] = True
                    return n.value.elts[k]
                return n

            def visit_BinOp(self_, n):
                n = self_.generic_visit(n)
                if isinstance(n.op, ast.Add) and (is_spreadable(n.left) or is_spreadable(n.right)) and all(
                        is_spreadable(x) or isinstance(x, ast.Tuple) for x in (n.left, n.right)):
                    n.left, n.right = spread(n.left), spread(n.right)
                if isinstance(n.op, ast.Add) and plain(n.left) and plain(n.right) and type(n.left) is type(n.right):
                    changed[0] = True
                    return ast.copy_location(type(n.left)(elts=list(n.left.elts) + list(n.right.elts), ctx=ast.Load()), n)
                return n

            def visit_Call(self_, n):
                n = self_.generic_visit(n)
                f = n.func
                if isinstance(f, ast.Name) and f.id not in local and not n.keywords:
                    if f.id == 'zip' and n.args and all(plain(a) or is_spreadable(a) for a in n.args):
                        n.args = [spread(a) for a in n.args]
                    if f.id == 'zip' and n.args and all(plain(a) for a in n.args):
                        k = min(len(a.elts) for a in n.args)
                        changed[0] = True
                        return ast.copy_location(ast.List(elts=[ast.Tuple(elts=[a.elts[i] for a in n.args], ctx=ast.Load())
                                                               for i in range(k)], ctx=ast.Load()), n)
                    if f.id == 'dict' and len(n.args) == 1 and plain(n.args[0]) and all(
                            isinstance(x, ast.Tuple) and len(x.elts) == 2 and isinstance(x.elts[0], ast.Constant) for x in n.args[0].elts) \
                            and len({x.elts[0].value for x in n.args[0].elts}) == len(n.args[0].elts):
                        changed[0] = True
                        return ast.copy_location(ast.Dict(keys=[x.elts[0] for x in n.args[0].elts],
                                                          values=[x.elts[1] for x in n.args[0].elts]), n)
                    if f.id in ('list', 'tuple') and len(n.args) == 1 and plain(n.args[0]) and isinstance(n.args[0], ast.List) \
                            and f.id == 'tuple':
                        pass
                # f(**{'k': v}) -> f(k=v)
                kws = []
                hit = False
                for kw in n.keywords:
                    if kw.arg is None and isinstance(kw.value, ast.Dict) and kw.value.keys and all(
                            isinstance(k, ast.Constant) and isinstance(k.value, str) and k.value.isidentifier() for k in kw.value.keys):
                        kws.extend(ast.keyword(arg=k.value, value=v) for k, v in zip(kw.value.keys, kw.value.values))
                        hit = True
                    else:
                        kws.append(kw)
                if hit and len({k.arg for k in kws if k.arg}) == len([k for k in kws if k.arg]):
                    n.keywords = kws
                    changed[0] = True
                if any(isinstance(a, ast.Starred) and plain(a.value) for a in n.args):
                    args = []
                    for a in n.args:
                        if isinstance(a, ast.Starred) and plain(a.value):
                            args.extend(a.value.elts)
                        else:
                            args.append(a)
                    n.args = args
                    changed[0] = True
                return n

        def simple_elt(x):
            return isinstance(x, ast.Constant) or _is_simple(x) or _is_const_display(x)

        def propagate_displays():
            """substitute locals bound once to a display of simple values into the statement(s) right after the binding"""
            done = False
            for blk in _blocks(fnode):
                i = 0
                while i < len(blk):
                    st = blk[i]
                    i += 1
                    is_dict = isinstance(st, ast.Assign) and isinstance(st.value, ast.Dict) and st.value.keys and \
                        len(st.value.keys) <= me.UNROLL_MAX and all(isinstance(k, ast.Constant) and isinstance(k.value, str) for k in st.value.keys) \
                        and all(simple_elt(v) or (isinstance(v, ast.Subscript) and _is_simple(v.value) and isinstance(v.slice, ast.Constant))
                                for v in st.value.values)
                    if not (isinstance(st, ast.Assign) and len(st.targets) == 1 and isinstance(st.targets[0], ast.Name) and (is_dict or (
                            plain(st.value) and st.value.elts and len(st.value.elts) <= me.UNROLL_MAX and all(simple_elt(x) for x in st.value.elts)))):
                        continue
                    nm = st.targets[0].id
                    if nm in params or len(stores_of(nm)) != 1:
                        continue
                    uses = [n for n in ast.walk(fnode) if isinstance(n, ast.Name) and n.id == nm and isinstance(n.ctx, ast.Load)]
                    if not uses:
                        continue
                    # every use sits in the statements that directly follow, as v[const] / v[const:const] / *v
                    parents = {}
                    for stmt in blk[i:]:
                        for p_ in ast.walk(stmt):
                            for ch in ast.iter_child_nodes(p_):
                                parents[id(ch)] = p_
                    if any(id(u) not in parents for u in uses):
                        continue
                    def ok_use(u):
                        p_ = parents[id(u)]
                        if is_dict:
                            return isinstance(p_, ast.keyword) and p_.arg is None      # f(**d)
                        if isinstance(p_, ast.Starred):
                            return True
                        if isinstance(p_, ast.Subscript) and p_.value is u and isinstance(p_.ctx, ast.Load):
                            if isinstance(p_.slice, ast.Slice):
                                return p_.slice.step is None and const_int(p_.slice.lower) != 'no' and const_int(p_.slice.upper) != 'no'
                            return const_int(p_.slice) not in ('no', None)
                        return False
                    if not all(ok_use(u) for u in uses):
                        continue
                    # the statements up to the last use: simple statements only; calls only as ancestors of a use (their
                    # arguments are evaluated first) with call-free callee expressions; nothing stores in between
                    last = max(k for k, stmt in enumerate(blk[i:]) if any(x is u for u in uses for x in ast.walk(stmt)))
                    span = blk[i:i + last + 1]
                    names_read = {y.id for x in (st.value.values if is_dict else st.value.elts) for y in ast.walk(x) if isinstance(y, ast.Name)}
                    safe = True
                    for k, stmt in enumerate(span):
                        if not isinstance(stmt, (ast.Assign, ast.Expr, ast.Return, ast.AugAssign, ast.AnnAssign)):
                            safe = False
                            break
                        anc = set()
                        for u in uses:
                            x = u
                            while id(x) in parents and x is not stmt:
                                x = parents[id(x)]
                                anc.add(id(x))
                        for c in ast.walk(stmt):
                            if isinstance(c, (ast.Yield, ast.YieldFrom, ast.Await, ast.NamedExpr, ast.Lambda, ast.ListComp, ast.GeneratorExp,
                                              ast.DictComp, ast.SetComp)):
                                safe = False
                            if isinstance(c, ast.Call):
                                if id(c) not in anc or any(isinstance(y, ast.Call) for y in ast.walk(c.func)):
                                    safe = False
                        if k < last:
                            # an earlier statement of the span ran its calls and stores before later uses read the values
                            if any(isinstance(c, ast.Call) for c in ast.walk(stmt)) or any(
                                    isinstance(c, (ast.Attribute, ast.Subscript)) and isinstance(c.ctx, (ast.Store, ast.Del)) for c in ast.walk(stmt)):
                                safe = False
                            if any(isinstance(c, ast.Name) and isinstance(c.ctx, (ast.Store, ast.Del)) and c.id in names_read for c in ast.walk(stmt)):
                                safe = False
                    if not safe:
                        continue
                    for u in uses:
                        p_ = parents[id(u)]
                        d = copy.deepcopy(st.value)
                        for fld, val in ast.iter_fields(p_):
                            if val is u:
                                setattr(p_, fld, ast.copy_location(d, u))
                    blk.remove(st)
                    i -= 1
                    done = True
            return done

        for _round in range(4):
            changed[0] = False
            moved = propagate_displays()
            A().visit(fnode)
            if not (moved or changed[0]):
                break
            me.stats['display_algebra'] = me.stats.get('display_algebra', 0) + 1
        ast.fix_missing_locations(fnode)

    # ------------------------------------------------------------------ 9. data-driven code over constant tables
    UNROLL_MAX = 24

    def _data_driven(self, fnode, cls, local):
        """Code driven by a constant table reads as the code the table stands for:

        * ``[E for x in (c1, c2)]`` -> ``[E[c1], E[c2]]`` (also with tuple targets over rows of constants); a starred display in a
          call (``f(*[a, b])``) is spliced;
        * ``for x in (c1, c2): BODY`` -> ``BODY[c1]; BODY[c2]``; a body whose only exit is ``if C: ...; break`` becomes nested
          ``if``s (the ``else`` clause of the loop ends up where no ``break`` was taken);
        * ``getattr(o, 'name')`` -> ``o.name``; the statement ``setattr(o, 'name', v)`` -> ``o.name = v``;
        * ``(a, b)[bool(c)]`` / ``(a, b)[c]`` with ``c`` a comparison or ``not`` -> ``b if c else a``.
        Only literal sequences of constants of at most UNROLL_MAX items (after constant folding) are unrolled."""
        me = self

        def pure_display(x) -> bool:
            """constants, names and attribute chains, and tuples of these: reading them later instead of when the display was
            built gives the same value as long as the loop body does not rebind what they name"""
            if _is_const_display(x) or isinstance(x, ast.Name):
                return True
            if isinstance(x, ast.Attribute):
                return _is_simple(x)
            if isinstance(x, ast.Tuple) and x.elts:
                return all(pure_display(y) for y in x.elts)
            if isinstance(x, ast.BinOp) and isinstance(x.op, (ast.Add, ast.Sub, ast.Mult, ast.BitOr, ast.BitAnd)):
                return pure_display(x.left) and pure_display(x.right)
            if isinstance(x, ast.Lambda):
                # a function value: pure as long as its body only reads its own parameters and module-level names
                params = {a.arg for a in x.args.args}
                return not x.args.vararg and not x.args.kwarg and not x.args.kwonlyargs and not x.args.defaults and \
                    all(not (isinstance(y, ast.Name) and y.id in local and y.id not in params) for y in ast.walk(x.body))
            return False

        def table_display(it):
            """the display a loop iterates, seen through: a local bound once to a display; a module-level name bound once to
            a display nothing writes to; ``zip(d1, d2, ...)`` and ``enumerate(d[, start])`` of such displays"""
            if isinstance(it, (ast.Tuple, ast.List)):
                return it
            if isinstance(it, ast.Name):
                if it.id in local:
                    binds = [n for n in ast.walk(fnode) if isinstance(n, ast.Assign) and len(n.targets) == 1
                             and isinstance(n.targets[0], ast.Name) and n.targets[0].id == it.id]
                    stores = [n for n in ast.walk(fnode) if isinstance(n, ast.Name) and n.id == it.id and isinstance(n.ctx, (ast.Store, ast.Del))]
                    params = {a.arg for a in fnode.args.args + fnode.args.kwonlyargs}
                    if len(binds) == 1 and len(stores) == 1 and it.id not in params and isinstance(binds[0].value, (ast.Tuple, ast.List)):
                        return binds[0].value
                    return None
                try:
                    r = me.repo.resolve_name(it.id, me.m)
                except Exception:
                    return None
                if isinstance(r, tuple) and r and r[0] == 'assign' and r[1] is me.m and len(r[1].assigns.get(r[2], [])) == 1 \
                        and isinstance(r[1].assigns[r[2]][0], (ast.Tuple, ast.List)) and not me.repo.table_writers(r[1].name, r[2]) \
                        and r[2] not in me.globals_rebound:
                    return r[1].assigns[r[2]][0]
                return None
            if isinstance(it, ast.Call) and isinstance(it.func, ast.Name) and not it.keywords and it.func.id not in local:
                if it.func.id in ('zip', 'six.moves.zip') and it.args:
                    ds = [table_display(a) for a in it.args]
                    if any(d is None or any(isinstance(x, ast.Starred) for x in d.elts) for d in ds):
                        return None
                    n_ = min(len(d.elts) for d in ds)
                    return ast.Tuple(elts=[ast.Tuple(elts=[d.elts[i] for d in ds], ctx=ast.Load()) for i in range(n_)], ctx=ast.Load())
                if it.func.id == 'enumerate' and 1 <= len(it.args) <= 2:
                    d = table_display(it.args[0])
                    start = it.args[1].value if len(it.args) == 2 and isinstance(it.args[1], ast.Constant) and isinstance(it.args[1].value, int) else 0 if len(it.args) == 1 else None
                    if d is None or start is None or any(isinstance(x, ast.Starred) for x in d.elts):
                        return None
                    return ast.Tuple(elts=[ast.Tuple(elts=[ast.Constant(value=start + i), x], ctx=ast.Load()) for i, x in enumerate(d.elts)], ctx=ast.Load())
            return None

        def const_items(it, allow_names=False):
            if allow_names and not isinstance(it, (ast.Tuple, ast.List)):
                it = table_display(it)
            if isinstance(it, (ast.Tuple, ast.List)) and 0 < len(it.elts) <= me.UNROLL_MAX \
                    and all((pure_display(x) if allow_names else _is_const_display(x)) for x in it.elts):
                return list(it.elts)
            return None

        def bind(target, item):
            """{name: constant node} for a loop / comprehension target matched against one constant item, or None"""
            if isinstance(target, ast.Name):
                return {target.id: item}
            if isinstance(target, (ast.Tuple, ast.List)) and isinstance(item, (ast.Tuple, ast.List)) and len(target.elts) == len(item.elts) \
                    and not any(isinstance(x, ast.Starred) for x in target.elts):
                out = {}
                for t, i in zip(target.elts, item.elts):
                    b = bind(t, i)
                    if b is None:
                        return None
                    out.update(b)
                return out
            return None

        def subst(node, env):
            class S(ast.NodeTransformer):
                def visit_Name(self_, n):
                    if isinstance(n.ctx, ast.Load) and n.id in env:
                        return ast.copy_location(copy.deepcopy(env[n.id]), n)
                    return n
            return S().visit(copy.deepcopy(node))

        def rebinds(nodes, names) -> bool:
            for b in nodes:
                for n in ast.walk(b):
                    if isinstance(n, ast.Name) and isinstance(n.ctx, (ast.Store, ast.Del)) and n.id in names:
                        return True
                    if isinstance(n, (ast.FunctionDef, ast.AsyncFunctionDef, ast.Lambda, ast.ClassDef)):
                        return True       # closures may capture the loop variable late
            return False

        class E(ast.NodeTransformer):
            def visit_FunctionDef(self_, n):
                return n if n is not fnode else self_.generic_visit(n)
            visit_AsyncFunctionDef = visit_FunctionDef

            def visit_Lambda(self_, n):
                return n

            def _comp(self_, n, make):
                n = self_.generic_visit(n)
                if len(n.generators) == 1 and n.generators[0].ifs and not n.generators[0].is_async and isinstance(n, ast.ListComp):
                    # a filtered comprehension over a constant table: every row contributes its element or nothing
                    g = n.generators[0]
                    items = const_items(g.iter)
                    if items is not None:
                        parts = []
                        for it in items:
                            b = bind(g.target, it)
                            if b is None:
                                return n
                            cond = subst(g.ifs[0], b) if len(g.ifs) == 1 else ast.BoolOp(op=ast.And(), values=[subst(c_, b) for c_ in g.ifs])
                            parts.append(ast.Starred(value=ast.IfExp(test=self_.visit(cond), body=ast.List(elts=[self_.visit(subst(n.elt, b))], ctx=ast.Load()),
                                                                      orelse=ast.List(elts=[], ctx=ast.Load())), ctx=ast.Load()))
                        me.stats['unrolled'] = me.stats.get('unrolled', 0) + 1
                        return ast.copy_location(ast.List(elts=parts, ctx=ast.Load()), n)
                    return n
                if len(n.generators) != 1 or n.generators[0].ifs or n.generators[0].is_async:
                    return n
                g = n.generators[0]
                items = const_items(g.iter)
                if items is None and isinstance(g.iter, (ast.Tuple, ast.List)) and not g.iter.elts:
                    items = []          # a comprehension over the empty display
                if items is None:
                    return n
                outs = []
                for it in items:
                    b = bind(g.target, it)
                    if b is None:
                        return n
                    outs.append(b)
                me.stats['unrolled'] = me.stats.get('unrolled', 0) + 1
                return ast.copy_location(make(n, outs), n)

            def visit_ListComp(self_, n):
                return self_._comp(n, lambda n_, outs: ast.List(elts=[self_.visit(subst(n_.elt, b)) for b in outs], ctx=ast.Load()))

            def visit_GeneratorExp(self_, n):
                # a generator over a constant table whose items are constants themselves: the tuple of those constants
                # (nothing is evaluated, so when it is consumed does not matter)
                def make(n_, outs):
                    elts = [self_.visit(subst(n_.elt, b)) for b in outs]
                    if all(_is_const_display(x) for x in elts):
                        return ast.Tuple(elts=elts, ctx=ast.Load())
                    return n_
                return self_._comp(n, make)

            def visit_Call(self_, n):
                n = self_.generic_visit(n)
                # getattr(o, 'name', None) -> o.name (the default only matters where the attribute is missing, where the plain
                # read raises: the value on every path that goes on is the same)
                if isinstance(n.func, ast.Name) and n.func.id == 'getattr' and len(n.args) == 3 and not n.keywords \
                        and isinstance(n.args[1], ast.Constant) and isinstance(n.args[1].value, str) and n.args[1].value.isidentifier() \
                        and isinstance(n.args[2], ast.Constant) and n.args[2].value is None and 'getattr' not in local \
                        and n.args[1].value in me._dimse_properties():
                    return ast.copy_location(ast.Attribute(value=n.args[0], attr=n.args[1].value, ctx=ast.Load()), n)
                # getattr(o, 'name') -> o.name
                if isinstance(n.func, ast.Name) and n.func.id == 'getattr' and len(n.args) == 2 and not n.keywords \
                        and isinstance(n.args[1], ast.Constant) and isinstance(n.args[1].value, str) and n.args[1].value.isidentifier() \
                        and 'getattr' not in local:
                    return ast.copy_location(ast.Attribute(value=n.args[0], attr=n.args[1].value, ctx=ast.Load()), n)
                # (lambda a, b: E)(x, y) -> E[a := x, b := y] for simple arguments used as often as you like
                if isinstance(n.func, ast.Lambda) and not n.keywords and not any(isinstance(a, ast.Starred) for a in n.args):
                    la = n.func.args
                    ps = [a.arg for a in la.args]
                    if not (la.vararg or la.kwarg or la.kwonlyargs or la.defaults or la.posonlyargs) and len(ps) == len(n.args) \
                            and all(_is_simple(a) or isinstance(a, ast.Constant) for a in n.args) \
                            and not any(isinstance(y, (ast.Lambda, ast.NamedExpr, ast.Yield, ast.YieldFrom, ast.Await)) for y in ast.walk(n.func.body)):
                        me.stats['unrolled'] = me.stats.get('unrolled', 0) + 1
                        return ast.copy_location(subst(n.func.body, dict(zip(ps, n.args))), n)
                # f(*[a, b]) -> f(a, b)
                if any(isinstance(a, ast.Starred) and isinstance(a.value, (ast.List, ast.Tuple))
                       and not any(isinstance(x, ast.Starred) for x in a.value.elts) for a in n.args):
                    args = []
                    for a in n.args:
                        if isinstance(a, ast.Starred) and isinstance(a.value, (ast.List, ast.Tuple)) \
                                and not any(isinstance(x, ast.Starred) for x in a.value.elts):
                            args.extend(a.value.elts)
                        else:
                            args.append(a)
                    n.args = args
                return n

            def visit_Subscript(self_, n):
                n = self_.generic_visit(n)
                if isinstance(n.ctx, ast.Load) and isinstance(n.value, ast.Name) and n.value.id not in local \
                        and isinstance(n.slice, ast.Call) and isinstance(n.slice.func, ast.Name) and n.slice.func.id == 'bool':
                    # a module-level ``{True: a, False: b}`` that nothing writes to, indexed by bool(c)
                    try:
                        r = me.repo.resolve_name(n.value.id, me.m)
                    except Exception:
                        r = None
                    if isinstance(r, tuple) and r and r[0] == 'assign' and len(r[1].assigns.get(r[2], [])) == 1 \
                            and not me.repo.table_writers(r[1].name, r[2]):
                        try:
                            v = me.repo.fold(r[1].assigns[r[2]][0], r[1])
                        except Exception:
                            v = None
                        disp = _bool_dict_display(v)
                        if disp is not None:
                            n = ast.copy_location(ast.Subscript(value=disp, slice=n.slice, ctx=ast.Load()), n)
                if isinstance(n.ctx, ast.Load) and isinstance(n.value, (ast.Tuple, ast.List)) and len(n.value.elts) == 2 \
                        and not any(isinstance(x, ast.Starred) for x in n.value.elts):
                    idx = n.slice
                    if isinstance(idx, ast.Call) and isinstance(idx.func, ast.Name) and idx.func.id == 'bool' and len(idx.args) == 1 \
                            and not idx.keywords:
                        cond = idx.args[0]
                    elif isinstance(idx, ast.Compare) or (isinstance(idx, ast.UnaryOp) and isinstance(idx.op, ast.Not)):
                        cond = idx
                    else:
                        return n
                    if all(_is_const_display(x) or isinstance(x, (ast.Name, ast.Attribute)) for x in n.value.elts):
                        me.stats['unrolled'] = me.stats.get('unrolled', 0) + 1
                        return ast.copy_location(ast.IfExp(test=cond, body=n.value.elts[1], orelse=n.value.elts[0]), n)
                return n
        E().visit(fnode)

        def unroll_for(st: ast.For):
            items = const_items(st.iter, allow_names=True)
            if items is None:
                return None
            names = {x.id for x in ast.walk(st.target) if isinstance(x, ast.Name)}
            if not all(isinstance(x, (ast.Name, ast.Tuple, ast.List)) for x in ast.walk(st.target)
                       if isinstance(x, ast.expr) and not isinstance(x, ast.expr_context)):
                return None
            if rebinds(st.body + st.orelse, names) or _loop_level(st.body, (ast.Continue,)):
                return None
            # names and attributes the items mention must not change while the loop runs
            mentioned = {x.id for it in items for x in ast.walk(it) if isinstance(x, ast.Name)}
            if mentioned:
                if rebinds(st.body + st.orelse, mentioned):
                    return None
                def local_attr(it):
                    """an attribute read of an object held in a local / parameter (its value may change while the body runs)"""
                    lam_params = {a.arg for y in ast.walk(it) if isinstance(y, ast.Lambda) for a in y.args.args}
                    for y in ast.walk(it):
                        if isinstance(y, ast.Attribute):
                            root = y
                            while isinstance(root, ast.Attribute):
                                root = root.value
                            if isinstance(root, ast.Name) and root.id in local and root.id not in lam_params:
                                return True
                    return False
                if any(local_attr(it) for it in items) and \
                        any(isinstance(n, ast.Call) or (isinstance(n, ast.Attribute) and isinstance(n.ctx, (ast.Store, ast.Del)))
                            for b in st.body for n in ast.walk(b)):
                    return None
            envs = []
            for it in items:
                b = bind(st.target, it)
                if b is None:
                    return None
                envs.append(b)
            has_break = _loop_level(st.body, (ast.Break,))
            if not has_break:
                out = []
                for b in envs:
                    out.extend(subst(x, b) for x in st.body)
                out.extend(copy.deepcopy(st.orelse))
                return out
            # the only break allowed: the last statement of a top-level ``if`` of the body (no break anywhere else)
            idx = [i for i, x in enumerate(st.body) if isinstance(x, ast.If) and x.body and isinstance(x.body[-1], ast.Break)]
            if len(idx) != 1:
                return None
            k = idx[0]
            brk_if = st.body[k]
            rest_probe = st.body[:k] + st.body[k + 1:] + brk_if.orelse + brk_if.body[:-1]
            if _loop_level(rest_probe, (ast.Break,)):
                return None

            def build(i):
                if i == len(envs):
                    return copy.deepcopy(st.orelse)
                b = envs[i]
                before = [subst(x, b) for x in st.body[:k]]
                after = [subst(x, b) for x in st.body[k + 1:]]
                taken = [subst(x, b) for x in brk_if.body[:-1]] or [ast.Pass()]
                not_taken = [subst(x, b) for x in brk_if.orelse] + after + build(i + 1)
                node = ast.If(test=subst(brk_if.test, b), body=taken, orelse=not_taken)
                ast.copy_location(node, st)
                return before + [node]
            return build(0)

        def walk_body(body):
            out = []
            for st in body:
                if isinstance(st, (ast.FunctionDef, ast.AsyncFunctionDef, ast.ClassDef)):
                    out.append(st)
                    continue
                for fld in ('body', 'orelse', 'finalbody'):
                    v = getattr(st, fld, None)
                    if isinstance(v, list) and v and isinstance(v[0], ast.stmt):
                        setattr(st, fld, walk_body(v))
                if isinstance(st, ast.Try):
                    for h in st.handlers:
                        h.body = walk_body(h.body)
                if isinstance(st, ast.For):
                    un = unroll_for(st)
                    if un is not None:
                        me.stats['unrolled'] = me.stats.get('unrolled', 0) + 1
                        for x in un:
                            ast.copy_location(x, st)
                            ast.fix_missing_locations(x)
                        out.extend(walk_body(un) if un else [])
                        continue
                # setattr(o, 'name', v) as a statement -> o.name = v
                if isinstance(st, ast.Expr) and isinstance(st.value, ast.Call) and isinstance(st.value.func, ast.Name) \
                        and st.value.func.id == 'setattr' and len(st.value.args) == 3 and not st.value.keywords \
                        and isinstance(st.value.args[1], ast.Constant) and isinstance(st.value.args[1].value, str) \
                        and st.value.args[1].value.isidentifier() and 'setattr' not in local:
                    a = st.value.args
                    asg = ast.Assign(targets=[ast.Attribute(value=a[0], attr=a[1].value, ctx=ast.Store())], value=a[2])
                    ast.copy_location(asg, st)
                    ast.fix_missing_locations(asg)
                    out.append(asg)
                    continue
                out.append(st)
            return out or [ast.Pass()]
        fnode.body = walk_body(fnode.body)
        # substituted constants may have produced getattr(o, 'name') / (a, b)[c] forms: one more expression pass
        E().visit(fnode)
        fnode.body = walk_body(fnode.body)
        ast.fix_missing_locations(fnode)

    # ------------------------------------------------------------------ 8. tests on literals (left behind by inlining)
    def _prune_constant_tests(self, fnode, cls, local):
        """``if None is not None: A else: B`` -> ``B``: a test whose operands are literals (a default ``None`` substituted for a
        parameter by helper inlining) is decided here, so no reader explores the dead branch"""
        me = self

        def const_truth(t):
            if isinstance(t, ast.Constant):
                return bool(t.value)
            if isinstance(t, ast.UnaryOp) and isinstance(t.op, ast.Not):
                v = const_truth(t.operand)
                return None if v is None else not v
            if isinstance(t, ast.Compare) and len(t.ops) == 1 and isinstance(t.left, ast.Constant) \
                    and isinstance(t.comparators[0], ast.Constant):
                a, b = t.left.value, t.comparators[0].value
                op = t.ops[0]
                if isinstance(op, (ast.Is, ast.IsNot)):
                    if a is None or b is None or isinstance(a, bool) or isinstance(b, bool):
                        same = a is b
                        return same if isinstance(op, ast.Is) else not same
                    return None
                if isinstance(op, (ast.Eq, ast.NotEq)) and type(a) is type(b):
                    return (a == b) if isinstance(op, ast.Eq) else (a != b)
            return None

        def walk_body(body):
            out = []
            for st in body:
                if isinstance(st, (ast.FunctionDef, ast.AsyncFunctionDef, ast.ClassDef)):
                    out.append(st)
                    continue
                for fld in ('body', 'orelse', 'finalbody'):
                    v = getattr(st, fld, None)
                    if isinstance(v, list) and v and isinstance(v[0], ast.stmt):
                        setattr(st, fld, walk_body(v))
                if isinstance(st, ast.Try):
                    for h in st.handlers:
                        h.body = walk_body(h.body)
                if isinstance(st, ast.If):
                    v = const_truth(st.test)
                    if v is not None:
                        me.stats['constant_tests'] = me.stats.get('constant_tests', 0) + 1
                        taken = st.body if v else st.orelse
                        out.extend(taken)
                        continue
                out.append(st)
            if not out:
                p = ast.Pass()
                out = [p]
            return out
        fnode.body = walk_body(fnode.body)
        for n in ast.walk(fnode):
            if isinstance(n, ast.IfExp):
                v = const_truth(n.test)
                if v is not None:
                    keep = n.body if v else n.orelse
                    n.test, n.body, n.orelse = ast.Constant(value=True), keep, keep
        ast.fix_missing_locations(fnode)

    # ------------------------------------------------------------------ 7. locals that cache an attribute
    def _copy_propagate(self, fnode, cls, local):
        from .copyprop import CopyPropagator, StoreSummary
        if getattr(self, '_store_summary', None) is None:
            self._store_summary = StoreSummary(self.repo)
        m = self.m
        cp = CopyPropagator(self._store_summary, is_logging=lambda call: self.repo.is_logging_call(call, m), cls=cls, mod=m)
        n = cp.run(fnode)
        if n:
            self.stats['alias_uses'] = self.stats.get('alias_uses', 0) + n
            ast.fix_missing_locations(fnode)

    # ------------------------------------------------------------------ 6. bool() where only truth is asked
    def _truth_contexts(self, fnode, cls, local):
        """``if bool(x):`` / ``not bool(x)`` / ``bool(x) and y`` inside a test: the builtin ``bool`` (not shadowed) in a
        position that only asks for truth is the identity."""
        if 'bool' in local or 'bool' in self.m.assigns or 'bool' in self.m.imports or 'bool' in self.m.functions \
                or 'bool' in self.m.classes:
            return

        def strip(e):
            while isinstance(e, ast.Call) and isinstance(e.func, ast.Name) and e.func.id == 'bool' and len(e.args) == 1 \
                    and not e.keywords and not isinstance(e.args[0], ast.Starred):
                e = e.args[0]
                self.stats['bool_in_test'] = self.stats.get('bool_in_test', 0) + 1
            if isinstance(e, ast.UnaryOp) and isinstance(e.op, ast.Not):
                e.operand = strip(e.operand)
            elif isinstance(e, ast.BoolOp):
                # operands of and/or in a truth position are themselves only asked for truth
                e.values = [strip(v) for v in e.values]
            return e
        for n in ast.walk(fnode):
            if isinstance(n, (ast.If, ast.While, ast.IfExp, ast.Assert)):
                n.test = strip(n.test)
            elif isinstance(n, ast.UnaryOp) and isinstance(n.op, ast.Not):
                n.operand = strip(n.operand)
            elif isinstance(n, ast.comprehension):
                n.ifs = [strip(x) for x in n.ifs]
            elif isinstance(n, ast.Expr) and isinstance(n.value, ast.Call) and isinstance(n.value.func, ast.Name) and n.value.func.id == 'bool':
                n.value = strip(n.value)      # the value is thrown away: only the evaluation (with its short circuit) remains

    # ------------------------------------------------------------------ 6b. one spelling for builtin idioms
    ITER_CONSUMERS = ('max', 'min', 'sorted', 'list', 'tuple', 'set', 'frozenset', 'iter', 'enumerate', 'any', 'all', 'sum', 'len')

    PATH_CTORS = ('pathlib.Path', 'Path', 'pathlib.PurePath', 'PurePath', 'pathlib.PosixPath')
    PATH_TO_PATH = ('with_name', 'with_suffix', 'with_stem', 'joinpath', 'resolve', 'absolute', 'expanduser')
    PATH_CALLS = {'exists': 'os.path.exists', 'is_file': 'os.path.isfile', 'is_dir': 'os.path.isdir', 'unlink': 'os.remove',
                  'rename': 'os.rename', 'replace': 'os.replace', 'rmdir': 'os.rmdir', 'stat': 'os.stat', 'mkdir': 'os.mkdir'}

    def _pathlib_forms(self, fnode, cls, local):
        """Methods of ``pathlib.Path`` objects as the functions they wrap: ``p.open(mode)`` -> ``open(p, mode)``, ``p.exists()`` ->
        ``os.path.exists(p)``, ``p.unlink()`` -> ``os.remove(p)``, ``p.rename(q)`` -> ``os.rename(p, q)`` ...  A value is a path when it
        is ``pathlib.Path(..)``, ``path / x``, ``x / path``, ``path.with_name(..)`` (and the like), ``path.parent``, or a local bound
        only to such values."""
        if not any(isinstance(n, ast.Call) and ast.unparse(n.func) in self.PATH_CTORS for n in ast.walk(fnode)):
            return
        me = self
        binds: Dict[str, List[ast.expr]] = {}
        for n in ast.walk(fnode):
            if isinstance(n, ast.Assign) and len(n.targets) == 1 and isinstance(n.targets[0], ast.Name):
                binds.setdefault(n.targets[0].id, []).append(n.value)
            elif isinstance(n, (ast.For, ast.AugAssign, ast.AnnAssign, ast.With, ast.NamedExpr)) or isinstance(n, ast.Assign):
                for t in ast.walk(n):
                    if isinstance(t, ast.Name) and isinstance(t.ctx, ast.Store) and not (
                            isinstance(n, ast.Assign) and len(n.targets) == 1 and n.targets[0] is t):
                        binds.setdefault(t.id, []).append(None)
        params = {a.arg for a in fnode.args.args + fnode.args.kwonlyargs}
        paths: Set[str] = set()

        def is_path(e) -> bool:
            if isinstance(e, ast.Call) and ast.unparse(e.func) in me.PATH_CTORS:
                return True
            if isinstance(e, ast.BinOp) and isinstance(e.op, ast.Div):
                return is_path(e.left) or is_path(e.right)
            if isinstance(e, ast.Call) and isinstance(e.func, ast.Attribute) and e.func.attr in me.PATH_TO_PATH:
                return is_path(e.func.value)
            if isinstance(e, ast.Attribute) and e.attr == 'parent':
                return is_path(e.value)
            if isinstance(e, ast.Name):
                return e.id in paths
            return False
        # greatest fixed point: a local re-bound from itself (``p = p.with_name(..)``) stays a path
        paths.update(nm for nm, vals in binds.items() if nm not in params and vals and None not in vals)
        changed = True
        while changed:
            changed = False
            for nm in sorted(paths):
                if not all(is_path(v) for v in binds[nm]):
                    paths.discard(nm)
                    changed = True

        class T(ast.NodeTransformer):
            def visit_FunctionDef(self_, n):
                return n if n is not fnode else self_.generic_visit(n)
            visit_AsyncFunctionDef = visit_FunctionDef

            def visit_Call(self_, n):
                n = self_.generic_visit(n)
                if isinstance(n.func, ast.Attribute) and is_path(n.func.value):
                    if n.func.attr == 'open':
                        me.stats['pathlib_forms'] = me.stats.get('pathlib_forms', 0) + 1
                        return ast.copy_location(ast.Call(func=ast.Name(id='open', ctx=ast.Load()), args=[n.func.value] + list(n.args),
                                                          keywords=list(n.keywords)), n)
                    if n.func.attr in me.PATH_CALLS and not n.keywords:
                        me.stats['pathlib_forms'] = me.stats.get('pathlib_forms', 0) + 1
                        fn = ast.parse(me.PATH_CALLS[n.func.attr], mode='eval').body
                        return ast.copy_location(ast.Call(func=fn, args=[n.func.value] + list(n.args), keywords=[]), n)
                return n
        T().visit(fnode)
        ast.fix_missing_locations(fnode)

    def _short_circuit_forms(self, fnode, cls, local):
        """* ``any(f() for f in (a, b, c))`` -> ``a() or b() or c()`` and ``all(..)`` -> ``and`` (the display may be a local bound once,
          right before, to a tuple / list of names and attribute chains): both stop at the first decisive call, in display order.  In a
          position that only asks for truth ``any`` is the ``or`` chain itself; elsewhere ``bool(..)`` is kept.
        * ``if (x := E) <op> ...:`` -> ``x = E`` before the ``if`` (the assignment expression is the first thing the test evaluates)."""
        me = self
        binds: Dict[str, List[ast.expr]] = {}
        for n in ast.walk(fnode):
            if isinstance(n, ast.Assign) and len(n.targets) == 1 and isinstance(n.targets[0], ast.Name):
                binds.setdefault(n.targets[0].id, []).append(n.value)

        def display_of(it):
            if isinstance(it, ast.Name) and len(binds.get(it.id, [])) == 1:
                it = binds[it.id][0]
            if isinstance(it, (ast.Tuple, ast.List)) and it.elts and all(_is_simple(e) for e in it.elts):
                return it.elts
            return None

        class T(ast.NodeTransformer):
            def visit_FunctionDef(self_, n):
                return n if n is not fnode else self_.generic_visit(n)
            visit_AsyncFunctionDef = visit_FunctionDef

            def visit_Call(self_, n):
                n = self_.generic_visit(n)
                if isinstance(n.func, ast.Name) and n.func.id in ('any', 'all') and n.func.id not in local and len(n.args) == 1 \
                        and not n.keywords and isinstance(n.args[0], (ast.GeneratorExp, ast.ListComp)) and len(n.args[0].generators) == 1:
                    g = n.args[0].generators[0]
                    elt = n.args[0].elt
                    if not g.ifs and isinstance(g.target, ast.Name) and isinstance(elt, ast.Call) and isinstance(elt.func, ast.Name) \
                            and elt.func.id == g.target.id and not elt.keywords \
                            and not any(isinstance(y, ast.Name) and y.id == g.target.id for a in elt.args for y in ast.walk(a)):
                        elts = display_of(g.iter)
                        if elts is not None and len(elts) <= 8:
                            calls = [ast.Call(func=copy.deepcopy(e), args=copy.deepcopy(elt.args), keywords=[]) for e in elts]
                            me.stats['short_circuit_forms'] = me.stats.get('short_circuit_forms', 0) + 1
                            chain = ast.BoolOp(op=ast.Or() if n.func.id == 'any' else ast.And(), values=calls) if len(calls) > 1 else calls[0]
                            return ast.copy_location(ast.Call(func=ast.Name(id='bool', ctx=ast.Load()), args=[chain], keywords=[]), n)
                return n
        T().visit(fnode)
        # a display local that only fed the comprehension is gone
        for blk in _blocks(fnode):
            for st in list(blk):
                if isinstance(st, ast.Assign) and len(st.targets) == 1 and isinstance(st.targets[0], ast.Name) \
                        and isinstance(st.value, (ast.Tuple, ast.List)) and st.value.elts and all(_is_simple(e) for e in st.value.elts) \
                        and not any(isinstance(y, ast.Name) and y.id == st.targets[0].id and isinstance(y.ctx, ast.Load) for y in ast.walk(fnode)):
                    blk.remove(st)
                    if not blk:
                        blk.append(ast.Pass())
        # ``if A and (x := E) <op> ..: B else: C`` -> ``if A: if (x := E) <op> ..: B else: C  else: C``: the assignment expression
        # becomes the first thing its own test evaluates (C is duplicated: only for short else branches)
        changed = True
        while changed:
            changed = False
            for blk in _blocks(fnode):
                for i, st in enumerate(blk):
                    if isinstance(st, ast.If) and isinstance(st.test, ast.BoolOp) and isinstance(st.test.op, ast.And) \
                            and any(isinstance(y, ast.NamedExpr) for v_ in st.test.values[1:] for y in ast.walk(v_)) \
                            and not any(isinstance(y, ast.NamedExpr) for y in ast.walk(st.test.values[0])) \
                            and sum(1 for b in st.orelse for _y in ast.walk(b)) <= 60:
                        rest = st.test.values[1:]
                        inner_test = rest[0] if len(rest) == 1 else ast.BoolOp(op=ast.And(), values=rest)
                        inner = ast.If(test=inner_test, body=st.body, orelse=copy.deepcopy(st.orelse))
                        ast.copy_location(inner, st)
                        st.test = st.test.values[0]
                        st.body = [inner]
                        changed = True
                        me.stats['short_circuit_forms'] = me.stats.get('short_circuit_forms', 0) + 1
        # walrus at the front of an if test
        for blk in _blocks(fnode):
            i = 0
            while i < len(blk):
                st = blk[i]
                if isinstance(st, ast.If):
                    t = st.test
                    first = t
                    while True:
                        if isinstance(first, ast.BoolOp):
                            first = first.values[0]
                        elif isinstance(first, ast.Compare):
                            first = first.left
                        elif isinstance(first, ast.UnaryOp) and isinstance(first.op, ast.Not):
                            first = first.operand
                        else:
                            break
                    if isinstance(first, ast.NamedExpr) and isinstance(first.target, ast.Name):
                        asg = ast.Assign(targets=[ast.Name(id=first.target.id, ctx=ast.Store())], value=first.value)
                        ast.copy_location(asg, st)

                        class R(ast.NodeTransformer):
                            def visit_NamedExpr(self_, n):
                                if n is first:
                                    return ast.copy_location(ast.Name(id=first.target.id, ctx=ast.Load()), n)
                                return self_.generic_visit(n)
                        st.test = R().visit(st.test)
                        blk.insert(i, asg)
                        me.stats['short_circuit_forms'] = me.stats.get('short_circuit_forms', 0) + 1
                        i += 1
                i += 1
        ast.fix_missing_locations(fnode)

    def _record_rows(self, fnode, cls, local):
        """``TABLE[k].field`` -- directly, or through a local bound once to ``TABLE[k]`` / ``TABLE.get(k)`` -- where TABLE is a module-level
        dict display whose values are all calls of one record type (namedtuple / NamedTuple class / value dataclass): the field by
        its position, ``TABLE[k][i]``, the form the pinned code (plain tuples, unpacked) reads as."""
        from . import sym as _sym
        tables: Dict[str, List[str]] = {}
        for name, vals in self.m.assigns.items():
            if len(vals) != 1 or not isinstance(vals[0], ast.Dict) or not vals[0].values or name in local:
                continue
            rts = set()
            for v in vals[0].values:
                if isinstance(v, ast.Call) and isinstance(v.func, (ast.Name, ast.Attribute)):
                    rts.add(v.func.id if isinstance(v.func, ast.Name) else v.func.attr)
                else:
                    rts.add(None)
            if len(rts) == 1 and None not in rts and next(iter(rts)) in _sym.NAMEDTUPLE_FIELDS:
                tables[name] = _sym.NAMEDTUPLE_FIELDS[next(iter(rts))]
        if not tables:
            return

        def row_of(e) -> Optional[List[str]]:
            if isinstance(e, ast.Subscript) and isinstance(e.value, ast.Name) and e.value.id in tables and not isinstance(e.slice, ast.Slice):
                return tables[e.value.id]
            return None
        binds: Dict[str, List[ast.expr]] = {}
        for n in ast.walk(fnode):
            if isinstance(n, ast.Assign) and len(n.targets) == 1 and isinstance(n.targets[0], ast.Name):
                binds.setdefault(n.targets[0].id, []).append(n.value)
            elif isinstance(n, (ast.For, ast.With, ast.AugAssign, ast.NamedExpr)):
                for y in ast.walk(n.target if hasattr(n, 'target') else n):
                    if isinstance(y, ast.Name) and isinstance(y.ctx, ast.Store):
                        binds.setdefault(y.id, []).append(None)
        rows = {nm: row_of(vs[0]) for nm, vs in binds.items() if len(vs) == 1 and vs[0] is not None and row_of(vs[0]) is not None
                and nm not in {a.arg for a in fnode.args.args}}
        me = self

        class T(ast.NodeTransformer):
            def visit_FunctionDef(self_, n):
                return n if n is not fnode else self_.generic_visit(n)
            visit_AsyncFunctionDef = visit_FunctionDef

            def visit_Attribute(self_, n):
                n = self_.generic_visit(n)
                if not isinstance(n.ctx, ast.Load):
                    return n
                fields = row_of(n.value) or (rows.get(n.value.id) if isinstance(n.value, ast.Name) else None)
                if fields and n.attr in fields:
                    me.stats['record_rows'] = me.stats.get('record_rows', 0) + 1
                    return ast.copy_location(ast.Subscript(value=n.value, slice=ast.Constant(value=fields.index(n.attr)), ctx=ast.Load()), n)
                return n
        T().visit(fnode)
        ast.fix_missing_locations(fnode)

    def _record_locals(self, fnode, cls, local):
        """``h = Record(a, b, *vals[:5], tail=vals[5:])`` with Record a record type of the package and ``h`` used only as ``h.field``:
        each ``h.field`` is the component it was built from (``vals[i]`` for a field filled from a constant slice of a name)."""
        from . import sym as _sym
        params = {a.arg for a in fnode.args.args + fnode.args.kwonlyargs}
        stores: Dict[str, List[ast.Assign]] = {}
        for n in ast.walk(fnode):
            if isinstance(n, ast.Assign) and len(n.targets) == 1 and isinstance(n.targets[0], ast.Name):
                stores.setdefault(n.targets[0].id, []).append(n)
            elif isinstance(n, (ast.For, ast.With, ast.AugAssign, ast.NamedExpr, ast.Assign)):
                for y in ast.walk(n):
                    if isinstance(y, ast.Name) and isinstance(y.ctx, ast.Store) and not (isinstance(n, ast.Assign) and len(n.targets) == 1 and n.targets[0] is y):
                        stores.setdefault(y.id, []).append(None)
        for nm, sts in stores.items():
            if nm in params or len(sts) != 1 or sts[0] is None:
                continue
            v = sts[0].value
            if not (isinstance(v, ast.Call) and isinstance(v.func, (ast.Name, ast.Attribute))):
                continue
            rname = v.func.id if isinstance(v.func, ast.Name) else v.func.attr
            make = False
            if rname == '_make' and isinstance(v.func, ast.Attribute) and isinstance(v.func.value, ast.Name):
                rname, make = v.func.value.id, True
            fields = _sym.NAMEDTUPLE_FIELDS.get(rname)
            if not fields:
                continue
            comp: Dict[str, ast.expr] = {}
            ok = True
            if make:
                if len(v.args) != 1 or v.keywords or not isinstance(v.args[0], ast.Name):
                    continue
                for i, f_ in enumerate(fields):
                    comp[f_] = ast.Subscript(value=ast.Name(id=v.args[0].id, ctx=ast.Load()), slice=ast.Constant(value=i), ctx=ast.Load())
            else:
                i = 0
                for a in v.args:
                    if isinstance(a, ast.Starred):
                        sl = a.value
                        if isinstance(sl, ast.Name):
                            lo, hi, base = 0, len(fields) - i - len(v.keywords), sl
                        elif isinstance(sl, ast.Subscript) and isinstance(sl.value, ast.Name) and isinstance(sl.slice, ast.Slice) and sl.slice.step is None \
                                and (sl.slice.lower is None or isinstance(sl.slice.lower, ast.Constant)) and isinstance(sl.slice.upper, ast.Constant):
                            lo = sl.slice.lower.value if sl.slice.lower is not None else 0
                            hi, base = sl.slice.upper.value, sl.value
                        else:
                            ok = False
                            break
                        if not (isinstance(lo, int) and isinstance(hi, int) and 0 <= lo <= hi):
                            ok = False
                            break
                        for k in range(lo, hi):
                            if i >= len(fields):
                                ok = False
                                break
                            comp[fields[i]] = ast.Subscript(value=ast.Name(id=base.id, ctx=ast.Load()), slice=ast.Constant(value=k), ctx=ast.Load())
                            i += 1
                    else:
                        if i >= len(fields) or not (_is_simple_or_const(a) or (isinstance(a, ast.Subscript) and _is_simple(a.value))):
                            ok = False
                            break
                        comp[fields[i]] = a
                        i += 1
                for k in v.keywords:
                    if k.arg is None or k.arg not in fields or k.arg in comp or not (_is_simple_or_const(k.value) or isinstance(k.value, ast.Subscript)):
                        ok = False
                        break
                    comp[k.arg] = k.value
                if not ok or set(comp) != set(fields):
                    continue
            # the names the components read must not be rebound after the record is built
            read = {y.id for e in comp.values() for y in ast.walk(e) if isinstance(y, ast.Name)}
            if any(len(stores.get(r, [])) > 1 for r in read):
                continue
            uses = [y for y in ast.walk(fnode) if isinstance(y, ast.Name) and y.id == nm and isinstance(y.ctx, ast.Load)]
            attr_uses = [y for y in ast.walk(fnode) if isinstance(y, ast.Attribute) and isinstance(y.value, ast.Name) and y.value.id == nm
                         and isinstance(y.ctx, ast.Load) and y.attr in comp]
            if not uses or len(uses) != len(attr_uses):
                continue

            class T(ast.NodeTransformer):
                def visit_Attribute(self_, n):
                    n = self_.generic_visit(n)
                    if isinstance(n.value, ast.Name) and n.value.id == nm and isinstance(n.ctx, ast.Load) and n.attr in comp:
                        return ast.copy_location(copy.deepcopy(comp[n.attr]), n)
                    return n
            T().visit(fnode)
            for blk in _blocks(fnode):
                if sts[0] in blk:
                    blk.remove(sts[0])
                    if not blk:
                        blk.append(ast.Pass())
            self.stats['record_locals'] = self.stats.get('record_locals', 0) + 1
        ast.fix_missing_locations(fnode)

    def _missing_tables(self) -> Dict[str, ast.expr]:
        """{module-level name: expression} for the names of this module bound once to ``K()`` with K a class of the module that
        derives from dict and defines ``__missing__(self, key): return E`` with E free of self and key (and no ``__getitem__`` /
        ``get`` of its own): ``NAME[k]`` is ``NAME.get(k, E)`` -- the hook runs for subscription only, never for get()."""
        cache = self.__dict__.setdefault('_missing_cache', {})
        if self.m.name in cache:
            return cache[self.m.name]
        out: Dict[str, ast.expr] = {}
        for name, vals in self.m.assigns.items():
            if len(vals) != 1 or not (isinstance(vals[0], ast.Call) and isinstance(vals[0].func, ast.Name) and not vals[0].args
                                      and not vals[0].keywords):
                continue
            k = self.m.classes.get(vals[0].func.id)
            if k is None or not any(b.split('.')[-1] in ('dict', 'OrderedDict') for b in k.all_ext_bases()):
                continue
            if any(nm in c_.methods for c_ in k.mro() for nm in ('__getitem__', 'get', '__contains__', '__init__')):
                continue
            ms = k.find_method('__missing__')
            if ms is None:
                continue
            body = _body(ms.node)
            if len(body) != 1 or not isinstance(body[0], ast.Return) or body[0].value is None:
                continue
            e = body[0].value
            if any(isinstance(n, ast.Name) and n.id in ms.params for n in ast.walk(e)) or any(isinstance(n, ast.Call) for n in ast.walk(e)):
                continue
            if name in self.globals_rebound:
                continue
            out[name] = e
        cache[self.m.name] = out
        return out

    def _missing_hooks(self, fnode, cls, local):
        tables = self._missing_tables()
        if not tables:
            return
        me = self

        class T(ast.NodeTransformer):
            def visit_FunctionDef(self_, n):
                return n if n is not fnode else self_.generic_visit(n)
            visit_AsyncFunctionDef = visit_FunctionDef

            def visit_Subscript(self_, n):
                n = self_.generic_visit(n)
                if isinstance(n.ctx, ast.Load) and isinstance(n.value, ast.Name) and n.value.id in tables and n.value.id not in local \
                        and not isinstance(n.slice, ast.Slice):
                    me.stats['missing_hooks'] = me.stats.get('missing_hooks', 0) + 1
                    return ast.copy_location(ast.Call(func=ast.Attribute(value=n.value, attr='get', ctx=ast.Load()),
                                                      args=[n.slice, copy.deepcopy(tables[n.value.id])], keywords=[]), n)
                return n
        T().visit(fnode)
        ast.fix_missing_locations(fnode)

    def _builtin_forms(self, fnode, cls, local):
        """* ``d.keys()`` where only the keys are iterated / counted (argument of max / min / sorted / list / len .., iterable of
          a loop or comprehension, right side of ``in``) -> ``d``: iterating a mapping iterates its keys;
        * ``dict.fromkeys(S, v)`` -> ``{k: v for k in S}`` (v a name, attribute or constant);
        * ``hasattr(o, 'a') and o.a`` and ``getattr(o, 'a', False)`` in a position that only asks for truth are the same test:
          both become ``getattr(o, 'a', False)``."""
        me = self
        shadow = lambda nm: nm in local or nm in me.m.assigns or nm in me.m.functions or nm in me.m.classes

        def keys_of(e):
            if isinstance(e, ast.Call) and isinstance(e.func, ast.Attribute) and e.func.attr in ('keys', 'iterkeys', 'viewkeys') \
                    and not e.args and not e.keywords:
                return e.func.value
            if isinstance(e, ast.Call) and ast.unparse(e.func) in ('six.iterkeys', 'six.viewkeys') and len(e.args) == 1 and not e.keywords:
                return e.args[0]
            return None

        STD_CONSTS = {'os.SEEK_SET': 0, 'os.SEEK_CUR': 1, 'os.SEEK_END': 2, 'io.SEEK_SET': 0, 'io.SEEK_CUR': 1, 'io.SEEK_END': 2}

        class T(ast.NodeTransformer):
            def visit_FunctionDef(self_, n):
                return n if n is not fnode else self_.generic_visit(n)
            visit_AsyncFunctionDef = visit_FunctionDef

            def visit_Expr(self_, n):
                n = self_.generic_visit(n)
                # six.raise_from(E, cause) / six.reraise(tp, value, tb): a raise statement (they never return)
                v = n.value
                if isinstance(v, ast.Call) and not v.keywords and 'six' in me.m.imports and not shadow('six'):
                    t = ast.unparse(v.func)
                    if t == 'six.raise_from' and len(v.args) == 2:
                        return ast.copy_location(ast.Raise(exc=v.args[0], cause=v.args[1]), n)
                    if t == 'six.reraise' and len(v.args) in (2, 3):
                        return ast.copy_location(ast.Raise(exc=v.args[1], cause=None), n)
                return n

            def visit_Attribute(self_, n):
                n = self_.generic_visit(n)
                # the whence constants of seek() are the integers the package writes (fixed by the io module's documentation)
                if isinstance(n.ctx, ast.Load) and isinstance(n.value, ast.Name) and not shadow(n.value.id):
                    t = '%s.%s' % (n.value.id, n.attr)
                    if t in STD_CONSTS and n.value.id in me.m.imports:
                        return ast.copy_location(ast.Constant(value=STD_CONSTS[t]), n)
                return n

            def visit_Call(self_, n):
                n = self_.generic_visit(n)
                # one byte from a small integer: bytes([x]) / bytes((x,)) / x.to_bytes(1, order) / six.int2byte(x) are
                # struct.pack('B', x) (they agree wherever both are defined: 0..255)
                one = None
                if isinstance(n.func, ast.Name) and n.func.id == 'bytes' and not shadow('bytes') and len(n.args) == 1 and not n.keywords \
                        and isinstance(n.args[0], (ast.List, ast.Tuple)) and len(n.args[0].elts) == 1 \
                        and not isinstance(n.args[0].elts[0], ast.Starred):
                    one = n.args[0].elts[0]
                elif isinstance(n.func, ast.Attribute) and n.func.attr == 'to_bytes' and n.args and isinstance(n.args[0], ast.Constant) \
                        and n.args[0].value == 1 and len(n.args) <= 2 and all(k_.arg in ('byteorder', 'signed') for k_ in n.keywords) \
                        and not any(k_.arg == 'signed' and not (isinstance(k_.value, ast.Constant) and k_.value.value is False) for k_ in n.keywords):
                    one = n.func.value
                elif ast.unparse(n.func) == 'six.int2byte' and len(n.args) == 1 and not n.keywords:
                    one = n.args[0]
                if one is not None:
                    me.stats['builtin_forms'] = me.stats.get('builtin_forms', 0) + 1
                    return ast.copy_location(ast.Call(func=ast.Attribute(value=ast.Name(id='struct', ctx=ast.Load()), attr='pack', ctx=ast.Load()),
                                                      args=[ast.Constant(value='B'), one], keywords=[]), n)
                if isinstance(n.func, ast.Name) and n.func.id in me.ITER_CONSUMERS and not shadow(n.func.id) and n.args:
                    k = keys_of(n.args[0])
                    if k is not None:
                        n.args[0] = k
                        me.stats['builtin_forms'] = me.stats.get('builtin_forms', 0) + 1
                if isinstance(n.func, ast.Call) and _is_partial(n.func) and not shadow('functools') and not shadow('partial') \
                        and not any(isinstance(a, ast.Starred) for a in n.args):
                    me.stats['builtin_forms'] = me.stats.get('builtin_forms', 0) + 1
                    return ast.copy_location(ast.Call(func=n.func.args[0], args=list(n.func.args[1:]) + list(n.args), keywords=n.keywords), n)
                if ast.unparse(n.func) == 'dict.fromkeys' and not shadow('dict') and len(n.args) == 2 and not n.keywords \
                        and _is_simple_or_const(n.args[1]):
                    me.counter += 1
                    v = '__k%d' % me.counter
                    me.stats['builtin_forms'] = me.stats.get('builtin_forms', 0) + 1
                    return ast.copy_location(ast.DictComp(
                        key=ast.Name(id=v, ctx=ast.Load()), value=n.args[1],
                        generators=[ast.comprehension(target=ast.Name(id=v, ctx=ast.Store()), iter=n.args[0], ifs=[], is_async=0)]), n)
                return n

            def visit_For(self_, n):
                n = self_.generic_visit(n)
                k = keys_of(n.iter)
                if k is not None:
                    n.iter = k
                return n

            def visit_comprehension(self_, n):
                n = self_.generic_visit(n)
                k = keys_of(n.iter)
                if k is not None:
                    n.iter = k
                return n

            def visit_Compare(self_, n):
                n = self_.generic_visit(n)
                if len(n.ops) == 1 and isinstance(n.ops[0], (ast.In, ast.NotIn)):
                    k = keys_of(n.comparators[0])
                    if k is not None:
                        n.comparators[0] = k
                return n

            def visit_BoolOp(self_, n):
                n = self_.generic_visit(n)
                # hasattr(o, 'a') and o.a  ->  getattr(o, 'a', False)   (same truth value; the value itself when it is truthy)
                if isinstance(n.op, ast.And) and len(n.values) == 2 and not shadow('hasattr') and not shadow('getattr'):
                    a, b = n.values
                    if isinstance(a, ast.Call) and isinstance(a.func, ast.Name) and a.func.id == 'hasattr' and len(a.args) == 2 \
                            and not a.keywords and isinstance(a.args[1], ast.Constant) and isinstance(a.args[1].value, str) \
                            and isinstance(b, ast.Attribute) and b.attr == a.args[1].value and _is_simple(a.args[0]) \
                            and ast.unparse(b.value) == ast.unparse(a.args[0]):
                        me.stats['builtin_forms'] = me.stats.get('builtin_forms', 0) + 1
                        return ast.copy_location(ast.Call(func=ast.Name(id='getattr', ctx=ast.Load()),
                                                          args=[a.args[0], a.args[1], ast.Constant(value=False)], keywords=[]), n)
                return n
        T().visit(fnode)
        ast.fix_missing_locations(fnode)

    # ------------------------------------------------------------------ 5. keyword calls of package functions
    def _positional_calls(self, fnode, cls, local):
        """``f(x, b=2, a=1)`` on a package function / class that resolves statically becomes ``f(x, 1, 2)`` (constant
        defaults fill the gaps up to the last parameter given).  Keywords whose values contain calls keep their place unless
        they already are in parameter order: evaluation order matters to the event trails."""
        from .srcmodel import ClassRef, FuncRef, NotConst
        for call in ast.walk(fnode):
            if not isinstance(call, ast.Call) or not call.keywords:
                continue
            if any(isinstance(a, ast.Starred) for a in call.args) or any(k.arg is None for k in call.keywords):
                continue
            root = call.func
            while isinstance(root, ast.Attribute):
                root = root.value
            if not isinstance(root, ast.Name) or root.id in local or root.id in ('self', 'cls'):
                continue
            try:
                r = self.repo.resolve_expr(call.func, self.m)
            except (NotConst, Exception):
                continue
            fi = None
            drop = 0
            try:
                if isinstance(r, FuncRef):
                    fi = self.repo.func(r.module, r.qualname)
                    if fi.kind in ('method', 'classmethod'):
                        continue
                elif isinstance(r, ClassRef):
                    c = self.repo.cls(r.module, r.name)
                    if self.repo.is_value_class(c):
                        continue
                    fi = c.find_method('__init__')
                    drop = 1
            except Exception:
                fi = None
            if fi is None:
                continue
            a = fi.node.args
            if a.vararg or a.kwarg or a.kwonlyargs or a.posonlyargs:
                continue
            ps = [x.arg for x in a.args][drop:]
            dmap = dict(zip(ps[len(ps) - len(a.defaults):], a.defaults)) if a.defaults else {}
            kd = {k.arg: k.value for k in call.keywords}
            rest = ps[len(call.args):]
            if len(kd) != len(call.keywords) or not all(k in rest for k in kd):
                continue
            order = [k.arg for k in call.keywords]
            in_order = order == [p_ for p_ in rest if p_ in kd]
            effects = sum(1 for v in kd.values() if any(isinstance(x, (ast.Call, ast.Yield, ast.Await, ast.NamedExpr))
                                                        for x in ast.walk(v)))
            if not in_order and effects > 1:
                continue
            last = max(ps.index(k) for k in kd)
            canon = list(call.args)
            ok = True
            for p_ in ps[len(call.args):last + 1]:
                if p_ in kd:
                    canon.append(kd[p_])
                elif p_ in dmap and isinstance(dmap[p_], ast.Constant):
                    canon.append(ast.copy_location(copy.deepcopy(dmap[p_]), call))
                else:
                    ok = False
                    break
            if ok:
                call.args, call.keywords = canon, []
                self.stats['positional_calls'] = self.stats.get('positional_calls', 0) + 1

    # ------------------------------------------------------------------ 0a. try statements that only report
    def _strip_reporting_try(self, fnode, cls, local):
        """``try: B finally: <logging calls only>`` reads as ``B``; a handler ``except X: <logging calls only>; raise`` is no
        handler at all (it re-raises what it caught, unchanged).  Tracing added around a body must not hide the body."""
        me = self
        m = self.m

        def reporting(stmts) -> bool:
            return bool(stmts) and all(isinstance(st, ast.Expr) and me.repo.is_logging_call(st.value, m) or isinstance(st, ast.Pass)
                                       for st in stmts)

        def walk_body(body):
            out = []
            for st in body:
                if isinstance(st, (ast.FunctionDef, ast.AsyncFunctionDef, ast.ClassDef)):
                    out.append(st)
                    continue
                for fld in ('body', 'orelse', 'finalbody'):
                    v = getattr(st, fld, None)
                    if isinstance(v, list) and v and isinstance(v[0], ast.stmt):
                        setattr(st, fld, walk_body(v))
                if isinstance(st, ast.Try):
                    for h in st.handlers:
                        h.body = walk_body(h.body)
                    if st.finalbody and reporting(st.finalbody):
                        st.finalbody = []
                        me.stats['reporting_try'] = me.stats.get('reporting_try', 0) + 1
                    keep = []
                    for h in st.handlers:
                        b = h.body
                        if len(b) >= 2 and isinstance(b[-1], ast.Raise) and b[-1].exc is None and reporting(b[:-1]):
                            me.stats['reporting_try'] = me.stats.get('reporting_try', 0) + 1
                            continue
                        keep.append(h)
                    # a handler that re-raises unchanged may only be dropped when no later handler could have caught the
                    # same exception instead (it is the last one, or everything after it was dropped as well)
                    if len(keep) != len(st.handlers) and (not keep or st.handlers.index(keep[-1]) < min(
                            i for i, h in enumerate(st.handlers) if h not in keep)):
                        st.handlers = keep
                    if not st.handlers and not st.finalbody:
                        out.extend(st.body + st.orelse)
                        continue
                out.append(st)
            return out
        fnode.body = walk_body(fnode.body)

    # ------------------------------------------------------------------ 0b. with-statements over the package's own little managers
    def _cm_class(self, call):
        """(class info, {field: ctor argument}, enter value expr or 'self' / None, exit plan) for ``K(args)`` where K is a class
        introduced after the pinned tree whose __init__ only stores its parameters, whose __enter__ returns self / None / one
        of those fields and whose __exit__ never suppresses; else None.  exit plan = (unconditional statements, [(exception
        class expr or None for "any", statements)]) with fields still written ``self._x``."""
        from .srcmodel import ClassRef
        try:
            r = self.repo.resolve_expr(call.func, self.m)
        except Exception:
            return None
        if not isinstance(r, ClassRef):
            return None
        try:
            k = self.repo.cls(r.module, r.name)
        except Exception:
            return None
        if not self.repo.is_helper_class(k) or k.bases or any(b not in ('object',) for b in [ast.unparse(x) for x in k.node.bases]):
            return None
        init, enter, exit_ = k.methods.get('__init__'), k.methods.get('__enter__'), k.methods.get('__exit__')
        if enter is None or exit_ is None or set(k.methods) - {'__init__', '__enter__', '__exit__', '__repr__'}:
            return None
        fields: Dict[str, ast.expr] = {}
        if init is not None:
            ps = [a.arg for a in init.node.args.args][1:]
            if init.node.args.vararg or init.node.args.kwarg or init.node.args.kwonlyargs:
                return None
            if any(isinstance(a, ast.Starred) for a in call.args) or any(kw.arg is None for kw in call.keywords) or len(call.args) > len(ps):
                return None
            bind = dict(zip(ps, call.args))
            for kw in call.keywords:
                if kw.arg not in ps or kw.arg in bind:
                    return None
                bind[kw.arg] = kw.value
            dfl = init.node.args.defaults
            for p_, d_ in zip(ps[len(ps) - len(dfl):], dfl):
                bind.setdefault(p_, d_)
            if set(bind) != set(ps):
                return None
            for st in _body(init.node):
                if isinstance(st, ast.Assign) and len(st.targets) == 1 and isinstance(st.targets[0], ast.Attribute) \
                        and isinstance(st.targets[0].value, ast.Name) and st.targets[0].value.id == init.node.args.args[0].arg \
                        and isinstance(st.value, ast.Name) and st.value.id in bind:
                    fields[st.targets[0].attr] = bind[st.value.id]
                else:
                    return None
        elif call.args or call.keywords:
            return None
        # __enter__
        eb = _body(enter.node)
        eslf = enter.node.args.args[0].arg
        if len(eb) != 1 or not isinstance(eb[0], ast.Return):
            return None
        ev = eb[0].value
        if ev is None or (isinstance(ev, ast.Constant) and ev.value is None):
            enter_val = None
        elif isinstance(ev, ast.Name) and ev.id == eslf:
            enter_val = 'self'
        elif isinstance(ev, ast.Attribute) and isinstance(ev.value, ast.Name) and ev.value.id == eslf and ev.attr in fields:
            enter_val = fields[ev.attr]
        else:
            return None
        # __exit__
        xa = [a.arg for a in exit_.node.args.args]
        if len(xa) != 4:
            return None
        xslf, et = xa[0], xa[1]
        xb = list(_body(exit_.node))
        suppress = None          # None: never; 'all': every exception; an expression: that exception class
        if xb and isinstance(xb[-1], ast.Return):
            rv = xb[-1].value
            if rv is None or (isinstance(rv, ast.Constant) and rv.value in (False, None)):
                pass
            elif isinstance(rv, ast.Constant) and rv.value is True:
                suppress = 'all'
            else:
                # return exc_type is not None and issubclass(exc_type, X) / return isinstance(exc_value, X)
                parts_ = rv.values if isinstance(rv, ast.BoolOp) and isinstance(rv.op, ast.And) else [rv]
                last_ = parts_[-1]
                ok_ = isinstance(last_, ast.Call) and isinstance(last_.func, ast.Name) and len(last_.args) == 2 and (
                    (last_.func.id == 'issubclass' and isinstance(last_.args[0], ast.Name) and last_.args[0].id == xa[1]) or
                    (last_.func.id == 'isinstance' and isinstance(last_.args[0], ast.Name) and last_.args[0].id == xa[2]))
                guard_ok = len(parts_) == 1 or (len(parts_) == 2 and isinstance(parts_[0], ast.Compare) and len(parts_[0].ops) == 1
                                                 and isinstance(parts_[0].ops[0], ast.IsNot) and isinstance(parts_[0].left, ast.Name)
                                                 and parts_[0].left.id in (xa[1], xa[2]))
                if not (ok_ and guard_ok):
                    return None
                suppress = last_.args[1]
            xb = xb[:-1]
        if any(isinstance(n, ast.Return) for st in xb for n in ast.walk(st)):
            return None
        uncond: List[ast.stmt] = []
        conds: List[Tuple[Optional[ast.expr], List[ast.stmt]]] = []

        def mentions_exc(node) -> bool:
            return any(isinstance(n, ast.Name) and n.id in xa[1:] for n in ast.walk(node))
        for st in xb:
            if not mentions_exc(st):
                if conds:
                    return None        # unconditional work after conditional work: order not expressible as try/except/finally
                uncond.append(st)
                continue
            if uncond or not isinstance(st, ast.If) or st.orelse or mentions_exc(ast.Module(body=st.body, type_ignores=[])):
                return None
            t = st.test
            exc_cls = None
            ok = False
            # exc_type is not None [and issubclass(exc_type, X)]
            parts = t.values if isinstance(t, ast.BoolOp) and isinstance(t.op, ast.And) else [t]
            if parts and isinstance(parts[0], ast.Compare) and len(parts[0].ops) == 1 and isinstance(parts[0].ops[0], ast.IsNot) \
                    and isinstance(parts[0].left, ast.Name) and parts[0].left.id == et \
                    and isinstance(parts[0].comparators[0], ast.Constant) and parts[0].comparators[0].value is None:
                if len(parts) == 1:
                    ok, exc_cls = True, None
                elif len(parts) == 2 and isinstance(parts[1], ast.Call) and isinstance(parts[1].func, ast.Name) \
                        and parts[1].func.id == 'issubclass' and len(parts[1].args) == 2 \
                        and isinstance(parts[1].args[0], ast.Name) and parts[1].args[0].id == et:
                    ok, exc_cls = True, parts[1].args[1]
            if not ok:
                return None
            conds.append((exc_cls, st.body))
        if suppress is not None and conds:
            return None
        return k, fields, enter_val, (xslf, uncond, conds, suppress)

    def _inline_context_managers(self, fnode, cls, local):
        """``with K(a) as v: BODY`` over such a manager reads as the try statement its __exit__ stands for:
        ``try: BODY  except X: <conditional part>; raise  finally: <unconditional part>`` with the fields replaced by the
        constructor arguments (bound to temporaries first unless they are plain names / attribute chains).  A
        ``@contextlib.contextmanager`` generator helper with a single ``yield`` is spliced around BODY the same way."""
        me = self

        def fields_subst(stmts, xslf, fields):
            class S(ast.NodeTransformer):
                def visit_Attribute(self_, n):
                    n = self_.generic_visit(n)
                    if isinstance(n.value, ast.Name) and n.value.id == xslf and n.attr in fields and isinstance(n.ctx, ast.Load):
                        return copy.deepcopy(fields[n.attr])
                    return n
            return [S().visit(copy.deepcopy(x)) for x in stmts]

        def rewrite(st: ast.With):
            if len(st.items) > 1:
                # ``with A, B: BODY`` is ``with A: with B: BODY``
                inner = ast.With(items=st.items[1:], body=st.body)
                outer = ast.With(items=st.items[:1], body=[inner])
                for x in (inner, outer):
                    ast.copy_location(x, st)
                r_in = rewrite(inner)
                if r_in is not None:
                    outer.body = r_in
                r_out = rewrite(outer)
                if r_out is None and r_in is None:
                    return None
                return r_out if r_out is not None else [outer]
            it = st.items[0]
            if not isinstance(it.context_expr, ast.Call):
                return None
            # contextlib.suppress(E1, E2): exactly ``try: BODY except (E1, E2): pass``
            fn_txt = ast.unparse(it.context_expr.func)
            if fn_txt in ('contextlib.suppress', 'suppress') and it.optional_vars is None and it.context_expr.args \
                    and not it.context_expr.keywords and 'suppress' not in local \
                    and not any(isinstance(a, ast.Starred) for a in it.context_expr.args):
                typ = it.context_expr.args[0] if len(it.context_expr.args) == 1 else \
                    ast.Tuple(elts=list(it.context_expr.args), ctx=ast.Load())
                node = ast.Try(body=st.body, handlers=[ast.ExceptHandler(type=typ, name=None, body=[ast.Pass()])], orelse=[], finalbody=[])
                ast.copy_location(node, st)
                ast.fix_missing_locations(node)
                me.stats['context_managers'] = me.stats.get('context_managers', 0) + 1
                return [node]
            info = me._cm_class(it.context_expr)
            if info is None:
                return me._splice_generator_cm(st, cls, local)
            k, fields, enter_val, (xslf, uncond, conds, suppress) = info
            pre: List[ast.stmt] = []
            fields = dict(fields)
            for f_, a_ in list(fields.items()):
                if not (_is_simple(a_) or isinstance(a_, ast.Constant)):
                    me.counter += 1
                    tmp = '__cm%d_%s' % (me.counter, f_.lstrip('_'))
                    pre.append(ast.Assign(targets=[ast.Name(id=tmp, ctx=ast.Store())], value=a_))
                    fields[f_] = ast.Name(id=tmp, ctx=ast.Load())
            if it.optional_vars is not None:
                if enter_val is None or enter_val == 'self':
                    return None      # the manager object itself is used by the body
                if not isinstance(it.optional_vars, ast.Name):
                    return None
                val = enter_val
                for f_, a_ in fields.items():
                    if val is a_:
                        val = a_
                pre.append(ast.Assign(targets=[ast.Name(id=it.optional_vars.id, ctx=ast.Store())], value=copy.deepcopy(
                    next((fields[f_] for f_, a_ in info[1].items() if a_ is enter_val), enter_val))))
            handlers = []
            for exc_cls, body in conds:
                hb = fields_subst(body, xslf, fields) + [ast.Raise(exc=None, cause=None)]
                handlers.append(ast.ExceptHandler(type=copy.deepcopy(exc_cls) if exc_cls is not None else ast.Name(id='BaseException', ctx=ast.Load()),
                                                  name=None, body=hb))
            fin = fields_subst(uncond, xslf, fields)
            if suppress is not None:
                # the manager swallows: ``try: try: BODY except X: pass finally: <exit body>``
                typ = ast.Name(id='BaseException', ctx=ast.Load()) if suppress == 'all' else copy.deepcopy(suppress)
                inner = ast.Try(body=st.body, handlers=[ast.ExceptHandler(type=typ, name=None, body=[ast.Pass()])], orelse=[], finalbody=[])
                new = pre + ([ast.Try(body=[inner], handlers=[], orelse=[], finalbody=fin)] if fin else [inner])
            elif not handlers and not fin:
                new = pre + st.body
            else:
                new = pre + [ast.Try(body=st.body, handlers=handlers, orelse=[], finalbody=fin)]
            for x in new:
                ast.copy_location(x, st)
                ast.fix_missing_locations(x)
            me.stats['context_managers'] = me.stats.get('context_managers', 0) + 1
            return new

        def walk_body(body):
            out = []
            for st in body:
                if isinstance(st, (ast.FunctionDef, ast.AsyncFunctionDef, ast.ClassDef)):
                    out.append(st)
                    continue
                for fld in ('body', 'orelse', 'finalbody'):
                    v = getattr(st, fld, None)
                    if isinstance(v, list) and v and isinstance(v[0], ast.stmt):
                        setattr(st, fld, walk_body(v))
                if isinstance(st, ast.Try):
                    for h in st.handlers:
                        h.body = walk_body(h.body)
                if isinstance(st, ast.With):
                    new = rewrite(st)
                    if new is not None:
                        # what was spliced in may itself use managers (a generator manager built from others)
                        if depth[0] < 6:
                            depth[0] += 1
                            try:
                                new = walk_body(new)
                            finally:
                                depth[0] -= 1
                        out.extend(new)
                        continue
                out.append(st)
            return out
        depth = [0]
        fnode.body = walk_body(fnode.body)

    def _splice_generator_cm(self, st: ast.With, cls, local):
        """``with helper(args) as v: BODY`` where helper is a ``@contextmanager`` generator introduced after the pinned tree,
        with exactly one statement-level ``yield``: the generator's body with BODY in place of the yield"""
        it = st.items[0]
        call = it.context_expr
        h = self._helper_of(call, cls)
        fi = None
        if h is not None:
            fi = h[0]
        else:
            try:
                from .srcmodel import FuncRef
                r = self.repo.resolve_expr(call.func, self.m)
                if isinstance(r, FuncRef) and r.module == self.m.name:
                    f0 = self.repo.func(r.module, r.qualname)
                    if self.repo.is_helper(f0) or f0.key not in __import__('pnd_static.oracles.inventory', fromlist=['FUNCTIONS']).FUNCTIONS:
                        fi = f0
            except Exception:
                fi = None
        if fi is None:
            # a manager of another module of the package, named through the module: when every free name of its body means
            # the same here (or it has none)
            try:
                from .srcmodel import FuncRef
                r = self.repo.resolve_expr(call.func, self.m)
                if isinstance(r, FuncRef) and r.module in self.repo.modules and r.module != self.m.name:
                    f0 = self.repo.func(r.module, r.qualname)
                    if f0.parent is None and self.repo.is_helper(f0) and self._portable_body(f0):
                        fi = f0
            except Exception:
                fi = None
        if fi is None or (fi.module is not self.m and not self._portable_body(fi)):
            return None
        decos = [ast.unparse(d) for d in fi.node.decorator_list]
        if not any(d.split('.')[-1] == 'contextmanager' for d in decos) or len(decos) != 1:
            return None
        yields = [n for n in ast.walk(fi.node) if isinstance(n, (ast.Yield, ast.YieldFrom))]
        if len(yields) != 1 or isinstance(yields[0], ast.YieldFrom):
            return None
        # bind parameters like any helper: reuse _expand on a copy whose decorator is gone
        saved = fi.node.decorator_list
        fi.node.decorator_list = []
        try:
            exp = self._expand(fi, h[1] if h is not None else None, call, allow_yield=True)
        finally:
            fi.node.decorator_list = saved
        if exp is None:
            return None
        gbody, _ret = exp
        # a ``return`` in the generator ends the manager (after an exception was thrown in: it is swallowed) and execution
        # goes on after the ``with``: in the spliced form that is falling out of the generator's statements
        gbody = _eliminate_returns(gbody)
        if gbody is None:
            return None
        found = [0]
        body = st.body
        target = it.optional_vars

        class Y(ast.NodeTransformer):
            def visit_FunctionDef(self_, n):
                return n

            def visit_Expr(self_, n):
                if isinstance(n.value, ast.Yield):
                    found[0] += 1
                    out = []
                    if target is not None:
                        val = n.value.value if n.value.value is not None else ast.Constant(value=None)
                        out.append(ast.Assign(targets=[copy.deepcopy(target)], value=val))
                    out.extend(body)
                    return out
                return n
        new = []
        for x in gbody:
            r = Y().visit(x)
            new.extend(r if isinstance(r, list) else [r])
        if found[0] != 1:
            return None
        for x in new:
            ast.copy_location(x, st)
            ast.fix_missing_locations(x)
        self.stats['context_managers'] = self.stats.get('context_managers', 0) + 1
        return new

    # ------------------------------------------------------------------ 0. read-only properties introduced as names
    def _collect_properties(self):
        """``@property def is_idle(self): return <expr>`` that did not exist when the rule instances were confirmed, has no
        setter, and whose name means nothing else anywhere in the package (no other class defines it, nothing stores to it):
        ``x.is_idle`` can only be this property, and reads as ``<expr>`` with ``self`` := ``x``."""
        from .oracles.inventory import FUNCTIONS, INSTANCE_ATTRS
        self.props: Dict[str, Tuple[object, ast.expr]] = {}
        self.class_props: Dict[str, Dict[str, Tuple[object, ast.expr]]] = {}
        defs: Dict[str, List[object]] = {}
        stored: Set[str] = set()
        for m in self.repo.modules.values():
            for c in m.classes.values():
                for name in list(c.methods) + list(c.attrs) + list(c.setters):
                    defs.setdefault(name, []).append(c)
            for n in ast.walk(m.tree):
                if isinstance(n, ast.Attribute) and isinstance(n.ctx, (ast.Store, ast.Del)):
                    stored.add(n.attr)
                elif isinstance(n, ast.Call) and isinstance(n.func, ast.Name) and n.func.id in ('setattr', 'delattr') \
                        and len(n.args) >= 2:
                    # (a computed name cannot legitimately hit the property's own class -- a property without setter rejects
                    # the store -- and other classes' attributes are the named ones collected here)
                    if isinstance(n.args[1], ast.Constant):
                        stored.add(n.args[1].value)
        from . import sym as _sym
        nt_fields = {f for fs in _sym.NAMEDTUPLE_FIELDS.values() for f in fs}
        for m in self.repo.modules.values():
            for c in m.classes.values():
                for name, fi in c.methods.items():
                    if fi.kind != 'property' or fi.key in FUNCTIONS or name in c.setters:
                        continue
                    if '%s.%s' % (c.key, name) in INSTANCE_ATTRS:
                        continue      # an attribute of the pinned tree that became computed: the rules read it by its name
                    unique = name not in stored and len(defs.get(name, [])) == 1 and name not in nt_fields
                    if len(fi.node.decorator_list) != 1 or len(fi.node.args.args) != 1:
                        continue
                    body = _body(fi.node)

                    def as_expr(stmts):
                        """``if c: return a`` + ``return b`` (any depth) is ``a if c else b``"""
                        if len(stmts) == 1 and isinstance(stmts[0], ast.Return) and stmts[0].value is not None:
                            return stmts[0].value
                        if stmts and isinstance(stmts[0], ast.If):
                            a_ = as_expr(stmts[0].body)
                            b_ = as_expr(stmts[0].orelse or stmts[1:])
                            if a_ is not None and b_ is not None and (stmts[0].orelse == [] or len(stmts) == 1):
                                return ast.IfExp(test=stmts[0].test, body=a_, orelse=b_)
                        return None
                    e = as_expr(body)
                    if e is None:
                        continue
                    if any(isinstance(x, (ast.Yield, ast.YieldFrom, ast.Await, ast.Lambda, ast.NamedExpr, ast.ListComp,
                                          ast.SetComp, ast.DictComp, ast.GeneratorExp)) for x in ast.walk(e)):
                        continue
                    # constants the expression names (``self.ACCEPTANCE``, a module-level name) are folded first: once the
                    # expression sits in another function, ``self`` is an arbitrary receiver
                    slf = fi.node.args.args[0].arg
                    me = self
                    saved_m = getattr(self, 'm', None)
                    self.m = m
                    self.globals_rebound = _global_decls(m.tree)

                    class F(ast.NodeTransformer):
                        def visit_Attribute(self_, n):
                            if isinstance(n.ctx, ast.Load) and isinstance(n.value, ast.Name) and n.value.id == slf:
                                k = me._new_class_const(c, n.attr)
                                if k is not None:
                                    return ast.copy_location(k, n)
                                return n
                            if isinstance(n.ctx, ast.Load):
                                k = me._const_of(n, {slf})
                                if k is not None:
                                    return ast.copy_location(k, n)
                            return self_.generic_visit(n)

                        def visit_Name(self_, n):
                            if isinstance(n.ctx, ast.Load) and n.id != slf:
                                k = me._const_of(n, {slf})
                                if k is not None:
                                    return ast.copy_location(k, n)
                            return n
                    e = F().visit(copy.deepcopy(e))
                    self.m = saved_m
                    if unique:
                        self.props[name] = (fi, e)
                    self.class_props.setdefault(c.key, {})[name] = (fi, e)

    def _field_classes(self, c) -> Dict[str, object]:
        """{attribute: class} for the attributes of ``c``'s instances that only ever hold ``None`` or an instance of one
        package class: every store to an attribute of that name anywhere in the package is ``None`` or a constructor call of
        that class"""
        cache = getattr(self, '_field_class_cache', None)
        if cache is None:
            from .srcmodel import ClassRef
            by_attr: Dict[str, List[object]] = {}
            for m in self.repo.modules.values():
                for n in ast.walk(m.tree):
                    tgts = []
                    if isinstance(n, ast.Assign):
                        tgts, val = n.targets, n.value
                    elif isinstance(n, ast.AnnAssign) and n.value is not None:
                        tgts, val = [n.target], n.value
                    elif isinstance(n, ast.AugAssign):
                        tgts, val = [n.target], None
                    for t in tgts:
                        if isinstance(t, ast.Attribute):
                            k = 'other'
                            if isinstance(val, ast.Constant) and val.value is None:
                                k = None
                            elif isinstance(val, ast.Call):
                                try:
                                    r = self.repo.resolve_expr(val.func, m)
                                except Exception:
                                    r = None
                                if isinstance(r, ClassRef):
                                    k = r
                            by_attr.setdefault(t.attr, []).append(k)
                        elif isinstance(t, (ast.Tuple, ast.List)):
                            for x in ast.walk(t):
                                if isinstance(x, ast.Attribute) and isinstance(x.ctx, ast.Store):
                                    by_attr.setdefault(x.attr, []).append('other')
            cache = {}
            for a, ks in by_attr.items():
                refs = {(k.module, k.name) for k in ks if k is not None and k != 'other'}
                if 'other' not in ks and len(refs) == 1:
                    mod_, name_ = next(iter(refs))
                    try:
                        cache[a] = self.repo.cls(mod_, name_)
                    except Exception:
                        pass
            self._field_class_cache = cache
        return cache

    def _receiver_class(self, e, cls, local):
        """the package class of the object an expression denotes, when the source says so: ``self`` inside a class, or an
        attribute that only ever holds instances of one class"""
        if isinstance(e, ast.Name) and e.id == 'self' and cls is not None:
            return cls
        if isinstance(e, ast.Attribute):
            return self._field_classes(cls).get(e.attr)
        return None

    def _inline_properties(self, fnode, cls, local):
        import builtins
        me = self

        def portable(fi, e) -> bool:
            """every free name of the expression means the same thing in this module"""
            slf = fi.node.args.args[0].arg
            for x in ast.walk(e):
                if isinstance(x, ast.Name) and x.id != slf:
                    if x.id in local:
                        return False
                    if fi.module is me.m:
                        continue
                    if hasattr(builtins, x.id) and x.id not in me.m.assigns and x.id not in me.m.imports \
                            and x.id not in me.m.functions and x.id not in me.m.classes \
                            and x.id not in fi.module.assigns and x.id not in fi.module.imports:
                        continue
                    try:
                        if me.repo.resolve_name(x.id, me.m) != me.repo.resolve_name(x.id, fi.module):
                            return False
                    except Exception:
                        return False
            return True

        class T(ast.NodeTransformer):
            def visit_FunctionDef(self, node):
                return node if node is not fnode else self.generic_visit(node)
            visit_AsyncFunctionDef = visit_FunctionDef

            def visit_Attribute(self, node):
                node = self.generic_visit(node)
                hit = me.props.get(node.attr) if isinstance(node.ctx, ast.Load) else None
                if hit is None and isinstance(node.ctx, ast.Load) and me.class_props:
                    k = me._receiver_class(node.value, cls, local)
                    if k is not None:
                        for b in k.mro():
                            hit = me.class_props.get(b.key, {}).get(node.attr)
                            if hit is not None:
                                break
                            if node.attr in b.methods or node.attr in b.attrs:
                                break
                        if hit is not None and any(node.attr in s_.methods or node.attr in s_.attrs
                                                   for s_ in me.repo.subclasses(k) if s_ is not k):
                            hit = None
                if hit is None or hit[0].node is fnode:
                    return node
                fi, e = hit
                if fi.key in active:
                    return node      # the property's own expansion (``self._info.code`` inside ``code``): a field of that name
                slf = fi.node.args.args[0].arg
                uses = sum(1 for x in ast.walk(e) if isinstance(x, ast.Name) and x.id == slf)
                if (uses > 1 and not _is_simple(node.value)) or not portable(fi, e):
                    return node
                recv = node.value

                class R(ast.NodeTransformer):
                    def visit_Name(self, n):
                        if n.id == slf:
                            return copy.deepcopy(recv)
                        return n
                new = R().visit(copy.deepcopy(e))
                for x in ast.walk(new):
                    if hasattr(x, 'lineno'):
                        x.lineno, x.end_lineno = node.lineno, getattr(node, 'end_lineno', node.lineno)
                        x.col_offset, x.end_col_offset = node.col_offset, getattr(node, 'end_col_offset', node.col_offset)
                ast.copy_location(new, node)
                me.stats['inlined_properties'] = me.stats.get('inlined_properties', 0) + 1
                me.inlined.append(('%s:%s' % (me.m.name, fnode.name), fi.key, id(fnode)))
                # a property written in terms of other new properties: those read as their expressions too
                if depth[0] < 6 and fi.key not in active:
                    depth[0] += 1
                    active.add(fi.key)
                    try:
                        new = self.visit(new)
                    finally:
                        depth[0] -= 1
                        active.discard(fi.key)
                return new
        depth = [0]
        active = set()
        T().visit(fnode)
        ast.fix_missing_locations(fnode)

    def _each_function(self, m, fn):
        def visit(node, cls, outer: Set[str]):
            for ch in ast.iter_child_nodes(node):
                if isinstance(ch, (ast.FunctionDef, ast.AsyncFunctionDef)):
                    bound = _bound_names(ch)
                    self._cur_fnode = ch
                    fn(ch, cls, outer | bound)
                    visit(ch, cls, outer | bound)
                elif isinstance(ch, ast.ClassDef):
                    visit(ch, m.classes.get(ch.name) if node is m.tree else cls, outer)
                else:
                    visit(ch, cls, outer)
        visit(m.tree, None, set())

    # ------------------------------------------------------------------ 3. constants
    def _new_class_const(self, kls, name) -> Optional[ast.expr]:
        """the literal a class-level constant introduced after the pinned tree is bound to, if nothing stores to that attribute
        name anywhere and no class of the same family binds it again"""
        from .oracles.inventory import NAMES
        hit = kls.find_attr(name)
        if hit is None or name.startswith('__') or name in self._stored_attrs():
            return None
        owner, val = hit
        if '%s.%s' % (owner.key, name) in NAMES or _known_class_attr(owner.name, name) or not _literal_only(val):
            return None
        # (what the ancestors of the owner bind under that name is shadowed by the owner's binding)
        fam = list(self.repo.subclasses(owner)) + list(self.repo.subclasses(kls))
        if any(k is not owner and (name in k.attrs or name in k.methods) for k in fam):
            return None
        try:
            v = self.repo.fold(val, owner.module, owner)
        except Exception:
            return None
        if type(v) is tuple and v and all(type(x) in (int, str, bytes, float) for x in v):
            return ast.Tuple(elts=[ast.Constant(value=x) for x in v], ctx=ast.Load())
        if type(v) in (int, str, bytes, float):
            return ast.Constant(value=v)
        if type(v) is tuple and v:
            return _scalar_literal(v)      # rows of scalars
        return None

    def _const_of(self, e: ast.expr, local: Set[str], cls=None) -> Optional[ast.expr]:
        from .srcmodel import NotConst
        root = e
        while isinstance(root, ast.Attribute):
            root = root.value
        if isinstance(e, ast.Attribute) and isinstance(e.value, ast.Name) and e.value.id in ('self', 'cls') and cls is not None \
                and e.value.id not in (local - {'self', 'cls'}):
            # ``self.NAME`` / ``cls.NAME`` inside the class that owns a new constant nobody overrides
            return self._new_class_const(cls, e.attr)
        if not isinstance(root, ast.Name) or root.id in local or root.id in ('self', 'cls'):
            return None
        try:
            r = self.repo.resolve_expr(e, self.m)
        except NotConst:
            return None
        except Exception:
            return None
        if isinstance(r, tuple) and r and r[0] == 'classattr':
            # ``Class.NAME`` / ``module.Class.NAME``: a class-level constant, named through the class (not through an instance,
            # where a subclass could override it), bound once to a literal and never stored to anywhere in the package
            _, kls, name = r
            from .oracles.inventory import NAMES
            if name in self._stored_attrs() or name.startswith('__') or '%s.%s' % (kls.key, name) in NAMES \
                    or _known_class_attr(kls.name, name):
                return None      # (class attributes of the pinned tree are what the rules talk about: they keep their names)
            val = kls.attrs.get(name)
            if val is None or not _literal_only(val):
                return None
            try:
                v = self.repo.fold(val, kls.module, kls)
            except Exception:
                return None
        elif isinstance(r, tuple) and r and r[0] == 'assign':
            _, mod, name = r
            vals = mod.assigns.get(name, [])
            if len(vals) == 1 and name not in _global_decls(mod.tree) and not (mod is self.m and name in self.globals_rebound):
                v0 = vals[0]
                # a module-level object of a class whose instances are never written (built directly or by a cached value
                # factory) from constants: a name for that constructor call
                if mod is self.m and isinstance(v0, ast.Call) and not v0.keywords and all(isinstance(a, ast.Constant) for a in v0.args) \
                        and not self.repo.table_writers(mod.name, name):
                    try:
                        rr = self.repo.resolve_expr(v0.func, mod) if not isinstance(v0.func, ast.Name) else self.repo.resolve_name(v0.func.id, mod)
                    except Exception:
                        rr = None
                    from .srcmodel import ClassRef as _CR, FuncRef as _FR
                    okv = False
                    if isinstance(rr, _CR):
                        okv = self.repo.effectively_immutable(self.repo.cls(rr.module, rr.name))
                    elif isinstance(rr, _FR):
                        try:
                            okv = self.repo.cached_value_factory(self.repo.func(rr.module, rr.qualname))
                        except Exception:
                            okv = False
                    if okv:
                        return copy.deepcopy(v0)
                # an immutable collection of scalars built from a literal: ``frozenset(['a', 'b'])`` reads, for membership
                # tests and iteration over it, as the tuple of its (sorted) members
                if isinstance(v0, ast.Call) and isinstance(v0.func, ast.Name) and v0.func.id in ('frozenset', 'tuple') \
                        and len(v0.args) == 1 and not v0.keywords and isinstance(v0.args[0], (ast.List, ast.Tuple, ast.Set)) \
                        and v0.args[0].elts and all(isinstance(x, ast.Constant) and type(x.value) in (int, str, bytes)
                                                    for x in v0.args[0].elts) \
                        and v0.func.id not in mod.assigns and v0.func.id not in mod.functions:
                    members = [x.value for x in v0.args[0].elts]
                    if v0.func.id == 'frozenset':
                        members = sorted(set(members), key=lambda z: (type(z).__name__, z))
                    return ast.Tuple(elts=[ast.Constant(value=z) for z in members], ctx=ast.Load())
            if len(vals) != 1 or name in _global_decls(mod.tree) or not _literal_only(vals[0]):
                return None
            if mod is self.m and name in self.globals_rebound:
                return None
            try:
                v = self.repo.fold(vals[0], mod)
            except NotConst:
                return None
        else:
            return None
        lit = _scalar_literal(v)
        if lit is not None and type(v) is tuple:
            # an immutable table of scalars (rows of scalars) reads as its literal
            return lit
        if type(v) not in (int, str, bytes, float):
            return None
        return ast.Constant(value=v)

    def _stored_attrs(self) -> Set[str]:
        """attribute names stored to anywhere in the package (``x.name = ...``, ``setattr(x, 'name', ...)``)"""
        if getattr(self, '_stored_attr_names', None) is None:
            out: Set[str] = set()
            for m in self.repo.modules.values():
                for n in ast.walk(m.tree):
                    if isinstance(n, ast.Attribute) and isinstance(n.ctx, (ast.Store, ast.Del)):
                        out.add(n.attr)
                    elif isinstance(n, ast.Call) and isinstance(n.func, ast.Name) and n.func.id in ('setattr', 'delattr') \
                            and len(n.args) >= 2 and isinstance(n.args[1], ast.Constant):
                        out.add(n.args[1].value)
            self._stored_attr_names = out
        return self._stored_attr_names

    def _fold_function(self, fnode, cls, local: Set[str]):
        me = self

        class T(ast.NodeTransformer):
            def visit_FunctionDef(self, node):
                return node if node is not fnode else self.generic_visit(node)
            visit_AsyncFunctionDef = visit_FunctionDef

            def visit_Name(self, node):
                if isinstance(node.ctx, ast.Load):
                    c = me._const_of(node, local)
                    if c is not None:
                        me.stats['constants'] += 1
                        return ast.copy_location(c, node)
                return node

            def visit_Attribute(self, node):
                if isinstance(node.ctx, ast.Load):
                    c = me._const_of(node, local, cls)
                    if c is not None:
                        me.stats['constants'] += 1
                        return ast.copy_location(c, node)
                return self.generic_visit(node)
        # defaults of the signature are evaluated in the enclosing scope: leave them alone
        saved = fnode.args
        fnode.args = ast.arguments(posonlyargs=[], args=[], kwonlyargs=[], kw_defaults=[], defaults=[])
        try:
            T().visit(fnode)
        finally:
            fnode.args = saved
        # a method's defaults are evaluated in the class body: a bare name there may be a new class-level constant
        if cls is not None and fnode in [f_.node for f_ in list(cls.methods.values()) + list(cls.setters.values())]:
            a = fnode.args
            for lst in (a.defaults, a.kw_defaults):
                for i, d in enumerate(lst):
                    if isinstance(d, ast.Name) and d.id in cls.attrs:
                        c = self._new_class_const(cls, d.id)
                        if c is not None:
                            lst[i] = ast.copy_location(c, d)
                            self.stats['constants'] += 1

    # ------------------------------------------------------------------ 1e. yield from
    def _yield_from(self, fnode, cls, local):
        """statement-level ``yield from E`` -> ``for item in E: yield item`` (send()/throw() delegation is not used by the
        package's consumers; the items and their order are the same)"""
        k = [0]

        def walk(body):
            out = []
            for st in body:
                if isinstance(st, (ast.FunctionDef, ast.AsyncFunctionDef, ast.ClassDef)):
                    out.append(st)
                    continue
                for fld in ('body', 'orelse', 'finalbody'):
                    v = getattr(st, fld, None)
                    if isinstance(v, list) and v and isinstance(v[0], ast.stmt):
                        setattr(st, fld, walk(v))
                if isinstance(st, ast.Try):
                    for h in st.handlers:
                        h.body = walk(h.body)
                if isinstance(st, ast.Expr) and isinstance(st.value, ast.YieldFrom):
                    k[0] += 1
                    name = '__yf%d' % k[0]
                    loop = ast.For(target=ast.Name(id=name, ctx=ast.Store()), iter=st.value.value,
                                   body=[ast.Expr(value=ast.Yield(value=ast.Name(id=name, ctx=ast.Load())))], orelse=[])
                    ast.copy_location(loop, st)
                    ast.fix_missing_locations(loop)
                    out.append(loop)
                    self.stats['yield_from'] = self.stats.get('yield_from', 0) + 1
                else:
                    out.append(st)
            return out
        fnode.body = walk(fnode.body)

    # ------------------------------------------------------------------ 1d. one spelling for "this function produces these items"
    def _generator_form(self, fnode, cls, local):
        """``return (E for T in S if C)`` and ``def g(..): for T in S: yield E`` + ``return g(..)`` both become a loop with
        ``yield`` in the function itself.  (When the items are produced -- at the call or at the first ``next`` -- differs;
        which items, from what, in which order does not, and that is all the rules look at.)"""
        body = _body(fnode)
        if any(isinstance(n, (ast.Yield, ast.YieldFrom)) for st in body if not isinstance(st, (ast.FunctionDef, ast.ClassDef))
               for n in ast.walk(st)):
            return
        rets = [n for st in body if not isinstance(st, (ast.FunctionDef, ast.ClassDef)) for n in ast.walk(st) if isinstance(n, ast.Return)]
        if len(rets) != 1 or not body or rets[0] is not body[-1] or rets[0].value is None:
            return
        ret = rets[0]
        new_tail = None
        v = ret.value
        if isinstance(v, ast.GeneratorExp):
            inner: List[ast.stmt] = [ast.Expr(value=ast.Yield(value=v.elt))]
            for g in reversed(v.generators):
                if g.is_async:
                    return
                for cond in reversed(g.ifs):
                    inner = [ast.If(test=cond, body=inner, orelse=[])]
                inner = [ast.For(target=g.target, iter=g.iter, body=inner, orelse=[])]
            new_tail = inner
        elif isinstance(v, ast.Call) and isinstance(v.func, ast.Name):
            nested = [st for st in body if isinstance(st, ast.FunctionDef) and st.name == v.func.id]
            if len(nested) == 1 and any(isinstance(n, ast.Yield) for n in ast.walk(nested[0])) \
                    and not any(isinstance(n, (ast.Return, ast.YieldFrom)) for n in ast.walk(nested[0])) \
                    and not v.keywords and not any(isinstance(a, ast.Starred) for a in v.args):
                g = nested[0]
                params = [a.arg for a in g.args.args]
                if len(params) == len(v.args) and not g.args.vararg and not g.args.kwarg and not g.args.defaults:
                    uses = sum(1 for n in ast.walk(fnode) if isinstance(n, ast.Name) and n.id == g.name and isinstance(n.ctx, ast.Load))
                    if uses == 1:
                        binds = []
                        for p_, a_ in zip(params, v.args):
                            # ``iter(x)`` only fixes when iteration starts
                            if isinstance(a_, ast.Call) and isinstance(a_.func, ast.Name) and a_.func.id == 'iter' and len(a_.args) == 1:
                                a_ = a_.args[0]
                            binds.append(ast.Assign(targets=[ast.Name(id=p_, ctx=ast.Store())], value=a_))
                        new_tail = binds + copy.deepcopy(_body(g))
                        fnode.body = [st for st in fnode.body if st is not g]
        if new_tail is None and isinstance(v, ast.Call) and ast.unparse(v.func) in ('itertools.chain', 'chain') and v.args \
                and not v.keywords and not any(isinstance(a, ast.Starred) for a in v.args):
            # ``return itertools.chain(A, g(args), ...)``: the items of each operand in turn.  A call of a generator helper is
            # expanded with its parameters bound to the arguments.  (When things are evaluated -- at the call, or when the items
            # are pulled -- is not kept by this form; the rules that care about it read the original function, see
            # pitfalls.phase_split_problems.)
            pre: List[ast.stmt] = []
            loops: List[ast.stmt] = []
            ok = True
            for k_, a_ in enumerate(v.args):
                h = self._helper_of(a_, cls) if isinstance(a_, ast.Call) else None
                if h is not None and h[0].node is not fnode and any(isinstance(n, ast.Yield) for n in ast.walk(h[0].node)) \
                        and not any(isinstance(n, (ast.Return, ast.YieldFrom)) for n in ast.walk(h[0].node)):
                    ha = h[0].node.args
                    exp = None if (ha.vararg or ha.kwarg or ha.kwonlyargs or ha.posonlyargs) else self._expand(h[0], h[1], a_, allow_yield=True)
                    if exp is None:
                        ok = False
                        break
                    loops.extend(exp[0])
                    self.inlined.append(('%s:%s' % (self.m.name, fnode.name), h[0].key, id(fnode)))
                else:
                    self.counter += 1
                    it = '__c%d_item' % self.counter
                    loops.append(ast.For(target=ast.Name(id=it, ctx=ast.Store()), iter=a_,
                                         body=[ast.Expr(value=ast.Yield(value=ast.Name(id=it, ctx=ast.Load())))], orelse=[]))
            if ok:
                new_tail = pre + loops
        if new_tail is None and isinstance(v, ast.Call):
            # ``return _helper_generator(args)``: the same with a generator that is a helper function / method of its own
            h = self._helper_of(v, cls)
            if h is not None and h[0].node is not fnode and any(isinstance(n, ast.Yield) for n in ast.walk(h[0].node)) \
                    and not any(isinstance(n, (ast.Return, ast.YieldFrom)) for n in ast.walk(h[0].node)):
                a_ = h[0].node.args
                if not (a_.vararg or a_.kwarg or a_.kwonlyargs or a_.posonlyargs):
                    exp = self._expand(h[0], h[1], v, allow_yield=True)
                    if exp is not None:
                        new_tail = exp[0]
                        self.inlined.append(('%s:%s' % (self.m.name, fnode.name), h[0].key, id(fnode)))
        if new_tail is None:
            return
        for st in new_tail:
            ast.copy_location(st, ret)
            ast.fix_missing_locations(st)
        fnode.body = [st for st in fnode.body if st is not ret] + new_tail
        self.stats['generator_forms'] = self.stats.get('generator_forms', 0) + 1

    # ------------------------------------------------------------------ 1f. iterator idioms as loops
    def _iteration_idioms(self, fnode, cls, local):
        """One form -- the explicit loop -- for:

        * ``x = next((E for v in S if C), D)`` -> ``for v' in S: if C: x = E; break`` / ``else: x = D`` (first match);
        * the statement ``d.update((K, V) for v in S)`` / ``d.update({K: V for v in S})`` -> ``for v' in S: d[K] = V``;
        * ``for i, x in enumerate(S[, n])`` -> a counter: ``i' = n`` before, ``i = i'; i' += 1`` first in the body.
        Comprehension variables get fresh names (they did not leak before)."""
        me = self

        def fresh(names):
            me.counter += 1
            return {n: '__c%d_%s' % (me.counter, n) for n in names}

        def rename(node, mapping):
            class R(ast.NodeTransformer):
                def visit_Name(self_, n):
                    if n.id in mapping:
                        return ast.copy_location(ast.Name(id=mapping[n.id], ctx=n.ctx), n)
                    return n
            return R().visit(copy.deepcopy(node))

        def comp_loop(gens, inner):
            """nest ``inner`` (list of statements) under the for / if structure of the comprehension generators"""
            for g in reversed(gens):
                for cond in reversed(g.ifs):
                    inner = [ast.If(test=cond, body=inner, orelse=[])]
                inner = [ast.For(target=g.target, iter=g.iter, body=inner, orelse=[])]
            return inner

        def key_apply(fn_, arg):
            """the expression ``fn_(arg)`` for the key functions that have one: lambda, itemgetter(c), attrgetter('a'), None"""
            if fn_ is None or (isinstance(fn_, ast.Constant) and fn_.value is None):
                return arg
            if isinstance(fn_, ast.Lambda) and len(fn_.args.args) == 1 and not (fn_.args.vararg or fn_.args.kwarg or fn_.args.kwonlyargs
                                                                              or fn_.args.defaults):
                pn = fn_.args.args[0].arg
                if any(isinstance(y, (ast.Lambda, ast.NamedExpr, ast.Yield, ast.YieldFrom, ast.Await)) for y in ast.walk(fn_.body)):
                    return None

                class B(ast.NodeTransformer):
                    def visit_Name(self_, y):
                        if y.id == pn and isinstance(y.ctx, ast.Load):
                            return copy.deepcopy(arg)
                        return y
                return B().visit(copy.deepcopy(fn_.body))
            if isinstance(fn_, ast.Call) and ast.unparse(fn_.func) in ('itemgetter', 'operator.itemgetter') and len(fn_.args) == 1 \
                    and not fn_.keywords and isinstance(fn_.args[0], ast.Constant):
                return ast.Subscript(value=arg, slice=fn_.args[0], ctx=ast.Load())
            if isinstance(fn_, ast.Call) and ast.unparse(fn_.func) in ('attrgetter', 'operator.attrgetter') and len(fn_.args) == 1 \
                    and not fn_.keywords and isinstance(fn_.args[0], ast.Constant) and isinstance(fn_.args[0].value, str) \
                    and fn_.args[0].value.isidentifier():
                return ast.Attribute(value=arg, attr=fn_.args[0].value, ctx=ast.Load())
            return None

        def flatten_groupby(st):
            it = st.iter
            if not (isinstance(it, ast.Call) and ast.unparse(it.func) in ('groupby', 'itertools.groupby') and 'groupby' not in local):
                return None
            kw = {k.arg: k.value for k in it.keywords}
            if len(it.args) == 2 and not kw:
                src, keyf = it.args
            elif len(it.args) == 1 and set(kw) <= {'key'}:
                src, keyf = it.args[0], kw.get('key')
            else:
                return None
            if not (isinstance(st.target, ast.Tuple) and len(st.target.elts) == 2 and all(isinstance(x, ast.Name) for x in st.target.elts)):
                return None
            K, G = st.target.elts[0].id, st.target.elts[1].id
            key_names, grp_names = {K}, {G}
            pre = []
            body = list(st.body)
            # leading assignments: aliases of the key / the group, and values computed from the key alone
            flat_assigns = []
            while body and isinstance(body[0], ast.Assign) and len(body[0].targets) == 1:
                a = body[0]
                if isinstance(a.targets[0], ast.Tuple) and isinstance(a.value, ast.Tuple) and len(a.targets[0].elts) == len(a.value.elts) \
                        and all(isinstance(x, ast.Name) for x in a.targets[0].elts):
                    # (a, b) = (x, y): pairwise, when no target is read by a later value
                    tn_ = [x.id for x in a.targets[0].elts]
                    if any(isinstance(y, ast.Name) and y.id in tn_ for v_ in a.value.elts for y in ast.walk(v_)):
                        break
                    flat_assigns.extend(ast.Assign(targets=[t_], value=v_) for t_, v_ in zip(a.targets[0].elts, a.value.elts))
                elif isinstance(a.targets[0], ast.Name):
                    flat_assigns.append(a)
                else:
                    break
                body = body[1:]
            for a in flat_assigns:
                nm, v = a.targets[0].id, a.value
                if isinstance(v, ast.Name) and v.id in key_names:
                    key_names.add(nm)
                    pre.append(a)
                elif (isinstance(v, ast.Name) and v.id in grp_names) or (
                        isinstance(v, ast.Call) and isinstance(v.func, ast.Name) and v.func.id in ('list', 'tuple', 'iter') and len(v.args) == 1
                        and not v.keywords and isinstance(v.args[0], ast.Name) and v.args[0].id in grp_names):
                    grp_names.add(nm)
                else:
                    if any(isinstance(y, (ast.Call, ast.Lambda, ast.NamedExpr, ast.Yield, ast.YieldFrom, ast.Await, ast.ListComp,
                                          ast.GeneratorExp, ast.DictComp, ast.SetComp)) for y in ast.walk(v)):
                        return None
                    if any(isinstance(y, ast.Name) and y.id in grp_names for y in ast.walk(v)):
                        return None
                    pre.append(a)
            if len(body) != 1 or not isinstance(body[0], ast.For) or body[0].orelse:
                return None
            inner = body[0]
            ii = inner.iter
            if isinstance(ii, ast.Call) and isinstance(ii.func, ast.Name) and ii.func.id in ('list', 'tuple', 'iter') and len(ii.args) == 1 \
                    and not ii.keywords:
                ii = ii.args[0]
            if not (isinstance(ii, ast.Name) and ii.id in grp_names):
                return None
            if _loop_level(inner.body, (ast.Break,)):
                return None
            # the group is used for nothing else; the body leaves alone what the per-group values were computed from
            if any(isinstance(y, ast.Name) and y.id in grp_names for b in inner.body for y in ast.walk(b)):
                return None
            pre_targets = {a.targets[0].id for a in pre}
            inner_t = {y.id for y in ast.walk(inner.target) if isinstance(y, ast.Name)}
            if inner_t & (pre_targets | key_names):
                return None
            reads_n = {y.id for a in pre for y in ast.walk(a.value) if isinstance(y, ast.Name)} - key_names
            reads_a = {ast.unparse(y) for a in pre for y in ast.walk(a.value) if isinstance(y, ast.Attribute) and _is_simple(y)}
            for b in inner.body:
                for y in ast.walk(b):
                    if isinstance(y, ast.Name) and isinstance(y.ctx, (ast.Store, ast.Del)) and y.id in (reads_n | pre_targets | key_names | inner_t - inner_t):
                        return None
                    if isinstance(y, (ast.Attribute, ast.Subscript)) and isinstance(y.ctx, (ast.Store, ast.Del)):
                        t_ = ast.unparse(y.value if isinstance(y, ast.Subscript) else y)
                        if any(t_ == r or t_.startswith(r + '.') or t_.startswith(r + '[') or r.startswith(t_ + '.') for r in reads_a):
                            return None
                    if isinstance(y, ast.Call) and isinstance(y.func, ast.Attribute):
                        t_ = ast.unparse(y.func.value)
                        if any(t_ == r or t_.startswith(r + '.') for r in reads_a):
                            return None
            me.counter += 1
            g = '__g%d' % me.counter
            kexpr = key_apply(keyf, ast.Name(id=g, ctx=ast.Load()))
            if kexpr is None:
                return None
            new_body = [ast.Assign(targets=[ast.Name(id=K, ctx=ast.Store())], value=kexpr),
                        ast.Assign(targets=[inner.target], value=ast.Name(id=g, ctx=ast.Load()))] + pre + inner.body
            return [ast.For(target=ast.Name(id=g, ctx=ast.Store()), iter=src, body=new_body, orelse=[])]

        def do_stmt(st):
            # next(iter(G), D) on a generator expression is next(G, D)
            if isinstance(st, ast.Assign) and isinstance(st.value, ast.Call) and isinstance(st.value.func, ast.Name) \
                    and st.value.func.id == 'next' and len(st.value.args) == 2 and isinstance(st.value.args[0], ast.Call) \
                    and isinstance(st.value.args[0].func, ast.Name) and st.value.args[0].func.id == 'iter' and 'iter' not in local \
                    and len(st.value.args[0].args) == 1 and not st.value.args[0].keywords \
                    and isinstance(st.value.args[0].args[0], ast.GeneratorExp):
                st.value.args[0] = st.value.args[0].args[0]
            # first match
            if isinstance(st, ast.Assign) and len(st.targets) == 1 and isinstance(st.targets[0], ast.Name) \
                    and isinstance(st.value, ast.Call) and isinstance(st.value.func, ast.Name) and st.value.func.id == 'next' \
                    and 'next' not in local and len(st.value.args) == 2 and not st.value.keywords \
                    and isinstance(st.value.args[0], ast.GeneratorExp) and len(st.value.args[0].generators) == 1 \
                    and not st.value.args[0].generators[0].is_async and _is_simple_or_const(st.value.args[1]):
                ge = st.value.args[0]
                g = ge.generators[0]
                tnames = {n.id for n in ast.walk(g.target) if isinstance(n, ast.Name)}
                mp = fresh(tnames)
                x = st.targets[0].id
                hit = [ast.Assign(targets=[ast.Name(id=x, ctx=ast.Store())], value=rename(ge.elt, mp)), ast.Break()]
                body = hit
                for cond in reversed(g.ifs):
                    body = [ast.If(test=rename(cond, mp), body=body, orelse=[])]
                loop = ast.For(target=rename(g.target, mp), iter=g.iter, body=body,
                               orelse=[ast.Assign(targets=[ast.Name(id=x, ctx=ast.Store())], value=st.value.args[1])])
                me.stats['iteration_idioms'] = me.stats.get('iteration_idioms', 0) + 1
                return [loop]
            # d.update(pairs)
            if isinstance(st, ast.Expr) and isinstance(st.value, ast.Call) and isinstance(st.value.func, ast.Attribute) \
                    and st.value.func.attr == 'update' and len(st.value.args) == 1 and not st.value.keywords \
                    and _is_simple(st.value.func.value):
                a = st.value.args[0]
                d = st.value.func.value
                key = val = gens = None
                if isinstance(a, (ast.GeneratorExp, ast.ListComp)) and isinstance(a.elt, ast.Tuple) and len(a.elt.elts) == 2:
                    key, val, gens = a.elt.elts[0], a.elt.elts[1], a.generators
                elif isinstance(a, ast.DictComp):
                    key, val, gens = a.key, a.value, a.generators
                if gens is not None and not any(g.is_async for g in gens):
                    tnames = {n.id for g in gens for n in ast.walk(g.target) if isinstance(n, ast.Name)}
                    mp = fresh(tnames)
                    store = ast.Assign(targets=[ast.Subscript(value=copy.deepcopy(d), slice=rename(key, mp), ctx=ast.Store())],
                                       value=rename(val, mp))
                    gens2 = [ast.comprehension(target=rename(g.target, mp), iter=rename(g.iter, mp) if i else g.iter,
                                               ifs=[rename(c, mp) for c in g.ifs], is_async=0) for i, g in enumerate(gens)]
                    me.stats['iteration_idioms'] = me.stats.get('iteration_idioms', 0) + 1
                    return comp_loop(gens2, [store])
            # for K, G in groupby(S, F): PRE; for X in G: BODY   ->   for g in S: K = F(g); X = g; PRE; BODY
            if isinstance(st, ast.For) and not st.orelse:
                flat = flatten_groupby(st)
                if flat is not None:
                    me.stats['iteration_idioms'] = me.stats.get('iteration_idioms', 0) + 1
                    return flat
            # for x in (E for t in S if C): BODY  ->  for t in S: if C: x = E; BODY   (the elements are computed one per turn
            # either way; break / continue / else keep their meaning because the filter comes first and only guards)
            if isinstance(st, ast.For) and isinstance(st.iter, ast.GeneratorExp) and len(st.iter.generators) == 1 \
                    and not st.iter.generators[0].is_async and not _has_yield(st.iter):
                g = st.iter.generators[0]
                tn = {n.id for n in ast.walk(g.target) if isinstance(n, ast.Name)}
                used_elsewhere = any(isinstance(n, ast.Name) and n.id in tn for b in st.body + st.orelse for n in ast.walk(b))
                if not used_elsewhere and not (g.ifs and _loop_level(st.body, (ast.Continue,)) and False):
                    bind = ast.Assign(targets=[st.target], value=st.iter.elt)
                    body = [bind] + st.body
                    for cond in reversed(g.ifs):
                        body = [ast.If(test=cond, body=body, orelse=[])]
                    loop = ast.For(target=g.target, iter=g.iter, body=body, orelse=st.orelse)
                    me.stats['iteration_idioms'] = me.stats.get('iteration_idioms', 0) + 1
                    out_ = []
                    for x_ in do_stmt(loop):
                        out_.append(x_)
                    return out_
            # for x in iter(callable, sentinel): the two-argument form of iter() calls until the sentinel comes back
            if isinstance(st, ast.For) and not st.orelse and isinstance(st.iter, ast.Call) and isinstance(st.iter.func, ast.Name) \
                    and st.iter.func.id == 'iter' and 'iter' not in local and len(st.iter.args) == 2 and not st.iter.keywords \
                    and isinstance(st.target, ast.Name) and isinstance(st.iter.args[1], ast.Constant):
                fn_, sent = st.iter.args
                call = None
                if isinstance(fn_, ast.Call) and ast.unparse(fn_.func) in ('functools.partial', 'partial') and fn_.args \
                        and not any(k.arg is None for k in fn_.keywords) and not any(isinstance(a, ast.Starred) for a in fn_.args) \
                        and all(_is_simple_or_const(a) for a in fn_.args) and all(_is_simple_or_const(k.value) for k in fn_.keywords):
                    call = ast.Call(func=fn_.args[0], args=list(fn_.args[1:]), keywords=list(fn_.keywords))
                elif isinstance(fn_, ast.Lambda) and not fn_.args.args and not fn_.args.vararg and not fn_.args.kwarg \
                        and not fn_.args.kwonlyargs and isinstance(fn_.body, ast.Call):
                    call = fn_.body
                elif _is_simple(fn_):
                    call = ast.Call(func=fn_, args=[], keywords=[])
                # the arguments are read at every call: the body must not rebind the names they mention
                if call is not None:
                    names = {n.id for n in ast.walk(call) if isinstance(n, ast.Name)}
                    rebound = any(isinstance(n, ast.Name) and isinstance(n.ctx, (ast.Store, ast.Del)) and n.id in names
                                  for b in st.body for n in ast.walk(b))
                    if not rebound or isinstance(fn_, ast.Lambda):
                        x = st.target.id
                        read = ast.Assign(targets=[ast.Name(id=x, ctx=ast.Store())], value=call)
                        stop = ast.If(test=ast.Compare(left=ast.Name(id=x, ctx=ast.Load()), ops=[ast.Eq()], comparators=[sent]),
                                      body=[ast.Break()], orelse=[])
                        loop = ast.While(test=ast.Constant(value=True), body=[read, stop] + st.body, orelse=[])
                        me.stats['iteration_idioms'] = me.stats.get('iteration_idioms', 0) + 1
                        return [loop]
            # enumerate
            if isinstance(st, ast.For) and isinstance(st.iter, ast.Call) and isinstance(st.iter.func, ast.Name) \
                    and st.iter.func.id == 'enumerate' and 'enumerate' not in local and len(st.iter.args) == 1 \
                    and len(st.iter.keywords) == 1 and st.iter.keywords[0].arg == 'start':
                st.iter.args = [st.iter.args[0], st.iter.keywords[0].value]
                st.iter.keywords = []
            if isinstance(st, ast.For) and isinstance(st.iter, ast.Call) and isinstance(st.iter.func, ast.Name) \
                    and st.iter.func.id == 'enumerate' and 'enumerate' not in local and 1 <= len(st.iter.args) <= 2 \
                    and not st.iter.keywords and isinstance(st.target, ast.Tuple) and len(st.target.elts) == 2 \
                    and isinstance(st.target.elts[0], ast.Name) and not getattr(me, '_idioms_round2', False):
                start = st.iter.args[1] if len(st.iter.args) == 2 else ast.Constant(value=0)
                if isinstance(start, ast.Constant) and isinstance(start.value, int):
                    i = st.target.elts[0].id
                    me.counter += 1
                    ctr = '__n%d_%s' % (me.counter, i)
                    init = ast.Assign(targets=[ast.Name(id=ctr, ctx=ast.Store())], value=ast.Constant(value=start.value))
                    inc = ast.AugAssign(target=ast.Name(id=ctr, ctx=ast.Store()), op=ast.Add(), value=ast.Constant(value=1))
                    bind = ast.Assign(targets=[ast.Name(id=i, ctx=ast.Store())], value=ast.Name(id=ctr, ctx=ast.Load()))
                    st.target = st.target.elts[1]
                    st.iter = st.iter.args[0]
                    st.body = [bind, inc] + st.body
                    me.stats['iteration_idioms'] = me.stats.get('iteration_idioms', 0) + 1
                    return [init, st]
            return [st]

        def accumulation(prev, st):
            """``x = []`` followed directly by ``for v in S: [if C:] x.append(E)`` (nothing else in the loop, x not read in
            S / C / E) -> ``x = [E for v in S if C]``"""
            if not (isinstance(prev, ast.Assign) and len(prev.targets) == 1 and isinstance(prev.targets[0], ast.Name)
                    and ((isinstance(prev.value, ast.List) and not prev.value.elts) or
                         (isinstance(prev.value, ast.Call) and isinstance(prev.value.func, ast.Name) and prev.value.func.id == 'list'
                          and not prev.value.args and not prev.value.keywords))):
                return None
            x = prev.targets[0].id
            if not (isinstance(st, ast.For) and not st.orelse and len(st.body) == 1):
                return None
            inner, cond = st.body[0], None
            if isinstance(inner, ast.If) and not inner.orelse and len(inner.body) == 1:
                inner, cond = inner.body[0], inner.test
            if not (isinstance(inner, ast.Expr) and isinstance(inner.value, ast.Call) and isinstance(inner.value.func, ast.Attribute)
                    and inner.value.func.attr == 'append' and isinstance(inner.value.func.value, ast.Name)
                    and inner.value.func.value.id == x and len(inner.value.args) == 1 and not inner.value.keywords):
                return None
            elt = inner.value.args[0]
            for part in [st.iter, elt] + ([cond] if cond is not None else []):
                if any(isinstance(n, ast.Name) and n.id == x for n in ast.walk(part)) or _has_yield(part):
                    return None
            tn = {n.id for n in ast.walk(st.target) if isinstance(n, ast.Name)}
            # the loop variable must not be used after the loop (a comprehension does not leak it)
            later = False
            seen = False
            for n in ast.walk(fnode):
                if n is st:
                    seen = True
            uses_after = [n for n in ast.walk(fnode) if isinstance(n, ast.Name) and n.id in tn and isinstance(n.ctx, ast.Load)
                          and getattr(n, 'lineno', 0) > getattr(st, 'end_lineno', getattr(st, 'lineno', 0))]
            if uses_after:
                return None
            comp = ast.ListComp(elt=elt, generators=[ast.comprehension(target=st.target, iter=st.iter,
                                                                       ifs=[cond] if cond is not None else [], is_async=0)])
            me.stats['iteration_idioms'] = me.stats.get('iteration_idioms', 0) + 1
            return ast.Assign(targets=[ast.Name(id=x, ctx=ast.Store())], value=comp)

        # r = iter(stream.read-like callable, SENTINEL) used only as ``x = next(r, D)``: every such statement reads once more and
        # maps the sentinel to D (a stream at its end keeps returning the sentinel, so asking again after the end changes nothing)
        for n in list(ast.walk(fnode)):
            if isinstance(n, ast.Assign) and len(n.targets) == 1 and isinstance(n.targets[0], ast.Name) and isinstance(n.value, ast.Call) \
                    and isinstance(n.value.func, ast.Name) and n.value.func.id == 'iter' and 'iter' not in local and len(n.value.args) == 2 \
                    and not n.value.keywords and isinstance(n.value.args[1], ast.Constant):
                r = n.targets[0].id
                fn_, sent = n.value.args
                call = None
                if isinstance(fn_, ast.Call) and _is_partial(fn_):
                    call = ast.Call(func=fn_.args[0], args=list(fn_.args[1:]), keywords=[])
                elif _is_simple(fn_) and isinstance(fn_, ast.Attribute):
                    call = ast.Call(func=fn_, args=[], keywords=[])
                if call is None or not (isinstance(call.func, ast.Attribute) and call.func.attr in ('read', 'recv', 'readline', 'read1')):
                    continue
                if sum(1 for y in ast.walk(fnode) if isinstance(y, ast.Name) and y.id == r and isinstance(y.ctx, ast.Store)) != 1:
                    continue
                uses = [y for y in ast.walk(fnode) if isinstance(y, ast.Name) and y.id == r and isinstance(y.ctx, ast.Load)]
                nexts = [y for y in ast.walk(fnode) if isinstance(y, ast.Assign) and len(y.targets) == 1 and isinstance(y.targets[0], ast.Name)
                         and isinstance(y.value, ast.Call) and isinstance(y.value.func, ast.Name) and y.value.func.id == 'next'
                         and len(y.value.args) == 2 and not y.value.keywords and isinstance(y.value.args[0], ast.Name) and y.value.args[0].id == r
                         and isinstance(y.value.args[1], ast.Constant)]
                if not uses or len(nexts) != len(uses):
                    continue
                for blk in _blocks(fnode):
                    i = 0
                    while i < len(blk):
                        y = blk[i]
                        if y is n:
                            del blk[i]
                            continue
                        if any(y is z for z in nexts):
                            x = y.targets[0].id
                            read = ast.Assign(targets=[ast.Name(id=x, ctx=ast.Store())], value=copy.deepcopy(call))
                            fix = ast.If(test=ast.Compare(left=ast.Name(id=x, ctx=ast.Load()), ops=[ast.Eq()], comparators=[copy.deepcopy(sent)]),
                                         body=[ast.Assign(targets=[ast.Name(id=x, ctx=ast.Store())], value=y.value.args[1])], orelse=[])
                            for z in (read, fix):
                                ast.copy_location(z, y)
                                ast.fix_missing_locations(z)
                            blk[i:i + 1] = [read, fix]
                            i += 2
                            continue
                        i += 1
                me.stats['iteration_idioms'] = me.stats.get('iteration_idioms', 0) + 1

        def walk_body(body):
            out = []
            for st in body:
                if isinstance(st, (ast.FunctionDef, ast.AsyncFunctionDef, ast.ClassDef)):
                    out.append(st)
                    continue
                for fld in ('body', 'orelse', 'finalbody'):
                    v = getattr(st, fld, None)
                    if isinstance(v, list) and v and isinstance(v[0], ast.stmt):
                        setattr(st, fld, walk_body(v))
                if isinstance(st, ast.Try):
                    for h in st.handlers:
                        h.body = walk_body(h.body)
                if out:
                    # g = (genexp); x = next(g, D) / next(iter(g), D) with g used nowhere else: the generator expression in place
                    pv = out[-1]
                    if isinstance(pv, ast.Assign) and len(pv.targets) == 1 and isinstance(pv.targets[0], ast.Name) \
                            and isinstance(pv.value, ast.GeneratorExp) and isinstance(st, ast.Assign) and isinstance(st.value, ast.Call) \
                            and isinstance(st.value.func, ast.Name) and st.value.func.id == 'next' and len(st.value.args) == 2:
                        gname = pv.targets[0].id
                        a0 = st.value.args[0]
                        inner_ = a0.args[0] if (isinstance(a0, ast.Call) and isinstance(a0.func, ast.Name) and a0.func.id == 'iter'
                                                and len(a0.args) == 1 and not a0.keywords) else a0
                        n_uses = sum(1 for n in ast.walk(fnode) if isinstance(n, ast.Name) and n.id == gname)
                        if isinstance(inner_, ast.Name) and inner_.id == gname and n_uses == 2:
                            st.value.args[0] = pv.value
                            out.pop()
                if out:
                    # L = [E for t in S if C]; for x in L: BODY with L used nowhere else: the loop runs over the comprehension.
                    # (Whether the elements are all computed first or one per turn differs only in when; the body must not
                    # write what the comprehension reads.)
                    pv = out[-1]
                    if isinstance(pv, ast.Assign) and len(pv.targets) == 1 and isinstance(pv.targets[0], ast.Name) \
                            and isinstance(pv.value, (ast.ListComp, ast.GeneratorExp)) and len(pv.value.generators) == 1 \
                            and isinstance(st, ast.For) and isinstance(st.iter, ast.Name) and st.iter.id == pv.targets[0].id \
                            and sum(1 for n in ast.walk(fnode) if isinstance(n, ast.Name) and n.id == pv.targets[0].id) == 2 \
                            and not _has_yield(pv.value):
                        reads = {n.id for n in ast.walk(pv.value) if isinstance(n, ast.Name) and isinstance(n.ctx, ast.Load)}
                        reads_a = {ast.unparse(n) for n in ast.walk(pv.value) if isinstance(n, ast.Attribute) and _is_simple(n)}
                        writes = False
                        for b in st.body:
                            for n in ast.walk(b):
                                if isinstance(n, ast.Name) and isinstance(n.ctx, (ast.Store, ast.Del)) and n.id in reads:
                                    writes = True
                                if isinstance(n, (ast.Attribute, ast.Subscript)) and isinstance(n.ctx, (ast.Store, ast.Del)):
                                    t_ = ast.unparse(n.value if isinstance(n, ast.Subscript) else n)
                                    if any(t_ == r or r.startswith(t_ + '.') or t_.startswith(r + '.') for r in reads_a):
                                        writes = True
                        only_yields = all(isinstance(b, ast.Expr) and isinstance(b.value, ast.Yield) for b in st.body)
                        if not writes and (only_yields or not any(isinstance(n, ast.Call) for b in st.body for n in ast.walk(b))):
                            st.iter = ast.copy_location(ast.GeneratorExp(elt=pv.value.elt, generators=pv.value.generators), st.iter)
                            out.pop()
                            me.stats['iteration_idioms'] = me.stats.get('iteration_idioms', 0) + 1
                if out:
                    acc = accumulation(out[-1], st)
                    if acc is not None:
                        ast.copy_location(acc, out[-1])
                        ast.fix_missing_locations(acc)
                        out[-1] = acc
                        continue
                new = do_stmt(st)
                for x in new:
                    ast.copy_location(x, st)
                    ast.fix_missing_locations(x)
                out.extend(new)
            return out
        fnode.body = walk_body(fnode.body)

    # ------------------------------------------------------------------ 1b. x = x + e  ->  x += e
    def _augment_function(self, fnode, cls, local):
        for n in ast.walk(fnode):
            for fld in ('body', 'orelse', 'finalbody'):
                body = getattr(n, fld, None)
                if not (isinstance(body, list) and body and isinstance(body[0], ast.stmt)):
                    continue
                for i, st in enumerate(body):
                    if isinstance(st, ast.Assign) and len(st.targets) == 1 and isinstance(st.targets[0], ast.Name) \
                            and isinstance(st.value, ast.BinOp) and isinstance(st.value.op, (ast.Add, ast.Sub, ast.Mult)) \
                            and isinstance(st.value.left, ast.Name) and st.value.left.id == st.targets[0].id:
                        aug = ast.AugAssign(target=ast.Name(id=st.targets[0].id, ctx=ast.Store()), op=st.value.op, value=st.value.right)
                        ast.copy_location(aug, st)
                        ast.fix_missing_locations(aug)
                        body[i] = aug
                    elif isinstance(st, ast.Assign) and len(st.targets) == 1 and isinstance(st.targets[0], ast.Attribute) \
                            and _is_simple(st.targets[0]) and isinstance(st.value, ast.BinOp) \
                            and isinstance(st.value.op, (ast.Add, ast.Sub, ast.Mult)) and isinstance(st.value.left, ast.Attribute) \
                            and ast.unparse(st.value.left) == ast.unparse(st.targets[0]):
                        # ``o.a = o.a + e`` with ``o`` a plain name / attribute chain
                        tgt = copy.deepcopy(st.targets[0])
                        aug = ast.AugAssign(target=tgt, op=st.value.op, value=st.value.right)
                        ast.copy_location(aug, st)
                        ast.fix_missing_locations(aug)
                        body[i] = aug

    # ------------------------------------------------------------------ 4. one operand order for == / !=
    def _order_comparisons(self, fnode, cls, local):
        """``3 == marker`` -> ``marker == 3``; two non-constant operands without calls are put in text order.  (Operands with
        calls keep their order: evaluation order matters to the event trails.)"""
        for n in ast.walk(fnode):
            if isinstance(n, ast.Compare) and len(n.ops) == 1 and isinstance(n.ops[0], (ast.Eq, ast.NotEq)):
                l, r = n.left, n.comparators[0]
                if any(isinstance(x, (ast.Call, ast.Yield, ast.Await, ast.NamedExpr)) for x in ast.walk(l)) or \
                        any(isinstance(x, (ast.Call, ast.Yield, ast.Await, ast.NamedExpr)) for x in ast.walk(r)):
                    continue
                lc, rc = isinstance(l, ast.Constant), isinstance(r, ast.Constant)
                swap = (lc and not rc) or (not lc and not rc and ast.unparse(l) > ast.unparse(r))
                if swap:
                    n.left, n.comparators = r, [l]

    # ------------------------------------------------------------------ 2. conditional expressions
    def _desugar_function(self, fnode, cls, local):
        me = self
        # statements under a ``try`` (or a ``with``, which may swallow): a failure in a later operand must leave the target as
        # it was, because the handler / the code after it can see it
        guarded = set()
        for n_ in ast.walk(fnode):
            if isinstance(n_, (ast.Try, ast.With)):
                for sub in ast.walk(n_):
                    if isinstance(sub, ast.stmt) and sub is not n_:
                        guarded.add(id(sub))

        def lift(e):
            """``(A if C else B) > M`` / ``not (A if C else B)``: the conditional expression is the first thing evaluated, so
            the whole reads ``(A > M) if C else (B > M)``"""
            if isinstance(e, ast.UnaryOp) and isinstance(e.op, ast.Not):
                inner = lift(e.operand)
                if isinstance(inner, ast.IfExp):
                    return ast.copy_location(ast.IfExp(test=inner.test, body=ast.UnaryOp(op=ast.Not(), operand=inner.body),
                                                       orelse=ast.UnaryOp(op=ast.Not(), operand=inner.orelse)), e)
                return e
            if isinstance(e, ast.Compare) and len(e.ops) == 1:
                l = lift(e.left)
                if isinstance(l, ast.IfExp) and not _has_yield(e):
                    mk = lambda x: ast.Compare(left=x, ops=list(e.ops), comparators=copy.deepcopy(e.comparators))
                    return ast.copy_location(ast.IfExp(test=l.test, body=mk(l.body), orelse=mk(l.orelse)), e)
                return e
            if isinstance(e, ast.BinOp):
                l = lift(e.left)
                if isinstance(l, ast.IfExp) and not _has_yield(e):
                    mk = lambda x: ast.BinOp(left=x, op=e.op, right=copy.deepcopy(e.right))
                    return ast.copy_location(ast.IfExp(test=l.test, body=mk(l.body), orelse=mk(l.orelse)), e)
                return e
            return e

        def split(st):
            v = getattr(st, 'value', None)
            if isinstance(st, _SIMPLE_STMTS) and v is not None and not isinstance(v, ast.IfExp):
                lv = lift(v)
                if isinstance(lv, ast.IfExp):
                    st.value = v = lv
                    ast.fix_missing_locations(st)
            if isinstance(st, ast.If):
                lt = lift(st.test)
                if isinstance(lt, ast.IfExp) and not _has_yield(lt.test) and sum(1 for _ in ast.walk(st)) < 400:
                    # if (T1 if C else T2): X else: Y   ->   if C: (if T1: X else: Y) else: (if T2: X else: Y)
                    a = ast.If(test=lt.body, body=st.body, orelse=st.orelse)
                    b = ast.If(test=lt.orelse, body=copy.deepcopy(st.body), orelse=copy.deepcopy(st.orelse))
                    node = ast.If(test=lt.test, body=split(a), orelse=split(b))
                    for x in (a, b, node):
                        ast.copy_location(x, st)
                    ast.fix_missing_locations(node)
                    me.stats['ifexp'] += 1
                    return [node]
            if isinstance(st, _SIMPLE_STMTS) and isinstance(v, ast.IfExp) and not _has_yield(v.test):
                a = copy.copy(st)
                a.value = v.body
                b = copy.copy(st)
                b.value = v.orelse
                if isinstance(st, (ast.Assign,)):
                    a.targets = copy.deepcopy(st.targets)
                    b.targets = copy.deepcopy(st.targets)
                elif isinstance(st, (ast.AnnAssign, ast.AugAssign)):
                    a.target = copy.deepcopy(st.target)
                    b.target = copy.deepcopy(st.target)
                me.stats['ifexp'] += 1
                node = ast.If(test=v.test, body=split(a), orelse=split(b))
                ast.copy_location(node, st)
                return [node]
            # ``return a() or b()`` / ``x = a() and b()``: the later operands run only when the earlier ones let them -- as
            # statements, so that a path-sensitive reader sees the calls on the paths on which they happen
            if isinstance(st, (ast.Return, ast.Assign)) and isinstance(v, ast.BoolOp) and not _has_yield(v) \
                    and any(isinstance(n, ast.Call) for x in v.values[1:] for n in ast.walk(x)) \
                    and (isinstance(st, ast.Return) or (len(st.targets) == 1 and isinstance(st.targets[0], ast.Name))):
                first = v.values[0]
                rest = v.values[1] if len(v.values) == 2 else ast.BoolOp(op=v.op, values=v.values[1:])
                me.stats['boolop_stmt'] = me.stats.get('boolop_stmt', 0) + 1
                pre = []
                if isinstance(st, ast.Assign):
                    name = st.targets[0].id
                    final = []
                    if id(st) in guarded:
                        me.counter += 1
                        final = [ast.Assign(targets=[ast.Name(id=name, ctx=ast.Store())], value=ast.Name(id='__b%d' % me.counter, ctx=ast.Load()))]
                        name = '__b%d' % me.counter
                    pre.append(ast.Assign(targets=[ast.Name(id=name, ctx=ast.Store())], value=first))
                    again = ast.Assign(targets=[ast.Name(id=name, ctx=ast.Store())], value=rest)
                    test = ast.Name(id=name, ctx=ast.Load())
                    if isinstance(v.op, ast.Or):
                        test = ast.UnaryOp(op=ast.Not(), operand=test)
                    node = ast.If(test=test, body=[again], orelse=[])
                    out = pre + [node] + final
                else:
                    if _is_simple(first):
                        held = first
                    else:
                        me.counter += 1
                        name = '__b%d' % me.counter
                        pre.append(ast.Assign(targets=[ast.Name(id=name, ctx=ast.Store())], value=first))
                        held = ast.Name(id=name, ctx=ast.Load())
                    r_first = ast.Return(value=copy.deepcopy(held))
                    r_rest = ast.Return(value=rest)
                    if isinstance(v.op, ast.Or):
                        node = ast.If(test=copy.deepcopy(held), body=[r_first], orelse=[r_rest])
                    else:
                        node = ast.If(test=copy.deepcopy(held), body=[r_rest], orelse=[r_first])
                    out = pre + [node]
                for x in out:
                    ast.copy_location(x, st)
                    ast.fix_missing_locations(x)
                res = []
                for x in out:
                    if isinstance(x, ast.If):
                        x.body = [y for z in x.body for y in split(z)]
                        x.orelse = [y for z in x.orelse for y in split(z)]
                        res.append(x)
                    else:
                        res.extend(split(x))
                return res
            return [st]

        def walk_body(body: List[ast.stmt]) -> List[ast.stmt]:
            out = []
            for st in body:
                if isinstance(st, (ast.FunctionDef, ast.AsyncFunctionDef, ast.ClassDef)):
                    out.append(st)
                    continue
                for fld in ('body', 'orelse', 'finalbody'):
                    if isinstance(getattr(st, fld, None), list) and getattr(st, fld) and isinstance(getattr(st, fld)[0], ast.stmt):
                        setattr(st, fld, walk_body(getattr(st, fld)))
                if isinstance(st, ast.Try):
                    for h in st.handlers:
                        h.body = walk_body(h.body)
                out.extend(split(st))
            return out
        fnode.body = walk_body(fnode.body)

    # ------------------------------------------------------------------ 1e. single-expression helpers, wherever they are called
    def _inline_pure_everywhere(self, fnode, cls, local):
        """``[helper(i) for i in xs]`` / a call inside a lambda-free expression the statement-level inliner does not reach: a helper
        whose body is one ``return <expression>`` and whose arguments at the call are plain names / constants is replaced by that
        expression (parameters substituted) wherever the call stands"""
        me = self

        class T(ast.NodeTransformer):
            def visit_FunctionDef(self_, n):
                return n if n is not fnode else self_.generic_visit(n)
            visit_AsyncFunctionDef = visit_FunctionDef

            def visit_Lambda(self_, n):
                return n

            def visit_Call(self_, n):
                n = self_.generic_visit(n)
                h = me._helper_of(n, cls)
                if h is None or h[0].node is fnode or not me._inlinable(h[0]) or not _is_pure(h[0]) or h[1] is not None:
                    return n
                fi = h[0]
                if any(isinstance(a, ast.Starred) for a in n.args) or any(k.arg is None for k in n.keywords):
                    return n
                if not all(_is_simple_or_const(a) for a in n.args) or not all(_is_simple_or_const(k.value) for k in n.keywords):
                    return n
                params = [x.arg for x in fi.node.args.args]
                if len(n.args) > len(params):
                    return n
                env = dict(zip(params, n.args))
                for k in n.keywords:
                    if k.arg not in params or k.arg in env:
                        return n
                    env[k.arg] = k.value
                defaults = fi.node.args.defaults
                for p_, d_ in zip(params[len(params) - len(defaults):], defaults):
                    env.setdefault(p_, d_)
                if any(p_ not in env for p_ in params):
                    return n
                ret = _body(fi.node)[0].value
                if ret is None or any(isinstance(y, (ast.Lambda, ast.ListComp, ast.GeneratorExp, ast.DictComp, ast.SetComp, ast.Yield,
                                                    ast.NamedExpr, ast.Await)) for y in ast.walk(ret)):
                    return n
                if fi.module is not me.m and not me._portable(fi):
                    return n

                class S(ast.NodeTransformer):
                    def visit_Name(self__, y):
                        if isinstance(y.ctx, ast.Load) and y.id in env:
                            return copy.deepcopy(env[y.id])
                        return y
                me.stats['inlined_calls'] += 1
                return ast.copy_location(S().visit(copy.deepcopy(ret)), n)
        T().visit(fnode)
        ast.fix_missing_locations(fnode)

    # ------------------------------------------------------------------ 1d. caches whose key determines the value
    def _memo_elision(self, fnode, cls, local):
        """A function that keeps results under a *complete* key (memo.missing_inputs is empty) and does not write through what it
        retrieves computes what it would compute without the cache: the hit test and the stores are dropped, the miss branch
        stays.  A cache with an incomplete key stays as it is (and is reported by the Z1 rules)."""
        from .memo import elidable, find_memos, missing_inputs, reset_at_acquisition, _sub_store, _chain, _same
        from .srcmodel import FuncInfo
        memos = find_memos(fnode)
        if not memos:
            return
        fi = FuncInfo(self.m, cls, fnode.name, fnode, 'method' if cls is not None else 'function')
        for m in memos:
            if missing_inputs(self.repo, fi, m):
                continue
            if not elidable(fnode, m) and not reset_at_acquisition(fnode, m, self.m):
                continue
            for blk in _blocks(fnode):
                for i, st in enumerate(blk):
                    if st is not m.stmt:
                        continue
                    if m.shape == 'S' and isinstance(st, ast.If):
                        # drop the hit test and the two slot stores
                        slot_v = m.store
                        test = st.test
                        slot_k = _chain(test.left) if _chain(test.left) and _chain(test.left).split('.')[0] == slot_v.split('.')[0] \
                            and '.' in _chain(test.left) else _chain(test.comparators[0])
                        rest = blk[i + 1:]
                        new_rest = []
                        for s_ in rest:
                            if isinstance(s_, ast.Assign) and len(s_.targets) == 1:
                                tg, val = s_.targets[0], s_.value
                                if isinstance(tg, ast.Tuple) and isinstance(val, ast.Tuple) and len(tg.elts) == len(val.elts):
                                    keep = [(t_, v_) for t_, v_ in zip(tg.elts, val.elts) if _chain(t_) not in (slot_k, slot_v)]
                                    if len(keep) != len(tg.elts):
                                        if keep:
                                            new_rest.append(ast.Assign(targets=[ast.Tuple(elts=[k_[0] for k_ in keep], ctx=ast.Store())],
                                                                       value=ast.Tuple(elts=[k_[1] for k_ in keep], ctx=ast.Load())))
                                        continue
                                elif _chain(tg) in (slot_k, slot_v):
                                    continue
                            new_rest.append(s_)
                        blk[i:] = new_rest
                    elif m.shape == 'D1' and isinstance(st, ast.If):
                        # the miss branch runs always, into a local; later reads of D[K] read the local
                        self.counter += 1
                        tmp = '__memo%d' % self.counter
                        body = []
                        for s_ in st.body:
                            ss = _sub_store(s_, m.store)
                            if ss is not None and _same(ss[1], m.key):
                                body.append(ast.Assign(targets=[ast.Name(id=tmp, ctx=ast.Store())], value=ss[2]))
                            else:
                                body.append(s_)
                        key_dump = ast.dump(m.key)

                        class R(ast.NodeTransformer):
                            def visit_Subscript(self_, n):
                                n = self_.generic_visit(n)
                                if isinstance(n.ctx, ast.Load) and _chain(n.value) == m.store and ast.dump(n.slice) == key_dump:
                                    return ast.Name(id=tmp, ctx=ast.Load())
                                return n
                        blk[i:] = body + [R().visit(x) for x in blk[i + 1:]]
                    elif m.shape == 'D2' and isinstance(st, ast.Try):
                        h = st.handlers[0]
                        body = [s_ for s_ in h.body if not (_sub_store(s_, m.store) is not None and _same(_sub_store(s_)[1], m.key))]
                        blk[i:i + 1] = body
                    elif m.shape in ('D3', 'A') and i + 1 < len(blk) and isinstance(blk[i + 1], ast.If):
                        nxt = blk[i + 1]
                        body = []
                        for s_ in nxt.body:
                            if m.shape == 'D3' and _sub_store(s_, m.store) is not None and _same(_sub_store(s_)[1], m.key):
                                continue
                            if m.shape == 'A' and isinstance(s_, ast.Expr) and isinstance(s_.value, ast.Call) and \
                                    isinstance(s_.value.func, ast.Name) and s_.value.func.id == 'setattr':
                                continue
                            body.append(s_)
                        blk[i:i + 2] = body
                    else:
                        continue
                    self.stats['memo_elision'] = self.stats.get('memo_elision', 0) + 1
                    break
        for x in ast.walk(fnode):
            pass
        ast.fix_missing_locations(fnode)

    # ------------------------------------------------------------------ 1c. checks that hand their argument back
    def _guard_functions(self):
        """{function key: parameter name} for new helper functions that return one of their parameters unchanged on every
        returning path (``def check(name, value, code): ...raise...; return value``): a call of one is its argument, evaluated
        after the check ran"""
        got = getattr(self, '_guards', None)
        if got is None:
            got = {}
            for fi in self.repo.all_functions():
                if fi.parent is not None or not self.repo.is_helper(fi) or fi.kind not in ('function', 'staticmethod'):
                    continue
                a = fi.node.args
                if a.vararg or a.kwarg or a.posonlyargs:
                    continue
                rets = [n for n in ast.walk(fi.node) if isinstance(n, ast.Return)]
                if not rets or any(isinstance(n, (ast.Yield, ast.YieldFrom, ast.Lambda, ast.FunctionDef)) and n is not fi.node for n in ast.walk(fi.node)):
                    continue
                names = {n.value.id if isinstance(n.value, ast.Name) else None for n in rets}
                if len(names) != 1 or None in names:
                    continue
                p = names.pop()
                if p not in [x.arg for x in a.args + a.kwonlyargs]:
                    continue
                if any(isinstance(n, ast.Name) and n.id == p and isinstance(n.ctx, (ast.Store, ast.Del)) for n in ast.walk(fi.node)):
                    continue
                if not any(isinstance(n, ast.Raise) for n in ast.walk(fi.node)):
                    continue
                got[fi.key] = p
            self._guards = got
        return got

    def _guard_identity(self, fnode, cls, local):
        """``x = check('name', v, 'H')`` -> ``check('name', v, 'H'); x = v`` for the functions of _guard_functions, when ``v`` is a
        plain name / attribute chain / constant and nothing with an effect is evaluated before the call in its statement"""
        from .srcmodel import FuncRef
        guards = self._guard_functions()
        if not guards:
            return
        me = self

        def guard_arg(call):
            try:
                r = me.repo.resolve_expr(call.func, me.m) if not isinstance(call.func, ast.Name) else me.repo.resolve_name(call.func.id, me.m)
            except Exception:
                return None
            if isinstance(call.func, ast.Name) and call.func.id in local:
                return None
            if not isinstance(r, FuncRef):
                return None
            key = '%s:%s' % (r.module, r.qualname)
            p = guards.get(key)
            if p is None:
                return None
            try:
                fi = me.repo.func(r.module, r.qualname)
            except Exception:
                return None
            if fi.node is fnode:
                return None
            params = [x.arg for x in fi.node.args.args]
            if any(isinstance(a, ast.Starred) for a in call.args) or any(k.arg is None for k in call.keywords):
                return None
            arg = None
            if p in params and params.index(p) < len(call.args):
                arg = call.args[params.index(p)]
            for k in call.keywords:
                if k.arg == p:
                    arg = k.value
            if arg is None or not _is_simple_or_const(arg):
                return None
            return arg

        for blk in _blocks(fnode):
            i = 0
            while i < len(blk):
                st = blk[i]
                i += 1
                if not isinstance(st, _SIMPLE_STMTS) or (isinstance(st, ast.Expr) and isinstance(st.value, ast.Call) and guard_arg(st.value) is not None):
                    continue
                calls = _calls_in_order(st)
                hoisted = []
                for c_ in calls:
                    arg = guard_arg(c_)
                    if arg is None:
                        break            # something else runs before any later guard: leave those where they are
                    if not all(_is_simple_or_const(a) for a in c_.args) or not all(_is_simple_or_const(k.value) for k in c_.keywords):
                        break
                    hoisted.append((c_, arg))
                if not hoisted:
                    continue

                class R(ast.NodeTransformer):
                    def visit_Call(self_, n):
                        for c_, arg in hoisted:
                            if n is c_:
                                return copy.deepcopy(arg)
                        return self_.generic_visit(n)
                pre = []
                for c_, _arg in hoisted:
                    e_ = ast.Expr(value=copy.deepcopy(c_))
                    ast.copy_location(e_, st)
                    ast.fix_missing_locations(e_)
                    pre.append(e_)
                new_st = R().visit(st)
                ast.fix_missing_locations(new_st)
                blk[i - 1:i] = pre + [new_st]
                i += len(pre)
                me.stats['guard_identity'] = me.stats.get('guard_identity', 0) + len(pre)

    # ------------------------------------------------------------------ 1. helpers
    def _helper_of(self, call: ast.Call, cls):
        """FuncInfo of the helper this call invokes, with the receiver binding, or None."""
        from .srcmodel import ClassRef, FuncRef, NotConst
        fn = call.func
        fi = None
        recv = None
        if isinstance(fn, ast.Name):
            f0 = self.m.functions.get(fn.id)
            if f0 is not None:
                fi = f0
        elif isinstance(fn, ast.Attribute) and isinstance(fn.value, ast.Name) and fn.value.id in ('self', 'cls') \
                and cls is not None:
            f0 = cls.find_method(fn.attr)
            if f0 is not None and f0.module is self.m and f0.kind in ('method', 'staticmethod', 'classmethod'):
                # overriding in a subclass would make the static target wrong
                if not any(fn.attr in c.methods and c is not f0.cls for c in self.repo.subclasses(f0.cls)):
                    if f0.kind == 'method' and fn.value.id == 'self':
                        fi, recv = f0, fn.value
                    elif f0.kind == 'classmethod' and fn.value.id == 'cls':
                        fi, recv = f0, fn.value
                    elif f0.kind == 'staticmethod':
                        fi = f0
        elif isinstance(fn, ast.Attribute) and _is_simple(fn.value) and isinstance(fn.value, ast.Attribute) \
                and self._receiver_class(fn.value, cls, set()) is not None \
                and self.repo.is_helper_class(self._receiver_class(fn.value, cls, set())):
            # ``self.field.m(..)`` where the field only ever holds instances of one new class: the method of that class
            k = self._receiver_class(fn.value, cls, set())
            f0 = k.find_method(fn.attr)
            if f0 is not None and f0.module is self.m and f0.kind == 'method' \
                    and not any(fn.attr in c.methods and c is not f0.cls for c in self.repo.subclasses(f0.cls)):
                fi, recv = f0, fn.value
        elif isinstance(fn, ast.Attribute):
            try:
                r = self.repo.resolve_expr(fn, self.m)
            except NotConst:
                r = None
            except Exception:
                r = None
            if isinstance(r, FuncRef) and r.module == self.m.name:
                try:
                    f0 = self.repo.func(r.module, r.qualname)
                except Exception:
                    f0 = None
                if f0 is not None and f0.kind in ('function', 'staticmethod') and f0.parent is None:
                    fi = f0
                elif f0 is not None and f0.kind == 'classmethod' and f0.parent is None and _is_pure(f0):
                    fi, recv = f0, fn.value           # ``Class.factory(...)``: cls is the class named at the call
            elif isinstance(r, FuncRef) and r.module in self.repo.modules:
                # a helper of another module: only when it is a single expression whose free names mean the same here
                try:
                    f0 = self.repo.func(r.module, r.qualname)
                except Exception:
                    f0 = None
                if f0 is not None and f0.parent is None and self.repo.is_helper(f0) and _is_pure(f0) \
                        and f0.kind in ('function', 'staticmethod', 'classmethod') and self._portable(f0):
                    fi = f0
                    if f0.kind == 'classmethod':
                        recv = fn.value
                elif f0 is not None and f0.parent is None and f0.cls is None and self.repo.is_helper(f0) and f0.kind == 'function':
                    # any other module-level helper of another module: a copy of it whose free names are written the way
                    # this module would write them (``negotiation.STEP``, a constant's value, an import taken over)
                    fi = self._ported(f0, fn.value)
        if fi is None and isinstance(fn, ast.Name) and fn.id in self.m.imports and fn.id not in self.m.functions:
            try:
                r = self.repo.resolve_name(fn.id, self.m)
            except Exception:
                r = None
            if isinstance(r, FuncRef) and r.module in self.repo.modules and r.module != self.m.name:
                try:
                    f0 = self.repo.func(r.module, r.qualname)
                except Exception:
                    f0 = None
                if f0 is not None and f0.parent is None and f0.cls is None and self.repo.is_helper(f0) and f0.kind == 'function':
                    fi = self._ported(f0, None)
        if fi is None and isinstance(fn, ast.Name):
            # a function defined inside the function being normalised (a closure over its locals), introduced after the
            # inventory was frozen: its body can stand where it is called as long as nothing rebinds what it closes over
            nf = self._nested_helper(fn.id)
            if nf is not None:
                return nf, None
        if fi is None or not (self.repo.is_helper(fi) or fi.key in getattr(self, 'force_helpers', ())):
            return None
        return fi, recv

    def _drop_unused_nested(self, fnode, cls, local):
        """a nested helper whose every call was expanded in place is gone (its yields / returns are not the function's)"""
        cache = self.__dict__.get('_nested_cache', {})
        for st in list(_body(fnode)):
            if isinstance(st, ast.FunctionDef) and (id(fnode), st.name) in cache \
                    and not any(isinstance(n, ast.Name) and n.id == st.name and isinstance(n.ctx, ast.Load) for n in ast.walk(fnode)):
                fnode.body.remove(st)

    def _nested_helper(self, name: str):
        from .oracles.inventory import FUNCTIONS
        from .srcmodel import FuncInfo
        cur = getattr(self, '_cur_fnode', None)
        if cur is None:
            return None
        defs = [st for st in _body(cur) if isinstance(st, ast.FunctionDef) and st.name == name]
        if len(defs) != 1:
            return None
        d = defs[0]
        if d.decorator_list or any(isinstance(n, (ast.Nonlocal, ast.Global, ast.Lambda, ast.ClassDef)) for n in ast.walk(d)) \
                or any(isinstance(n, ast.FunctionDef) and n is not d for n in ast.walk(d)):
            return None
        # pinned nested functions (``iter_items`` of the decoders) keep their form: the rules were confirmed on it
        owner = None
        for fi0 in self.repo.all_functions():
            if fi0.node is cur:
                owner = fi0
                break
        if owner is None or ('%s.%s' % (owner.key, name)) in FUNCTIONS:
            return None
        # the name is bound by this def only, and used only in calls
        for n in ast.walk(cur):
            if isinstance(n, ast.Name) and n.id == name and isinstance(n.ctx, (ast.Store, ast.Del)):
                return None
        loads = [n for n in ast.walk(cur) if isinstance(n, ast.Name) and n.id == name and isinstance(n.ctx, ast.Load)]
        calls = [n for n in ast.walk(cur) if isinstance(n, ast.Call) and isinstance(n.func, ast.Name) and n.func.id == name]
        if len(loads) != len(calls):
            return None
        # what it closes over is bound before the definition only (parameters, or locals assigned once above it)
        own = {a.arg for a in d.args.args + d.args.kwonlyargs} | _bound_names(d)
        free = {n.id for n in ast.walk(d) if isinstance(n, ast.Name) and isinstance(n.ctx, ast.Load)} - own
        params = {a.arg for a in cur.args.args + cur.args.kwonlyargs}
        for v in free:
            if v in params:
                if any(isinstance(n, ast.Name) and n.id == v and isinstance(n.ctx, (ast.Store, ast.Del)) for n in ast.walk(cur)):
                    return None
                continue
            stores = [n for n in ast.walk(cur) if isinstance(n, ast.Name) and n.id == v and isinstance(n.ctx, (ast.Store, ast.Del))]
            if not stores:
                continue       # module-level name / builtin
            if len(stores) != 1 or getattr(stores[0], 'lineno', 0) >= d.lineno:
                return None
        key = (id(cur), name)
        cache = self.__dict__.setdefault('_nested_cache', {})
        if key not in cache:
            cache[key] = FuncInfo(self.m, None, name, d, 'function', None)
        return cache[key]

    def _ported(self, f0, modexpr):
        """the module-level helper ``f0`` of another module as this module would have to write it, or None: parameters and
        locals stay; a free name that means the same in both modules stays; a constant of the other module becomes its
        value; its functions, classes and tables are reached through the module (``modexpr``, or a name this module already
        has for it); an import of the other module that this module lacks is taken over into this module's model"""
        import builtins
        from .srcmodel import FuncInfo, ModRef
        cache = self.__dict__.setdefault('_ported_cache', {})
        key = (f0.key, ast.unparse(modexpr) if modexpr is not None else None)
        if key in cache:
            return cache[key]
        cache[key] = None
        other = f0.module
        if any(isinstance(x, (ast.FunctionDef, ast.AsyncFunctionDef, ast.ClassDef, ast.Global, ast.Nonlocal)) and x is not f0.node
               for x in ast.walk(f0.node)) or f0.node.decorator_list:
            return None
        if modexpr is None:
            for k_, v_ in self.m.imports.items():
                if isinstance(v_, ModRef) and v_.name == other.name:
                    modexpr = ast.Name(id=k_, ctx=ast.Load())
                    break
        node = copy.deepcopy(f0.node)
        bound = _bound_names(node)
        take_over = {}
        me = self
        fail = [False]

        def known(m_, n_):
            return n_ in m_.assigns or n_ in m_.imports or n_ in m_.functions or n_ in m_.classes

        class P(ast.NodeTransformer):
            def visit_Name(self_, x):
                if x.id in bound or not isinstance(x.ctx, ast.Load):
                    return x
                here, there = known(me.m, x.id), known(other, x.id)
                if not there:
                    if here or not hasattr(builtins, x.id):
                        fail[0] = True
                    return x
                if here:
                    try:
                        if me.repo.resolve_name(x.id, me.m) == me.repo.resolve_name(x.id, other):
                            return x
                    except Exception:
                        pass
                if x.id in other.assigns:
                    vals = other.assigns[x.id]
                    if len(vals) == 1 and isinstance(vals[0], ast.Constant):
                        return ast.copy_location(ast.Constant(value=vals[0].value), x)
                if x.id in other.assigns or x.id in other.functions or x.id in other.classes:
                    if modexpr is None:
                        fail[0] = True
                        return x
                    return ast.copy_location(ast.Attribute(value=copy.deepcopy(modexpr), attr=x.id, ctx=ast.Load()), x)
                # an import of the other module
                if here and x.id not in take_over:
                    fail[0] = True
                    return x
                take_over[x.id] = other.imports[x.id]
                return x

        node = P().visit(node)
        if fail[0]:
            return None
        for k_, v_ in take_over.items():
            self.m.imports.setdefault(k_, v_)
        node.name = 'ported_%s_%s' % (other.name, f0.name)
        ast.fix_missing_locations(node)
        out = FuncInfo(module=self.m, cls=None, name=node.name, node=node, kind='function')
        cache[key] = out
        return out

    def _portable_body(self, fi) -> bool:
        """does every free name of the function's body mean in this module what it means where the function lives?"""
        import builtins
        params = {a.arg for a in fi.node.args.args + fi.node.args.kwonlyargs}
        if fi.node.args.vararg:
            params.add(fi.node.args.vararg.arg)
        if fi.node.args.kwarg:
            params.add(fi.node.args.kwarg.arg)
        bound = set(params)
        for st in _body(fi.node):
            bound |= _bound_names(st)
        other = fi.module
        for st in _body(fi.node):
            for x in ast.walk(st):
                if isinstance(x, ast.Name) and x.id not in bound:
                    known_here = x.id in self.m.assigns or x.id in self.m.imports or x.id in self.m.functions or x.id in self.m.classes
                    known_there = x.id in other.assigns or x.id in other.imports or x.id in other.functions or x.id in other.classes
                    if not known_here and not known_there and hasattr(builtins, x.id):
                        continue
                    try:
                        if self.repo.resolve_name(x.id, self.m) != self.repo.resolve_name(x.id, other):
                            return False
                    except Exception:
                        return False
                elif isinstance(x, (ast.Lambda, ast.FunctionDef, ast.ClassDef, ast.Global, ast.Nonlocal)):
                    return False
        return True

    def _portable(self, fi) -> bool:
        """does every free name of the helper's single expression mean in this module what it means where the helper lives?"""
        import builtins
        body = _body(fi.node)
        if len(body) != 1 or not isinstance(body[0], ast.Return) or body[0].value is None:
            return False
        params = {a.arg for a in fi.node.args.args}
        other = fi.module
        for x in ast.walk(body[0].value):
            if isinstance(x, ast.Name) and x.id not in params:
                if isinstance(x.ctx, ast.Store):
                    return False
                known_here = x.id in self.m.assigns or x.id in self.m.imports or x.id in self.m.functions or x.id in self.m.classes
                known_there = x.id in other.assigns or x.id in other.imports or x.id in other.functions or x.id in other.classes
                if not known_here and not known_there and hasattr(builtins, x.id):
                    continue
                try:
                    if self.repo.resolve_name(x.id, self.m) != self.repo.resolve_name(x.id, other):
                        return False
                except Exception:
                    return False
            elif isinstance(x, (ast.Lambda, ast.ListComp, ast.SetComp, ast.DictComp, ast.GeneratorExp)):
                return False
        return True

    def _inlinable(self, fi) -> bool:
        node = fi.node
        a = node.args
        if a.kwonlyargs:
            return False
        # ``**fields`` that is only read (spread into a display, looked up, iterated) is the dict of the surplus keywords of the call
        if a.kwarg and any(isinstance(n, ast.Name) and n.id == a.kwarg.arg and isinstance(n.ctx, (ast.Store, ast.Del)) or
                           isinstance(n, ast.Call) and isinstance(n.func, ast.Attribute) and isinstance(n.func.value, ast.Name)
                           and n.func.value.id == a.kwarg.arg and n.func.attr in ('pop', 'update', 'setdefault', 'clear', 'popitem')
                           or isinstance(n, ast.Subscript) and isinstance(n.ctx, (ast.Store, ast.Del)) and isinstance(n.value, ast.Name)
                           and n.value.id == a.kwarg.arg for n in ast.walk(node)):
            return False
        if a.vararg and any(isinstance(n, ast.Name) and n.id == a.vararg.arg and isinstance(n.ctx, (ast.Store, ast.Del)) for n in ast.walk(node)):
            return False
        for d in node.decorator_list:
            if ast.unparse(d) not in ('staticmethod', 'classmethod') and not self.repo.cached_value_factory(fi):
                return False
        body = _body(node)
        if not body:
            return False
        rets = []
        for st in body:
            for n in ast.walk(st):
                if isinstance(n, (ast.Yield, ast.YieldFrom, ast.Await, ast.FunctionDef, ast.AsyncFunctionDef,
                                  ast.ClassDef, ast.Global, ast.Nonlocal, ast.Lambda)):
                    return False
                if isinstance(n, ast.Return):
                    rets.append(n)
                if isinstance(n, ast.Call):
                    f = n.func
                    if (isinstance(f, ast.Name) and f.id == fi.name) or (isinstance(f, ast.Attribute) and f.attr == fi.name):
                        return False
        if len(rets) > 1 or (rets and rets[0] is not body[-1]):
            return False
        return True

    def _caller_default_none(self, arg) -> bool:
        """the argument is a parameter of the calling function that defaults to None itself (its "not given" is handed on)"""
        cur = getattr(self, '_cur_fnode', None)
        if cur is None or not isinstance(arg, ast.Name):
            return False
        a_ = cur.args
        names = [x.arg for x in a_.args]
        defaults = dict(zip(names[len(names) - len(a_.defaults):], a_.defaults))
        for x, d in zip(a_.kwonlyargs, a_.kw_defaults):
            if d is not None:
                defaults[x.arg] = d
        d = defaults.get(arg.id)
        return isinstance(d, ast.Constant) and d.value is None

    def _expand(self, fi, recv, call: ast.Call, allow_yield: bool = False):
        """-> (prefix statements, replacement expression) for one call of an inlinable helper, or None."""
        self.counter += 1
        tag = '__h%d_' % self.counter
        node = fi.node
        posonly = [x.arg for x in node.args.posonlyargs]
        params = posonly + [x.arg for x in node.args.args]
        binding: Dict[str, ast.expr] = {}
        if recv is not None:
            binding[params[0]] = recv
            params = params[1:]
        elif fi.kind == 'classmethod':
            return None
        if any(isinstance(x, ast.Starred) for x in call.args) or any(k.arg is None for k in call.keywords):
            return None
        kwname = node.args.kwarg.arg if node.args.kwarg else None
        kw_prefix: List[ast.stmt] = []
        if kwname is not None:
            extra_kw = [k for k in call.keywords if k.arg not in params or k.arg in posonly]
            kw_vals = []
            for k in extra_kw:
                if _is_simple_or_const(k.value) or (isinstance(k.value, ast.Subscript) and _is_simple(k.value.value)):
                    kw_vals.append(k.value)
                else:
                    # evaluated at the call, before the body runs: a local of the expansion holds the value
                    tmp_ = '%skw_%s' % (tag, k.arg)
                    asg_ = ast.Assign(targets=[ast.Name(id=tmp_, ctx=ast.Store())], value=k.value)
                    ast.copy_location(asg_, call)
                    ast.fix_missing_locations(asg_)
                    kw_prefix.append(asg_)
                    kw_vals.append(ast.Name(id=tmp_, ctx=ast.Load()))
            binding[kwname] = ast.Dict(keys=[ast.Constant(value=k.arg) for k in extra_kw], values=kw_vals)
            call = ast.copy_location(ast.Call(func=call.func, args=call.args, keywords=[k for k in call.keywords if k not in extra_kw]), call)
        if any(k.arg in posonly for k in call.keywords):
            return None
        va = node.args.vararg
        if len(call.args) > len(params):
            # ``def f(a, *rest)``: the surplus positional arguments, as the tuple the parameter holds (read-only uses)
            extra = call.args[len(params):]
            if va is None or node.args.kwarg or node.args.kwonlyargs or not all(_is_simple_or_const(x) for x in extra) \
                    or any(isinstance(n, ast.Name) and n.id == va.arg and isinstance(n.ctx, (ast.Store, ast.Del)) for n in ast.walk(node)):
                return None
            binding[va.arg] = ast.Tuple(elts=list(extra), ctx=ast.Load())
        elif va is not None:
            if node.args.kwarg or node.args.kwonlyargs:
                return None
            binding[va.arg] = ast.Tuple(elts=[], ctx=ast.Load())
        for p, x in zip(params, call.args):
            binding[p] = x
        for k in call.keywords:
            if k.arg not in params or k.arg in binding:
                return None
            binding[k.arg] = k.value
        defaults = node.args.defaults
        supplied = set(binding)
        sentinel: Set[str] = set()
        for p, d in zip(params[len(params) - len(defaults):], defaults):
            if p in supplied and isinstance(d, ast.Constant) and d.value is None \
                    and not (isinstance(binding[p], ast.Constant) and binding[p].value is None) \
                    and not self._caller_default_none(binding[p]):
                sentinel.add(p)
            binding.setdefault(p, d)
        if any(p not in binding for p in params):
            return None
        body = copy.deepcopy(_body(node))
        if sentinel:
            # ``def f(x, status=None): if status is not None: ...``: None as default is the "argument not given" marker; at
            # a call that does give the argument, the test reads "given" (assumption recorded in DESIGN: an argument passed
            # explicitly for such a parameter is not None), unless the helper rebinds the parameter first
            rebound = {n.id for st in body for n in ast.walk(st) if isinstance(n, ast.Name) and isinstance(n.ctx, (ast.Store, ast.Del))}
            for st in body:
                for n in ast.walk(st):
                    for fld in ('test',):
                        t = getattr(n, fld, None)
                        if isinstance(t, ast.Compare) and len(t.ops) == 1 and isinstance(t.ops[0], (ast.Is, ast.IsNot)) \
                                and isinstance(t.left, ast.Name) and t.left.id in sentinel and t.left.id not in rebound \
                                and isinstance(t.comparators[0], ast.Constant) and t.comparators[0].value is None:
                            setattr(n, fld, ast.copy_location(ast.Constant(value=isinstance(t.ops[0], ast.IsNot)), t))
                            self.stats['sentinel_tests'] = self.stats.get('sentinel_tests', 0) + 1
        bound = set()
        for st in body:
            bound |= _bound_names(st)
        uses: Dict[str, int] = {}
        for st in body:
            for n in ast.walk(st):
                if isinstance(n, ast.Name) and isinstance(n.ctx, ast.Load):
                    uses[n.id] = uses.get(n.id, 0) + 1
        prefix: List[ast.stmt] = []
        subst: Dict[str, ast.expr] = {}
        rename: Dict[str, str] = {b: tag + b for b in bound}
        for p, x in binding.items():
            simple = _is_simple(x) or _is_getter(x) or _is_partial(x) or (isinstance(x, ast.Tuple) and all(_is_simple_or_const(y) for y in x.elts))
            if p in bound or not (simple or uses.get(p, 0) <= 1 and len(body) == 1):
                tmp = tag + p
                asg = ast.Assign(targets=[ast.Name(id=tmp, ctx=ast.Store())], value=copy.deepcopy(x))
                ast.copy_location(asg, call)
                ast.fix_missing_locations(asg)
                prefix.append(asg)
                rename[p] = tmp
            else:
                subst[p] = x

        class R(ast.NodeTransformer):
            def visit_Name(self, n):
                if n.id in subst and isinstance(n.ctx, ast.Load):
                    return copy.deepcopy(subst[n.id])
                if n.id in rename:
                    return ast.copy_location(ast.Name(id=rename[n.id], ctx=n.ctx), n)
                return n

            def visit_ExceptHandler(self, n):
                if n.name and n.name in rename:
                    n.name = rename[n.name]
                return self.generic_visit(n)
        body = [R().visit(st) for st in body]
        # the moved statements now execute at the call site: positions (and with them allocation sites and
        # loop membership) are those of the call
        for st in body:
            for n in ast.walk(st):
                if hasattr(n, 'lineno'):
                    n.lineno = call.lineno
                    n.end_lineno = getattr(call, 'end_lineno', call.lineno)
        ret: ast.expr = ast.Constant(value=None)
        if body and isinstance(body[-1], ast.Return):
            last = body.pop()
            if last.value is not None:
                ret = last.value
        ast.copy_location(ret, call)
        return kw_prefix + prefix + body, ret

    # ------------------------------------------------------------------ 1c. generator fusion
    def _fuse_in_function(self, fnode, cls, local):
        """``for T in helper_generator(args): BODY`` becomes the generator's body with every ``yield E`` replaced by
        ``T = E; BODY`` (the consumer runs where the producer yields).  Only when this is exact: the generator yields at
        statement level outside try blocks and has no return, the consumer body has no ``continue`` of its own loop, and a
        ``break`` is allowed only when all yields sit in the generator's final loop."""
        me = self
        caller_key = '%s:%s' % (self.m.name, fnode.name)

        def gen_helper(call):
            if not isinstance(call, ast.Call):
                return None
            h = me._helper_of(call, cls)
            if h is None or h[0].node is fnode:
                return None
            fi = h[0]
            a = fi.node.args
            if a.vararg or a.kwarg or a.kwonlyargs or a.posonlyargs:
                return None
            body = _body(fi.node)
            if not any(isinstance(n, ast.Yield) for st in body for n in ast.walk(st)):
                return None
            if any(isinstance(n, ast.Return) for st in body for n in ast.walk(st)):
                # ``return`` in a generator ends the generation: the statements after an early exit move into the arms that go on
                if any(isinstance(n, ast.Return) and n.value is not None for st in body for n in ast.walk(st)):
                    return None
                nb = _eliminate_returns(copy.deepcopy(body))
                if nb is None:
                    return None
                from .srcmodel import FuncInfo
                node2 = copy.copy(fi.node)
                doc = [x for x in fi.node.body[:1] if isinstance(x, ast.Expr) and isinstance(x.value, ast.Constant) and isinstance(x.value.value, str)]
                node2.body = doc + nb
                fi2 = FuncInfo(fi.module, fi.cls, fi.name, node2, fi.kind, fi.parent)
                fi = fi2
                body = nb
            if any(isinstance(n, (ast.Return, ast.YieldFrom, ast.Global, ast.Nonlocal, ast.Lambda, ast.FunctionDef, ast.ClassDef))
                   for st in body for n in ast.walk(st)):
                return None
            if any(isinstance(n, ast.Call) and ((isinstance(n.func, ast.Name) and n.func.id == fi.name) or
                                                (isinstance(n.func, ast.Attribute) and n.func.attr == fi.name))
                   for st in body for n in ast.walk(st)):
                return None
            yd = _yield_depths(body)
            if not yd or any(in_try for _st, _d, in_try, _l in yd) or any(d > 1 for _st, d, _t, _l in yd):
                return None
            return fi, h[1], yd

        def fuse(st: ast.For, call, assigned_stmt=None):
            g = gen_helper(call)
            if g is None or st.orelse:
                return None
            fi, recv, yd = g
            if _loop_level(st.body, (ast.Continue,)):
                return None
            if _loop_level(st.body, (ast.Break,)) and not all(d == 1 and last for _s, d, _t, last in yd):
                return None
            # bind parameters / rename locals exactly as for ordinary helpers: build a fake helper whose body ends
            # without return, expand it, then splice the consumer in at the yields
            exp = me._expand(fi, recv, call, allow_yield=True)
            if exp is None:
                return None
            gbody, _ret = exp

            class Y(ast.NodeTransformer):
                def visit_FunctionDef(self, n):
                    return n

                def visit_Expr(self, n):
                    if isinstance(n.value, ast.Yield):
                        val = n.value.value if n.value.value is not None else ast.Constant(value=None)
                        asg = ast.Assign(targets=[copy.deepcopy(st.target)], value=val)
                        ast.copy_location(asg, n)
                        out = [asg] + [copy.deepcopy(x) for x in st.body]
                        for x in out:
                            ast.fix_missing_locations(x)
                        return out
                    return n
            new_body = []
            for x in gbody:
                r = Y().visit(x)
                new_body.extend(r if isinstance(r, list) else [r])
            me.stats['fused_generators'] = me.stats.get('fused_generators', 0) + 1
            me.inlined.append((caller_key, fi.key, id(fnode)))
            return new_body

        def single_use_local_call(name: str):
            """the one statement ``name = helper_generator(...)`` of this function if ``name`` is bound once and read once"""
            stores = [n for n in ast.walk(fnode) if isinstance(n, ast.Name) and n.id == name and isinstance(n.ctx, ast.Store)]
            loads = [n for n in ast.walk(fnode) if isinstance(n, ast.Name) and n.id == name and isinstance(n.ctx, ast.Load)]
            if len(stores) != 1 or len(loads) != 1:
                return None
            for n in ast.walk(fnode):
                if isinstance(n, ast.Assign) and len(n.targets) == 1 and n.targets[0] is stores[0] and isinstance(n.value, ast.Call):
                    return n
            return None

        def walk_body(body: List[ast.stmt]) -> List[ast.stmt]:
            out: List[ast.stmt] = []
            for st in body:
                if isinstance(st, (ast.FunctionDef, ast.AsyncFunctionDef, ast.ClassDef)):
                    out.append(st)
                    continue
                for fld in ('body', 'orelse', 'finalbody'):
                    v = getattr(st, fld, None)
                    if isinstance(v, list) and v and isinstance(v[0], ast.stmt):
                        setattr(st, fld, walk_body(v))
                if isinstance(st, ast.Try):
                    for h in st.handlers:
                        h.body = walk_body(h.body)
                if isinstance(st, ast.For):
                    call, asg = st.iter, None
                    if isinstance(call, ast.Name):
                        asg = single_use_local_call(call.id)
                        # only when the binding is an earlier statement of the same block (nothing in between can rebind)
                        call = asg.value if asg is not None and asg in out else None
                    fused = fuse(st, call) if call is not None else None
                    if fused is not None:
                        if asg is not None:
                            out.remove(asg)
                        out.extend(walk_body(fused))
                        continue
                out.append(st)
            return out
        fnode.body = walk_body(fnode.body)

    def _inline_in_function(self, fnode, cls, local):
        me = self
        caller_key = '%s:%s' % (self.m.name, fnode.name)

        def first_helper_call(st_or_expr, pure_only=False):
            for n in _calls_in_order(st_or_expr):
                h = me._helper_of(n, cls)
                if h is None or not me._inlinable(h[0]) or h[0].node is fnode:
                    continue
                if pure_only and not _is_pure(h[0]):
                    continue
                return n, h
            return None

        def replace(root, old, new):
            class RP(ast.NodeTransformer):
                def visit_Call(self, n):
                    if n is old:
                        return new
                    return self.generic_visit(n)
            return RP().visit(root)

        def do_stmt(st) -> List[ast.stmt]:
            # headers of compound statements: only expression-bodied helpers with simple arguments
            if isinstance(st, (ast.If, ast.While)):
                hdr = 'test'
            elif isinstance(st, ast.For):
                hdr = 'iter'
            elif isinstance(st, _SIMPLE_STMTS) or isinstance(st, (ast.Assert, ast.Raise)):
                hdr = None
            else:
                return [st]
            for _ in range(8):
                target = getattr(st, hdr) if hdr else st
                if target is None:
                    break
                hit = first_helper_call(target, pure_only=hdr is not None and not isinstance(st, ast.For))
                if hit is None and isinstance(st, ast.If):
                    # a helper with statements of its own in an ``if`` test: only when its call is the first thing evaluated
                    h2 = first_helper_call(target, pure_only=False)
                    if h2 is not None and _evaluated_first(st.test, h2[0]):
                        hit = h2
                if hit is None:
                    break
                call, (fi, recv) = hit
                exp = me._expand(fi, recv, call)
                if exp is None:
                    break
                pre, ret = exp
                if hdr is not None and pre:
                    # (the source of a ``for`` is evaluated once, before the loop: statements moved in front of it run when
                    # the call would have run)
                    if not ((isinstance(st, ast.If) and _evaluated_first(st.test, call)) or
                            (isinstance(st, ast.For) and _evaluated_first(st.iter, call))):
                        break
                me.stats['inlined_calls'] += 1
                me.inlined.append((caller_key, fi.key, id(fnode)))
                if hdr:
                    setattr(st, hdr, replace(getattr(st, hdr), call, ret))
                else:
                    st = replace(st, call, ret)
                ast.fix_missing_locations(st)
                if pre:
                    for p in pre:
                        ast.fix_missing_locations(p)
                    return walk_body(pre) + do_stmt(st)
            return [st]

        def walk_body(body: List[ast.stmt]) -> List[ast.stmt]:
            out = []
            for st in body:
                if isinstance(st, (ast.FunctionDef, ast.AsyncFunctionDef, ast.ClassDef)):
                    out.append(st)
                    continue
                for fld in ('body', 'orelse', 'finalbody'):
                    v = getattr(st, fld, None)
                    if isinstance(v, list) and v and isinstance(v[0], ast.stmt):
                        setattr(st, fld, walk_body(v))
                if isinstance(st, ast.Try):
                    for h in st.handlers:
                        h.body = walk_body(h.body)
                out.extend(do_stmt(st))
            return out
        fnode.body = walk_body(fnode.body)


def _yield_depths(body: List[ast.stmt]):
    """[(yield statement, loop depth, inside try)] for the statement-level yields of a generator body; None if a yield occurs
    anywhere else (as a sub-expression, ``yield from``)."""
    out = []
    bad = [False]

    def walk(stmts, depth, in_try, top_last_loop):
        for i, st in enumerate(stmts):
            if isinstance(st, ast.Expr) and isinstance(st.value, ast.Yield):
                out.append((st, depth, in_try, top_last_loop))
                if st.value.value is not None and any(isinstance(n, (ast.Yield, ast.YieldFrom)) for n in ast.walk(st.value.value)):
                    bad[0] = True
                continue
            own = [n for n in ast.iter_child_nodes(st) if not isinstance(n, ast.stmt) and not isinstance(n, ast.ExceptHandler)]
            for n in own:
                for x in ast.walk(n):
                    if isinstance(x, (ast.Yield, ast.YieldFrom)):
                        bad[0] = True
            if isinstance(st, (ast.FunctionDef, ast.AsyncFunctionDef, ast.ClassDef)):
                bad[0] = bad[0] or any(isinstance(x, (ast.Yield, ast.YieldFrom)) for x in ast.walk(st)) and False
                continue
            is_loop = isinstance(st, (ast.For, ast.While))
            last_top = top_last_loop if depth > 0 else (is_loop and i == len(stmts) - 1)
            for fld in ('body', 'orelse', 'finalbody'):
                sub = getattr(st, fld, None)
                if isinstance(sub, list) and sub and isinstance(sub[0], ast.stmt):
                    walk(sub, depth + (1 if is_loop and fld == 'body' else 0), in_try or isinstance(st, ast.Try), last_top)
            if isinstance(st, ast.Try):
                for h in st.handlers:
                    walk(h.body, depth, True, last_top)
    walk(body, 0, False, False)
    return None if bad[0] else out


def _loop_level(body: List[ast.stmt], kinds) -> bool:
    """does a statement of one of ``kinds`` (Break / Continue) occur at the level of this loop body (not inside a nested loop)?"""
    for st in body:
        if isinstance(st, kinds):
            return True
        if isinstance(st, (ast.For, ast.While, ast.FunctionDef, ast.AsyncFunctionDef, ast.ClassDef)):
            if isinstance(st, (ast.For, ast.While)) and _loop_level(st.orelse, kinds):
                return True
            continue
        for fld in ('body', 'orelse', 'finalbody'):
            sub = getattr(st, fld, None)
            if isinstance(sub, list) and sub and isinstance(sub[0], ast.stmt) and _loop_level(sub, kinds):
                return True
        if isinstance(st, ast.Try):
            for h in st.handlers:
                if _loop_level(h.body, kinds):
                    return True
    return False


def _body(node) -> List[ast.stmt]:
    body = list(node.body)
    if body and isinstance(body[0], ast.Expr) and isinstance(body[0].value, ast.Constant) \
            and isinstance(body[0].value.value, str):
        body = body[1:]
    return body


def _is_pure(fi) -> bool:
    b = _body(fi.node)
    return len(b) == 1 and isinstance(b[0], ast.Return)


def _is_simple(e: ast.expr) -> bool:
    while isinstance(e, ast.Attribute):
        e = e.value
    return isinstance(e, (ast.Name, ast.Constant))


def _is_partial(e) -> bool:
    """``functools.partial(f, a, ..)`` over a plain callable and plain arguments"""
    return isinstance(e, ast.Call) and ast.unparse(e.func) in ('functools.partial', 'partial') and e.args and not e.keywords \
        and all(_is_simple_or_const(a) for a in e.args)


def _is_getter(e) -> bool:
    """``itemgetter(<constant>)`` / ``attrgetter('<name>')``: a value that may be built again wherever it is used"""
    return isinstance(e, ast.Call) and ast.unparse(e.func) in ('itemgetter', 'operator.itemgetter', 'attrgetter', 'operator.attrgetter') \
        and len(e.args) == 1 and not e.keywords and isinstance(e.args[0], ast.Constant)


def _is_simple_or_const(e) -> bool:
    return isinstance(e, ast.Constant) or _is_simple(e)


def _has_yield(e) -> bool:
    return any(isinstance(n, (ast.Yield, ast.YieldFrom, ast.NamedExpr)) for n in ast.walk(e))


def _calls_in_order(node) -> List[ast.Call]:
    out: List[ast.Call] = []

    def walk(n):
        for ch in ast.iter_child_nodes(n):
            if isinstance(ch, (ast.FunctionDef, ast.AsyncFunctionDef, ast.Lambda, ast.ClassDef,
                               ast.GeneratorExp, ast.ListComp, ast.SetComp, ast.DictComp)):
                continue
            walk(ch)
        if isinstance(n, ast.Call):
            out.append(n)
    walk(node)
    return out


def _evaluated_first(test: ast.expr, call: ast.Call) -> bool:
    """Is ``call`` evaluated unconditionally when ``test`` is (not behind and/or/if-else)?"""
    def find(n) -> bool:
        if n is call:
            return True
        if isinstance(n, ast.BoolOp):
            return find(n.values[0])
        if isinstance(n, ast.IfExp):
            return find(n.test)
        for ch in ast.iter_child_nodes(n):
            if isinstance(ch, (ast.Lambda, ast.GeneratorExp, ast.ListComp, ast.SetComp, ast.DictComp)):
                continue
            if find(ch):
                return True
        return False
    return find(test)


def fused_view(repo, fi, callee_keys):
    """a copy of function ``fi`` in which the generator functions ``callee_keys`` (anchors the load-time pass leaves alone)
    are fused into the loops that consume them: the form a rule about producer and consumer together is stated on"""
    from .srcmodel import FuncInfo
    n = _Normalizer(repo)
    n.m = fi.module
    n.globals_rebound = _global_decls(fi.module.tree)
    n.force_helpers = set(callee_keys)
    node = copy.deepcopy(fi.node)
    n._fuse_in_function(node, fi.cls, _bound_names(node))
    # a producer that is not a generator but returns an iterable it put together (``return zip(pieces, flags)``): its
    # statements in front of the consuming loop, its result as the loop's source
    n._cur_fnode = node
    n._inline_in_function(node, fi.cls, _bound_names(node))
    ast.fix_missing_locations(node)
    out = FuncInfo(fi.module, fi.cls, fi.name, node, fi.kind, fi.parent)
    return out, n.stats.get('fused_generators', 0)


def normalize_repo(repo) -> Dict[str, int]:
    n = _Normalizer(repo)
    n.run()
    repo.normalized_helpers = n.inlined
    return n.stats


def _blocks(fnode):
    """every statement list of the function (not of nested functions / classes)"""
    out = []

    def walk(body):
        out.append(body)
        for st in body:
            if isinstance(st, (ast.FunctionDef, ast.AsyncFunctionDef, ast.ClassDef)):
                continue
            for fld in ('body', 'orelse', 'finalbody'):
                sub = getattr(st, fld, None)
                if isinstance(sub, list) and sub and isinstance(sub[0], ast.stmt):
                    walk(sub)
            for h in getattr(st, 'handlers', []) or []:
                walk(h.body)
            for c in getattr(st, 'cases', []) or []:
                walk(c.body)
    walk(fnode.body)
    return out


def _eliminate_returns(stmts):
    """the statement list with every ``return`` turned into falling off its end: the statements after an ``if`` one of whose arms
    returns move into the arms that do not.  ``return`` inside a loop / ``with``, or in a ``try`` that is followed by further
    statements, is not handled (None)."""
    def has_return(nodes):
        for st in nodes:
            for n in ast.walk(st):
                if isinstance(n, ast.Return):
                    return True
        return False

    def elim(lst):
        """-> (statements, ends: True when control never falls off the end of the list) or None"""
        out = []
        for i, st in enumerate(lst):
            if isinstance(st, ast.Return):
                return out, True
            if isinstance(st, (ast.FunctionDef, ast.AsyncFunctionDef, ast.ClassDef)) or not has_return([st]):
                out.append(st)
                continue
            rest = lst[i + 1:]
            if isinstance(st, ast.If):
                b = elim(st.body)
                o = elim(st.orelse)
                r = elim(rest)
                if b is None or o is None or r is None:
                    return None
                nb = b[0] if b[1] else b[0] + copy.deepcopy(r[0])
                no = o[0] if o[1] else o[0] + copy.deepcopy(r[0])
                new = ast.If(test=st.test, body=nb or [ast.Pass()], orelse=no)
                ast.copy_location(new, st)
                out.append(new)
                return out, (b[1] or r[1]) and (o[1] or r[1])
            if isinstance(st, ast.Try) and not rest:
                parts = []
                for blk in [st.body, st.orelse] + [h.body for h in st.handlers]:
                    e_ = elim(blk)
                    if e_ is None:
                        return None
                    parts.append(e_[0] or [ast.Pass()])
                if has_return(st.finalbody):
                    return None
                # (falling out of the body reaches ``else``; a return there skipped it: only bodies without else are simple)
                if st.orelse and has_return(st.body):
                    return None
                new = ast.Try(body=parts[0], handlers=[ast.ExceptHandler(type=h.type, name=h.name, body=parts[2 + k])
                                                       for k, h in enumerate(st.handlers)],
                              orelse=parts[1] if st.orelse else [], finalbody=st.finalbody)
                ast.copy_location(new, st)
                out.append(new)
                return out, False
            return None
        return out, False
    r = elim(list(stmts))
    if r is None:
        return None
    out = r[0] or [ast.Pass()]
    for x in out:
        ast.fix_missing_locations(x)
    return out
