"""Variant table for selftest.py: one line per edit.  V(property, name, file, old, new, expect, count, rule)"""
from .selftest import Variant as V

VARIANTS = [
    # ---- C06
    V('C06', 'width -6 -> -5 (bytes)', 'dimsemessages.py', "    maxsize = (max_pdu_length or NO_LIMIT_PDU_LENGTH) - 6\n    for chunk", "    maxsize = (max_pdu_length or NO_LIMIT_PDU_LENGTH) - 5\n    for chunk", rule='C06.S1'),
    V('C06', 'width -6 -> -7 (file)', 'dimsemessages.py', "    maxsize = (max_pdu_length or NO_LIMIT_PDU_LENGTH) - 6\n    while True", "    maxsize = (max_pdu_length or NO_LIMIT_PDU_LENGTH) - 7\n    while True", rule='C06.S1'),
    V('C06', 'chunks < -> <=', 'dimsemessages.py', "(pos + size < length)", "(pos + size <= length)", rule='C06.S3'),
    V('C06', 'chunks stride', 'dimsemessages.py', "range(0, length, size)", "range(0, length, size + 1)", rule='C06.S2'),
    V('C06', 'command flags swapped', 'dimsemessages.py', "max_pdu_length, 1, 3)", "max_pdu_length, 3, 1)", rule='C06.S4'),
    V('C06', 'data flags wrong', 'dimsemessages.py', "gen = fragment(self.data_set, max_pdu_length, 0, 2)", "gen = fragment(self.data_set, max_pdu_length, 1, 2)", rule='C06.S4'),
    V('C06', 'constant context id', 'dimsemessages.py', "pdu.PresentationDataValueItem(pc_id, struct.pack('b', bit) + item)\n            yield pdu.PDataTfPDU([value_item])\n\n", "pdu.PresentationDataValueItem(1, struct.pack('b', bit) + item)\n            yield pdu.PDataTfPDU([value_item])\n\n", rule='C06.S5'),
    V('C06', 'file: no push back', 'dimsemessages.py', "        if has_next:\n            fp.seek(-1, 1)\n", "        if has_next:\n            pass\n", rule='C06.S3'),
    V('C06', 'flag mapping inverted', 'dimsemessages.py', "        yield chunk, normal if has_next else last\n\n\ndef fragment_file", "        yield chunk, last if has_next else normal\n\n\ndef fragment_file", rule='C06.S3'),
    V('C06', 'send passes ae limit', 'asceprovider.py', "dimse_msg.encode(pc_id, self.max_pdu_length)", "dimse_msg.encode(pc_id, self.ae.max_pdu_length)", rule='C06.S7'),
    V('C06', 'silent: x < y -> y > x', 'dimsemessages.py', "(pos + size < length)", "(length > pos + size)", expect='silent'),
    V('C06', 'silent: rename local', 'dimsemessages.py', "    maxsize = (max_pdu_length or NO_LIMIT_PDU_LENGTH) - 6\n    for chunk, has_next in chunks(data_set, maxsize):", "    width = (max_pdu_length or NO_LIMIT_PDU_LENGTH) - 6\n    for chunk, has_next in chunks(data_set, width):", expect='silent'),
    # ---- C07
    V('C07', 'completion or -> and', 'fsm.py', "if no_ds or self.data_set_received:", "if no_ds and self.data_set_received:", rule='C07.D3'),
    V('C07', 'last command marker 3 -> 1', 'fsm.py', "                    if marker == 3:", "                    if marker == 1:", rule='C07.D3'),
    V('C07', 'data completion ignores command', 'fsm.py', "                        if self.command_set_received:\n                            self.receiving = False", "                        if True:\n                            self.receiving = False", rule='C07.D3'),
    V('C07', 'strip two bytes', 'fsm.py', "self._encoded_data_set.append(value_item.data_value[1:])", "self._encoded_data_set.append(value_item.data_value[2:])", rule='C07.D2'),
    V('C07', 'delivery guard inverted', 'fsm.py', "        if not self.dimse_decoder.receiving:", "        if self.dimse_decoder.receiving:", count=2, rule='C07.D4'),
    V('C07', 'no decoder reset', 'fsm.py', "            self.to_service_user.put((msg, pc_id))\n            self.dimse_decoder = None", "            self.to_service_user.put((msg, pc_id))", count=2, rule='C07.D4'),
    V('C07', 'MESSAGE_TYPE wrong class', 'dimsemessages.py', "    0x8001: CStoreRSPMessage,", "    0x8001: CStoreRQMessage,", rule='C07.D5'),
    V('C07', 'extra marker accepted', 'fsm.py', "elif marker in (0, 2):", "elif marker in (0, 2, 4):", rule='C07.D1'),
    V('C07', 'file not rewound to start', 'fsm.py', "self._dataset_fp.seek(self._start)", "self._dataset_fp.seek(0)", rule='C07.D6'),
    V('C07', 'no_ds compared with wrong constant', 'fsm.py', ".value == 0x0101", ".value == 0x0001", rule='C07.D5'),
    V('C07', 'silent: marker tuple as list', 'fsm.py', "if marker in (1, 3):", "if marker in [1, 3]:", expect='silent'),
    # ---- C18
    V('C18', 'range end exclusive', 'statuses.py', "code_range = range(code, end + 1)", "code_range = range(code, end)", rule='C18.W1'),
    V('C18', 'general/specific swapped', 'statuses.py', "    if command is None:\n        for _code in code_range:\n            _general_status_dict[_code] = status", "    if command is not None:\n        for _code in code_range:\n            _general_status_dict[_code] = status"),
    V('C18', 'lookup prefers general', 'statuses.py', "        if command:\n            status = _status_dict.get((command.command_field, value))\n        if not status:\n            status = _general_status_dict.get(value, UNKNOWN)", "        status = _general_status_dict.get(value)\n        if not status and command:\n            status = _status_dict.get((command.command_field, value))\n        if not status:\n            status = UNKNOWN", rule='C18.W2'),
    V('C18', 'UNKNOWN is a warning', 'statuses.py', "UNKNOWN = s('Failure', 'Unknown Status')", "UNKNOWN = s('Warning', 'Unknown Status')", rule='C18.W3'),
    V('C18', 'FF01 not pending', 'statuses.py', "(0xFF01, 'Pending',", "(0xFF01, 'Warning',", rule='C18.W3'),
    V('C18', 'typo in a type', 'statuses.py', "(0x0213, 'Failure', 'Resource Limitation', None),", "(0x0213, 'Failed', 'Resource Limitation', None),", rule='C18.W3'),
    V('C18', 'two flags share a literal', 'statuses.py', "self.is_cancel = self.status_type == 'Cancel'", "self.is_cancel = self.status_type == 'Failure'", rule='C18.W2'),
    V('C18', 'int returns type', 'statuses.py', "        return int(self._value)", "        return int(self._value) & 0xFF", rule='C18.W2'),
    V('C18', 'register swaps end and code', 'statuses.py', "add_status(code, code_type, desc, end, command)", "add_status(end, code_type, desc, code, command)", rule='C18.W1'),
    V('C18', 'success row removed', 'statuses.py', "    (0x0000, 'Success', '', None),\n", "", rule='C18.W3'),
    V('C18', 'silent: reorder two rows', 'statuses.py', "    (0x0105, 'Failure', 'No Such Attribute', None),\n    (0x0106, 'Failure', 'Invalid Attribute Value', None),\n", "    (0x0106, 'Failure', 'Invalid Attribute Value', None),\n    (0x0105, 'Failure', 'No Such Attribute', None),\n", expect='silent'),
    V('C18', 'silent: description edit', 'statuses.py', "'Refused: Move Destination unknown', dimse.CMoveRSPMessage),", "'Refused: Move destination unknown', dimse.CMoveRSPMessage),", expect='silent'),
    # ---- C09
    V('C09', 'continue removed after refusal', 'asceprovider.py', "                rsp.append(pdu.PresentationContextItemAC(pc_id, 1, pdu.TransferSyntaxSubItem('')))\n                continue\n", "                rsp.append(pdu.PresentationContextItemAC(pc_id, 1, pdu.TransferSyntaxSubItem('')))\n", rule='C09.N1'),
    V('C09', 'break removed after accept', 'asceprovider.py', "                    self.accepted_contexts[pc_id] = PContextDef(pc_id, proposed_sop, ts_uid)\n                    break\n", "                    self.accepted_contexts[pc_id] = PContextDef(pc_id, proposed_sop, ts_uid)\n"),
    V('C09', 'membership test inverted', 'asceprovider.py', "if proposed_sop not in self.ae.supported_scp:", "if proposed_sop in self.ae.supported_scp:", rule='C09.N2'),
    V('C09', 'accept answers result 1', 'asceprovider.py', "rsp.append(pdu.PresentationContextItemAC(pc_id, 0, ts))", "rsp.append(pdu.PresentationContextItemAC(pc_id, 1, ts))"),
    V('C09', 'scp test against scu table', 'asceprovider.py', "if proposed_sop not in self.ae.supported_scp:", "if proposed_sop not in self.ae.supported_scu:", rule='C09.N2'),
    V('C09', 'returns first proposed ts regardless', 'asceprovider.py', "rsp.append(pdu.PresentationContextItemAC(pc_id, 0, ts))", "rsp.append(pdu.PresentationContextItemAC(pc_id, 0, proposed_ts[0]))", rule='C09.N3'),
    V('C09', 'routing keyed by constant', 'asceprovider.py', "self.sop_classes_as_scp[pc_id] = (pc_id, proposed_sop, ts_uid)", "self.sop_classes_as_scp[1] = (pc_id, proposed_sop, ts_uid)", rule='C09.N4'),
    V('C09', 'called/calling swapped in reply', 'asceprovider.py', "            called_ae_title=assoc_req.called_ae_title,\n            calling_ae_title=assoc_req.calling_ae_title,", "            called_ae_title=assoc_req.calling_ae_title,\n            calling_ae_title=assoc_req.called_ae_title,", rule='C09.N5'),
    V('C09', 'refusal without answer', 'asceprovider.py', "            else:  # Refuse sop class because of TS not supported\n                rsp.append(\n                    pdu.PresentationContextItemAC(pc_id, 1, pdu.TransferSyntaxSubItem(''))\n                )\n", "            else:  # Refuse sop class because of TS not supported\n                pass\n", rule='C09.N1'),
    V('C09', 'provider table not set', 'asceprovider.py', "        self.dul.accepted_contexts = self.accepted_contexts\n\n        rsp.append(user_items)", "        rsp.append(user_items)", rule='C09.N4'),
    V('C09', 'loop serves with wrong context id', 'asceprovider.py', "service(self, PContextDef(pc_id, sop_class, ts), dimse_msg)", "service(self, PContextDef(1, sop_class, ts), dimse_msg)", rule='C09.N4'),
    V('C09', 'silent: refusal result 3', 'asceprovider.py', "                rsp.append(pdu.PresentationContextItemAC(pc_id, 1, pdu.TransferSyntaxSubItem('')))\n                continue\n", "                rsp.append(pdu.PresentationContextItemAC(pc_id, 3, pdu.TransferSyntaxSubItem('')))\n                continue\n", expect='silent'),
    # ---- C10
    V('C10', 'acceptor drops zero test', 'asceprovider.py', "if peer_max and (self.max_pdu_length > peer_max or not self.max_pdu_length):", "if self.max_pdu_length > peer_max or not self.max_pdu_length:", rule='C10.X1'),
    V('C10', 'requester drops zero test', 'asceprovider.py', "if max_pdu_length and (self.max_pdu_length > max_pdu_length or not self.max_pdu_length):", "if self.max_pdu_length > max_pdu_length:", rule='C10.X1'),
    V('C10', 'acceptor echoes peer value', 'asceprovider.py', "        max_pdu_sub_item.maximum_length_received = self.max_pdu_length\n", "        max_pdu_sub_item.maximum_length_received = peer_max\n", rule='C10.X2'),
    V('C10', 'fragment ignores zero', 'dimsemessages.py', "    maxsize = (max_pdu_length or NO_LIMIT_PDU_LENGTH) - 6\n    for chunk", "    maxsize = max_pdu_length - 6\n    for chunk", rule='C10.X4'),
    V('C10', 'recv(0)', 'dulprovider.py', "self.dul_socket.recv(self.max_pdu_length or 65536)", "self.dul_socket.recv(self.max_pdu_length)", rule='C10.X4'),
    V('C10', 'adoption comparison inverted', 'asceprovider.py', "if peer_max and (self.max_pdu_length > peer_max or not self.max_pdu_length):", "if peer_max and (self.max_pdu_length < peer_max or not self.max_pdu_length):", rule='C10.X1'),
    V('C10', 'request announces constant', 'asceprovider.py', "userdataitems.MaximumLengthSubItem(self.max_pdu_length)", "userdataitems.MaximumLengthSubItem(65536)", rule='C10.X2'),
    V('C10', 'silent: x > y as y < x', 'asceprovider.py', "if peer_max and (self.max_pdu_length > peer_max or not self.max_pdu_length):", "if peer_max and (peer_max < self.max_pdu_length or not self.max_pdu_length):", expect='silent'),
    # ---- C11
    V('C11', 'id step 1', 'applicationentity.py', "count(start, 2)", "count(start, 1)", rule='C11.Q1'),
    V('C11', 'start +1', 'applicationentity.py', "max(self.context_def_list.keys()) + 2", "max(self.context_def_list.keys()) + 1", rule='C11.Q1'),
    V('C11', 'called/calling swapped', 'asceprovider.py', "            called_ae_title=remote_ae['aet'],\n            calling_ae_title=local_ae['aet'],", "            called_ae_title=local_ae['aet'],\n            calling_ae_title=remote_ae['aet'],", rule='C11.Q2'),
    V('C11', 'accepted filter inverted', 'asceprovider.py', "if ctx.result_reason == 0)", "if ctx.result_reason != 0)", rule='C11.Q3'),
    V('C11', 'scu table keyed by id', 'asceprovider.py', "self.sop_classes_as_scu[sop_class] = (pc_id, ts_uid)", "self.sop_classes_as_scu[pc_id] = (pc_id, ts_uid)", rule='C11.Q3'),
    V('C11', 'get_scu swallows nothing', 'asceprovider.py', "        except KeyError:\n            raise exceptions.ClassNotSupportedError(\n                'SOP Class {} not supported as SCU'.format(sop_class)\n            )", "        except IndexError:\n            raise exceptions.ClassNotSupportedError(\n                'SOP Class {} not supported as SCU'.format(sop_class)\n            )", rule='C11.Q4'),
    V('C11', 'first ts only proposed', 'asceprovider.py', "[pdu.TransferSyntaxSubItem(i) for i in ctx.supported_ts]", "[pdu.TransferSyntaxSubItem(i) for i in list(ctx.supported_ts)[:1]]", rule='C11.Q2'),
    V('C11', 'max length sub-item second', 'asceprovider.py', "user_information = [max_pdu_length_par, implementation_uid] + users_pdu \\\n            if users_pdu else [max_pdu_length_par, implementation_uid]", "user_information = [implementation_uid, max_pdu_length_par] + users_pdu \\\n            if users_pdu else [implementation_uid, max_pdu_length_par]", rule='C11.Q2'),
    # ---- C14
    V('C14', 'reject args swapped', 'asceprovider.py', "self.reject(exc.result, exc.source, exc.diagnostic)", "self.reject(exc.source, exc.result, exc.diagnostic)", rule='C14.J1'),
    V('C14', 'refusal swallowed', 'asceprovider.py', "            self.reject(exc.result, exc.source, exc.diagnostic)\n            raise\n", "            self.reject(exc.result, exc.source, exc.diagnostic)\n            return\n", rule='C14.J1'),
    V('C14', 'RJ pdu args swapped', 'asceprovider.py', "pdu.AAssociateRjPDU(result, source, diag)", "pdu.AAssociateRjPDU(result, diag, source)", rule='C14.J1'),
    V('C14', 'rejected error fields swapped', 'asceprovider.py', "dul_msg.result, dul_msg.source, dul_msg.reason_diag)", "dul_msg.source, dul_msg.result, dul_msg.reason_diag)", rule='C14.J1'),
    V('C14', 'abort mapped to released', 'asceprovider.py', "        if dul_msg.pdu_type == pdu.AAbortPDU.pdu_type:", "        if dul_msg.pdu_type == pdu.AReleaseRpPDU.pdu_type:", rule='C14.J2'),
    V('C14', 'abort fields swapped', 'asceprovider.py', "raise exceptions.AssociationAbortedError(dul_msg.source, dul_msg.reason_diag)", "raise exceptions.AssociationAbortedError(dul_msg.reason_diag, dul_msg.source)", rule='C14.J2'),
    V('C14', 'exception stores swapped', 'exceptions.py', "        self.result = result\n        self.source = source", "        self.result = source\n        self.source = result", rule='C14.J1'),
    V('C14', 'release not answered', 'asceprovider.py', "        except exceptions.AssociationReleasedError:\n            self.dul.send(pdu.AReleaseRpPDU())", "        except exceptions.AssociationReleasedError:\n            pass", rule='C14.J2'),
    V('C14', 'ctx manager: exception releases', 'applicationentity.py', "            if assoc and assoc.association_established:\n                assoc.abort()", "            if assoc and assoc.association_established:\n                assoc.release()", rule='C14.J3'),
    V('C14', 'ctx manager: swallow exception', 'applicationentity.py', "            elif assoc:\n                assoc.kill()\n            raise\n", "            elif assoc:\n                assoc.kill()\n", rule='C14.J3'),
    V('C14', 'ctx manager: normal exit aborts', 'applicationentity.py', "            if assoc.association_established:\n                assoc.release()", "            if assoc.association_established:\n                assoc.abort()", rule='C14.J3'),
    # ---- C15
    V('C15', 'open original name truncating', '__init__.py', "ds = open(full_name, 'x+b')", "ds = open(os.path.join(path, file_name), 'w+b')", rule='C15.V1'),
    V('C15', 'open w+b under computed name w/o check', '__init__.py', "ds = open(full_name, 'x+b')", "ds = open(full_name, 'w+b')", rule='C15.V1'),
    V('C15', 'scp constant status', 'sopclass.py', "    rsp.sop_class_uid = msg.sop_class_uid\n    rsp.status = int(status)\n    asce.send(rsp, ctx.id)\n\n\nFIND_SOP_CLASSES", "    rsp.sop_class_uid = msg.sop_class_uid\n    rsp.status = int(statuses.SUCCESS)\n    asce.send(rsp, ctx.id)\n\n\nFIND_SOP_CLASSES", rule='C15.V2'),
    V('C15', 'scu swaps vr/endian flags', 'sopclass.py', "        ds = dsutils.encode(dataset, ctx.supported_ts.is_implicit_VR,\n                            ctx.supported_ts.is_little_endian)", "        ds = dsutils.encode(dataset, ctx.supported_ts.is_little_endian,\n                            ctx.supported_ts.is_implicit_VR)", rule='C15.V3'),
    V('C15', 'scu returns success always', 'sopclass.py', "    response, _ = asce.receive()\n    return statuses.Status(response.status, dimsemessages.CStoreRSPMessage)", "    response, _ = asce.receive()\n    return statuses.Status(0, dimsemessages.CStoreRSPMessage)", rule='C15.V2'),
    V('C15', 'scu tags wrong instance', 'sopclass.py', "c_store.affected_sop_instance_uid = dataset.SOPInstanceUID", "c_store.affected_sop_instance_uid = dataset.SeriesInstanceUID", rule='C15.V2'),
    V('C15', 'handler gets decoded copy', 'sopclass.py', "status = asce.ae.on_receive_store(ctx, msg.data_set)\n    except exceptions.EventHandlingError:\n        status = statuses.C_STORE_CANNON_UNDERSTAND", "status = asce.ae.on_receive_store(ctx, msg)\n    except exceptions.EventHandlingError:\n        status = statuses.C_STORE_CANNON_UNDERSTAND", rule='C15.V3'),
    # ---- C16
    V('C16', 'response reused across matches', 'sopclass.py', "            rsp = dimsemessages.CFindRSPMessage()\n            rsp.message_id_being_responded_to = msg.message_id\n            rsp.sop_class_uid = msg.sop_class_uid\n            rsp.status = int(status)", "            rsp = shared\n            rsp.status = int(status)", expect='fire'),
    V('C16', 'find scu stops on success only', 'sopclass.py', "        yield data_set, status\n        if not status.is_pending:\n            break", "        yield data_set, status\n        if status.is_success:\n            break", rule='C16.R2'),
    V('C16', 'find scu yields before classify swapped', 'sopclass.py', "        yield data_set, status\n        if not status.is_pending:", "        yield status, data_set\n        if not status.is_pending:", rule='C16.R2'),
    V('C16', 'scp final pending', 'sopclass.py', "    rsp.status = int(final_status)", "    rsp.status = int(statuses.C_FIND_PENDING)", rule='C16.R1'),
    V('C16', 'scp status constant per match', 'sopclass.py', "            rsp.status = int(status)\n            rsp.data_set = dsutils.encode(data_set,", "            rsp.status = int(statuses.C_FIND_PENDING)\n            rsp.data_set = dsutils.encode(data_set,", rule='C16.R1'),
    V('C16', 'worklist scu drops element', 'sopclass.py', "        yield status, data_set\n", "        yield status, None\n", rule='C16.R3'),
    V('C16', 'c_find swaps pair', '__init__.py', "            yield result, status", "            yield status, result", rule='C16.R3'),
    V('C16', 'store scp writes after send', 'sopclass.py', "    rsp.status = int(status)\n    asce.send(rsp, ctx.id)\n\n\nFIND_SOP_CLASSES", "    asce.send(rsp, ctx.id)\n    rsp.status = int(status)\n\n\nFIND_SOP_CLASSES", rule='C16.R4'),
    # ---- C17
    V('C17', 'echo rsp without message id', 'sopclass.py', "    rsp = dimsemessages.CEchoRSPMessage()\n    rsp.message_id_being_responded_to = msg.message_id\n", "    rsp = dimsemessages.CEchoRSPMessage()\n", rule='C17.P2'),
    V('C17', 'store rsp on context 1', 'sopclass.py', "    rsp.status = int(status)\n    asce.send(rsp, ctx.id)\n\n\nFIND_SOP_CLASSES", "    rsp.status = int(status)\n    asce.send(rsp, 1)\n\n\nFIND_SOP_CLASSES", rule='C17.P1'),
    V('C17', 'get scu answers on ctx.id', 'sopclass.py', "            asce.send(rsp, pc_id)", "            asce.send(rsp, ctx.id)", rule='C17.P1'),
    V('C17', 'find rsp wrong class', 'sopclass.py', "    rsp = dimsemessages.CFindRSPMessage()\n    rsp.message_id_being_responded_to = msg.message_id\n    rsp.sop_class_uid = msg.sop_class_uid\n    rsp.status = int(final_status)", "    rsp = dimsemessages.CGetRSPMessage()\n    rsp.message_id_being_responded_to = msg.message_id\n    rsp.sop_class_uid = msg.sop_class_uid\n    rsp.status = int(final_status)", rule='C17.P4'),
    V('C17', 'store handler error status success', 'sopclass.py', "        status = statuses.C_STORE_CANNON_UNDERSTAND", "        status = statuses.SUCCESS", rule='C17.P5'),
    V('C17', 'n_action handler unguarded', 'sopclass.py', "        except exceptions.EventHandlingError:\n            rsp.status = int(statuses.PROCESSING_FAILURE)\n            asce.send(rsp, ctx.id)\n        else:", "        except KeyError:\n            rsp.status = int(statuses.PROCESSING_FAILURE)\n            asce.send(rsp, ctx.id)\n        else:", rule='C17.P5'),
    V('C17', 'n_event_report not answered on error', 'sopclass.py', "            rsp.status = int(statuses.PROCESSING_FAILURE)\n        asce.send(rsp, ctx.id)", "            rsp.status = int(statuses.PROCESSING_FAILURE)\n            return\n        asce.send(rsp, ctx.id)", rule='C17.P6'),
    V('C17', 'store rsp instance from wrong field', 'sopclass.py', "    rsp.affected_sop_instance_uid = msg.affected_sop_instance_uid\n    rsp.sop_class_uid = msg.sop_class_uid\n    rsp.status = int(status)", "    rsp.affected_sop_instance_uid = msg.sop_class_uid\n    rsp.sop_class_uid = msg.sop_class_uid\n    rsp.status = int(status)", rule='C17.P3'),
    V('C17', 'dispatch table swapped', 'sopclass.py', "        0x0130: 'n_action',", "        0x0130: 'n_event_report',"),
    V('C17', 'echo writes unbacked field', 'sopclass.py', "    rsp.sop_class_uid = msg.sop_class_uid\n    rsp.status = int(status)\n    asce.send(rsp, ctx.id)\n\n\n@sop_classes([])", "    rsp.sop_class_uid = msg.sop_class_uid\n    rsp.priority = 0\n    rsp.status = int(status)\n    asce.send(rsp, ctx.id)\n\n\n@sop_classes([])", rule='C17.P7'),
    # ---- C19
    V('C19', 'counter incremented after fields', 'sopclass.py', "                completed += 1\n\n                # one message object per report", "                # one message object per report", expect='fire'),
    V('C19', 'remaining not updated', 'sopclass.py', "                rsp.num_of_remaining_sub_ops = nop - completed\n", "                rsp.num_of_remaining_sub_ops = nop\n", rule='C19.U3'),
    V('C19', 'missing return after nothing to move', 'sopclass.py', "        _send_response(asce, ctx, msg, 0, 0, 0, 0)\n        return\n", "        _send_response(asce, ctx, msg, 0, 0, 0, 0)\n", rule='C19.U4'),
    V('C19', 'subop on wrong association', 'sopclass.py', "                service = assoc.get_scu(data_set.SOPClassUID)", "                service = asce.get_scu(data_set.SOPClassUID)", rule='C19.U2'),
    V('C19', 'get scu leaves on pending', 'sopclass.py', "            if statuses.Status(msg.status, dimsemessages.CGetRSPMessage).is_pending:\n                pass  # pending. intermediate C-GET response\n            else:\n                break  # last answer", "            if statuses.Status(msg.status, dimsemessages.CGetRSPMessage).is_pending:\n                break\n            else:\n                pass", rule='C19.U1'),
    V('C19', 'get scu double response', 'sopclass.py', "            rsp.status = int(status)\n            asce.send(rsp, pc_id)", "            rsp.status = int(status)\n            asce.send(rsp, pc_id)\n            asce.send(rsp, pc_id)", rule='C19.U1'),
    V('C19', 'final response inside loop', 'sopclass.py', "                asce.send(rsp, ctx.id)\n    except exceptions.EventHandlingError:\n        # the application", "                asce.send(rsp, ctx.id)\n                _send_response(asce, ctx, msg, nop, failed, warning, completed)\n    except exceptions.EventHandlingError:\n        # the application"),
    V('C18', 'silent: trivial key helper', 'statuses.py', "            _status_dict[(command.command_field, _code)] = status", "            _status_dict[(_ckey(command), _code)] = status\n\n\ndef _ckey(command):\n    return command.command_field\n", expect='silent'),
    # ---- C20
    V('C20', 'msg id in module global', '__init__.py', "_tls = threading.local()", "class _Holder(object):\n    pass\n\n\n_tls = _Holder()", rule='C20.H1'),
    V('C20', 'msg id step 2', '__init__.py', "    _tls.msg_id += 1", "    _tls.msg_id += 2", rule='C20.H1'),
    V('C20', 'class-level shared list mutated', 'fsm.py', "class DIMSEDecoder(object):  # pylint: disable=too-few-public-methods\n", "class DIMSEDecoder(object):  # pylint: disable=too-few-public-methods\n    shared_fragments = []\n\n    def _keep(self, x):\n        self.shared_fragments.append(x)\n", rule='C20.H2'),
    V('C20', 'mutable default argument', 'asceprovider.py', "    def _request(self, local_ae, remote_ae, users_pdu=None):", "    def _request(self, local_ae, remote_ae, users_pdu=[]):", rule='C20.H2'),
    V('C20', 'requester aliases live context list', 'asceprovider.py', "        self.context_def_list = local_ae.copy_context_def_list()", "        self.context_def_list = local_ae.context_def_list", rule='C20.H3b'),
    V('C20', 'copy without lock', 'applicationentity.py', "        with self.lock:\n            return copy.copy(self.context_def_list)", "        return copy.copy(self.context_def_list)", rule='C20.H3b'),
    V('C20', 'service writes ae config', 'sopclass.py', "            store_ctx = asce.ae.context_def_list[pc_id]", "            asce.ae.store_in_file.add(msg.sop_class_uid)\n            store_ctx = asce.ae.context_def_list[pc_id]", rule='C20.H3'),
    V('C20', 'service mutates module table', 'sopclass.py', "    try:\n        status = asce.ae.on_receive_echo(ctx)", "    FIND_SOP_CLASSES.append(ctx.sop_class)\n    try:\n        status = asce.ae.on_receive_echo(ctx)", rule='C20.H4'),
    V('C20', 'storage file non-exclusive', '__init__.py', "ds = open(full_name, 'x+b')", "ds = open(full_name, 'w+b')", rule='C20.H5'),
    # ---- C01 / C02
    V('C01', 'RJ decode swaps two targets', 'pdu.py', "        _, reserved1, _, reserved2, result, source, \\\n            reason_diag = cls.format.unpack(stream.read(10))", "        _, reserved1, _, reserved2, source, result, \\\n            reason_diag = cls.format.unpack(stream.read(10))", rule='C01.O2'),
    V('C01', 'abort encode swaps source/reason', 'pdu.py', "self.reserved2, self.reserved3, self.source,\n                                self.reason_diag)", "self.reserved2, self.reserved3, self.reason_diag,\n                                self.source)", rule='C01.O2'),
    V('C01', 'PDV decode length off by one', 'pdu.py', "data_value = stream.read(int(item_length) - 1)", "data_value = stream.read(int(item_length))", rule='C01.O3'),
    V('C01', 'ext neg app info length', 'userdataitems.py', "app_info_length = item_length - 2 - uid_length", "app_info_length = item_length - uid_length", rule='C01.O3'),
    V('C01', 'user info ignores its length', 'pdu.py', "user_data = list(cls.sub_items(cStringIO(stream.read(item_length))))", "user_data = list(cls.sub_items(stream))", rule='C01.O7'),
    V('C01', 'read size literal wrong', 'pdu.py', "cls.header.unpack(stream.read(74))", "cls.header.unpack(stream.read(72))"),
    V('C01', 'SUB_ITEM_TYPES swapped', 'pdu.py', "    0x52: userdataitems.ImplementationClassUIDSubItem,\n    0x51: userdataitems.MaximumLengthSubItem,", "    0x51: userdataitems.ImplementationClassUIDSubItem,\n    0x52: userdataitems.MaximumLengthSubItem,", rule='C01.O6'),
    V('C01', 'dispatch literal wrong', 'pdu.py', "                elif item_type == 0x21:\n                    yield PresentationContextItemAC.decode(stream)", "                elif item_type == 0x22:\n                    yield PresentationContextItemAC.decode(stream)", rule='C01.O6'),
    V('C01', 'ts loop accepts abstract syntax too', 'pdu.py', "            while _next_type(stream) == 0x40:", "            while _next_type(stream) == 0x20:"),
    V('C01', 'total_length off', 'pdu.py', "        return 6 + self.pdu_length\n\n\nclass AAssociateRqPDU", "        return 4 + self.pdu_length\n\n\nclass AAssociateRqPDU", rule='C01.O4'),
    V('C01', 'identity secondary length from primary', 'userdataitems.py', "self._primary_field, struct.pack('>H', len(self._secondary_field)),", "self._primary_field, struct.pack('>H', len(self._primary_field)),"),
    V('C01', 'PDV counter not advanced', 'pdu.py', "                length_read += item.total_length()\n", "                length_read += item.item_length\n", rule='C01.O7'),
    V('C01', 'decoder stores ts into wrong attr', 'pdu.py', "        return cls(context_id=context_id, result_reason=result_reason,\n                   ts_sub_item=ts_sub_item, reserved1=reserved1,\n                   reserved2=reserved2, reserved3=reserved3)", "        return cls(context_id=context_id, result_reason=result_reason,\n                   ts_sub_item=ts_sub_item, reserved1=reserved2,\n                   reserved2=reserved1, reserved3=reserved3)", rule='C01.O2'),
    V('C01', 'silent: local renamed in decode', 'pdu.py', "        _, reserved, item_length = cls.header.unpack(stream.read(4))\n        context_name = stream.read(item_length).decode()\n        return cls(reserved=reserved, context_name=context_name)", "        _, reserved, length = cls.header.unpack(stream.read(4))\n        name = stream.read(length).decode()\n        return cls(reserved=reserved, context_name=name)", expect='silent'),
    V('C01', 'silent: join list -> generator', 'pdu.py', "            + b''.join([item.encode() for item in self.variable_items])", "            + b''.join(item.encode() for item in self.variable_items)", expect='silent'),
    V('C01', 'silent: keyword -> positional ctor', 'pdu.py', "        return cls(reserved=reserved, context_name=context_name)", "        return cls(context_name, reserved)", expect='silent'),
    V('C02', 'both sides H -> I (symmetric)', 'pdu.py', "    item_type = 0x10\n    \"\"\"PDU Item-type\"\"\"\n\n    header = struct.Struct('> B B H')", "    item_type = 0x10\n    \"\"\"PDU Item-type\"\"\"\n\n    header = struct.Struct('> B B I')", rule='C02.L2'),
    V('C02', 'little endian header', 'userdataitems.py', "    item_type = 0x51\n    item_format = struct.Struct('>B B H I')", "    item_type = 0x51\n    item_format = struct.Struct('<B B H I')", rule='C02.L2'),
    V('C02', 'wrong type code', 'userdataitems.py', "    item_type = 0x55\n", "    item_type = 0x57\n", rule='C02.L1'),
    V('C02', 'symmetric swap result/source in RJ', 'pdu.py', "self.reserved2, self.result, self.source,\n                                self.reason_diag)", "self.reserved2, self.source, self.result,\n                                self.reason_diag)", rule='C02.L2'),
    V('C02', 'item_length counts header', 'pdu.py', "        return len(self.context_name)\n", "        return len(self.context_name) + 4\n"),
    V('C02', 'role selection length', 'userdataitems.py', "        return 4 + len(self.sop_class_uid)\n", "        return 2 + len(self.sop_class_uid)\n", rule='C02.L3'),
    V('C02', 'assoc pdu length base', 'pdu.py', "        return 68 + sum((i.total_length() for i in self.variable_items))", "        return 74 + sum((i.total_length() for i in self.variable_items))", rule='C02.L3'),
    V('C02', 'no generic fallback', 'pdu.py', "factory = SUB_ITEM_TYPES.get(item_type, userdataitems.GenericUserDataSubItem)", "factory = SUB_ITEM_TYPES[item_type]", rule='C02.L4'),
    V('C02', 'silent: struct format whitespace', 'pdu.py', "    header = struct.Struct('>B B H B B B B')\n\n    def __init__(self, context_id, result_reason, ts_sub_item,", "    header = struct.Struct('>BBHBBBB')\n\n    def __init__(self, context_id, result_reason, ts_sub_item,", expect='silent'),
    # ---- C03
    V('C03', 'header guard <=', 'dulprovider.py', "        if len(self.raw_pdu) < 6:", "        if len(self.raw_pdu) <= 6:", rule='C03.B2'),
    V('C03', 'body guard <=', 'dulprovider.py', "        if len(self.raw_pdu) < full_length:", "        if len(self.raw_pdu) <= full_length:", rule='C03.B2'),
    V('C03', 'full length +4', 'dulprovider.py', "        full_length = length + 6", "        full_length = length + 4", rule='C03.B2'),
    V('C03', 'length slice shifted', 'dulprovider.py', "        length = self.raw_pdu[2:6]", "        length = self.raw_pdu[1:5]", rule='C03.B2'),
    V('C03', 'buffer overwritten on recv', 'dulprovider.py', "        self.raw_pdu += data\n", "        self.raw_pdu = data\n", rule='C03.B1'),
    V('C03', 'remainder skips a byte', 'dulprovider.py', "        self.raw_pdu = self.raw_pdu[full_length:]", "        self.raw_pdu = self.raw_pdu[full_length + 1:]"),
    V('C03', 'buffer cleared after a PDU', 'dulprovider.py', "        self.raw_pdu = self.raw_pdu[full_length:]", "        self.raw_pdu = b''"),
    V('C03', 'little endian length', 'dulprovider.py', "        length = struct.unpack('>L', length)[0]", "        length = struct.unpack('<L', length)[0]", rule='C03.B2'),
    V('C03', 'true without event', 'dulprovider.py', "        if self.timer.check() is False:\n            self.event.append(fsm.Events.EVT_18)  # Timer expired\n            return True", "        if self.timer.check() is False:\n            return True", rule='C03.B4'),
    V('C03', 'event without true', 'dulprovider.py', "            self.event.append(fsm.Events.EVT_2)\n            return True", "            self.event.append(fsm.Events.EVT_2)\n            return False", rule='C03.B4'),
    V('C03', 'poll while queue non-empty', 'dulprovider.py', "                if not self.event:\n", "                if True:\n", rule='C03.B5'),
    V('C03', 'no framing attempt after recv', 'dulprovider.py', "            if self._check_incoming_pdu():\n                return True\n\n        return self._process_incoming()", "            if self._check_incoming_pdu():\n                return True\n            return False\n\n        return self._process_incoming()", rule='C03.B3'),
    V('C03', 'silent: len comparison flipped', 'dulprovider.py', "        if len(self.raw_pdu) < 6:", "        if 6 > len(self.raw_pdu):", expect='silent'),
    V('C03', 'silent: unsigned int format I', 'dulprovider.py', "        length = struct.unpack('>L', length)[0]", "        length = struct.unpack('>I', length)[0]", expect='silent'),
    # ---- C04 (further generated below)
    V('C04', 'ae_8 without timer', 'fsm.py', "        self.dul_socket.sendall(self.primitive.encode())\n        self.timer.start()\n        return States.STA_13\n\n    def dt_1", "        self.dul_socket.sendall(self.primitive.encode())\n        return States.STA_13\n\n    def dt_1", rule='C04.T3'),
    V('C04', 'aa_1 echoes primitive', 'fsm.py', "        if not isinstance(self.primitive, pdu.AAbortPDU):\n            # triggered by an unexpected or invalid PDU, not by an A-ABORT request\n            self.primitive = pdu.AAbortPDU(source=0, reason_diag=0)\n", "", rule='C04.T3'),
    V('C04', 'aa_8 source 0', 'fsm.py', "        self.primitive = pdu.AAbortPDU(source=2, reason_diag=0)\n        if self.dul_socket:", "        self.primitive = pdu.AAbortPDU(source=0, reason_diag=0)\n        if self.dul_socket:", rule='C04.T3'),
    V('C04', 'ar_3 does not unset socket', 'fsm.py', "        self.to_service_user.put(self.primitive)\n        self.dul_socket.close()\n        self.dul_socket = None\n        return States.STA_1\n\n    def ar_4", "        self.to_service_user.put(self.primitive)\n        self.dul_socket.close()\n        return States.STA_1\n\n    def ar_4", rule='C04.T3'),
    V('C04', 'ar_8 role inverted', 'fsm.py', "        if self.provider.requestor == 1:", "        if self.provider.requestor == 0:", rule='C04.T4'),
    V('C04', 'role attr inverted at definition', 'dulprovider.py', "        self.requestor = 0 if dul_socket else 1", "        self.requestor = 1 if dul_socket else 0", rule='C04.T4'),
    V('C04', 'ar_2 wrong next state', 'fsm.py', "        self.to_service_user.put(self.primitive)\n        return States.STA_8", "        self.to_service_user.put(self.primitive)\n        return States.STA_7", rule='C04.T4'),
    V('C04', 'aa_6 indicates', 'fsm.py', "        self.primitive = None\n        return States.STA_13", "        self.to_service_user.put(self.primitive)\n        return States.STA_13", rule='C04.T3'),
    V('C04', 'undefined cell raises', 'fsm.py', "        action = self.transition_table.get((event, self.current_state))\n        if action is None:\n            # combination not defined by PS3.8 Table 9-10: ignore the event\n            return\n", "        action = self.transition_table[(event, self.current_state)]\n", rule='C04.T5'),
    V('C04', 'undefined cell resets state', 'fsm.py', "            # combination not defined by PS3.8 Table 9-10: ignore the event\n            return\n", "            # combination not defined by PS3.8 Table 9-10: ignore the event\n            self.current_state = States.STA_1\n            return\n", rule='C04.T5'),
    V('C04', 'cell deleted', 'fsm.py', "            (Events.EVT_18, States.STA_13): self.aa_2,\n", "", rule='C04.T1'),
    V('C04', 'extra cell', 'fsm.py', "            (Events.EVT_18, States.STA_13): self.aa_2,\n", "            (Events.EVT_18, States.STA_13): self.aa_2,\n            (Events.EVT_18, States.STA_6): self.aa_2,\n", rule='C04.T1'),
    V('C04', 'dt_1 keeps socket? sends twice', 'fsm.py', "        self.dul_socket.sendall(self.primitive.encode())\n        self.primitive = None\n        return States.STA_6", "        self.dul_socket.sendall(self.primitive.encode())\n        self.dul_socket.sendall(self.primitive.encode())\n        self.primitive = None\n        return States.STA_6", rule='C04.T3'),
    V('C04', 'silent: aa_5 bound to ar_5 (same effects)', 'fsm.py', "            (Events.EVT_17, States.STA_2): self.aa_5,", "            (Events.EVT_17, States.STA_2): self.ar_5,", expect='silent'),
    V('C04', 'silent: timer restart in ae_8', 'fsm.py', "        self.dul_socket.sendall(self.primitive.encode())\n        self.timer.start()\n        return States.STA_13\n\n    def dt_1", "        self.dul_socket.sendall(self.primitive.encode())\n        self.timer.restart()\n        return States.STA_13\n\n    def dt_1", expect='silent'),
    V('C04', 'silent: undefined via in-test', 'fsm.py', "        action = self.transition_table.get((event, self.current_state))\n        if action is None:\n            # combination not defined by PS3.8 Table 9-10: ignore the event\n            return\n        self.current_state = action()", "        key = (event, self.current_state)\n        if key not in self.transition_table:\n            return\n        self.current_state = self.transition_table[key]()", expect='silent'),
    # ---- C05
    V('C05', 'PDU_TYPES events swapped', 'dulprovider.py', "    0x05: (pdu.AReleaseRqPDU, fsm.Events.EVT_12),\n    0x06: (pdu.AReleaseRpPDU, fsm.Events.EVT_13),", "    0x05: (pdu.AReleaseRqPDU, fsm.Events.EVT_13),\n    0x06: (pdu.AReleaseRpPDU, fsm.Events.EVT_12),", rule='C05.G1'),
    V('C05', 'PDU_TO_EVENT wrong', 'dulprovider.py', "    pdu.AReleaseRpPDU.pdu_type: fsm.Events.EVT_14,", "    pdu.AReleaseRpPDU.pdu_type: fsm.Events.EVT_11,", rule='C05.G2'),
    V('C05', 'timer check inverted', 'dulprovider.py', "        if self.timer.check() is False:", "        if self.timer.check() is True:", rule='C05.G3'),
    V('C05', 'timer never expires', 'dulprovider.py', "(time.time() - self._start_time > self._max_seconds)", "(time.time() - self._start_time < self._max_seconds)", rule='C05.G4'),
    V('C05', 'evt17 without close', 'dulprovider.py', "        if not data:\n            # Remote port has been closed\n            self.event.append(fsm.Events.EVT_17)\n            self.dul_socket.close()\n            self.dul_socket = None", "        if not data:\n            # Remote port has been closed\n            self.event.append(fsm.Events.EVT_17)\n            self.dul_socket = None", rule='C05.G3'),
    V('C05', 'evt2 in wrong state', 'dulprovider.py', "        if self.state_machine.current_state == fsm.States.STA_4:\n            self.event.append(fsm.Events.EVT_2)", "        if self.state_machine.current_state == fsm.States.STA_5:\n            self.event.append(fsm.Events.EVT_2)", rule='C05.G3'),
    V('C05', 'socket guard dropped', 'dulprovider.py', "        if not self.dul_socket:\n            return False\n\n        if self.state_machine.current_state == fsm.States.STA_4:", "        if self.state_machine.current_state == fsm.States.STA_4:", rule='C05.G5e'),
    V('C05', 'ar_4 no timer', 'fsm.py', "        self.primitive = pdu.AReleaseRpPDU()\n        self.dul_socket.sendall(self.primitive.encode())\n        self.timer.start()\n        return States.STA_13", "        self.primitive = pdu.AReleaseRpPDU()\n        self.dul_socket.sendall(self.primitive.encode())\n        return States.STA_13", rule='C05.G5a'),
    V('C05', 'poll order changed', 'dulprovider.py', "self._check_network() or self._check_outgoing_pdu() or self._check_timer()", "self._check_outgoing_pdu() or self._check_network() or self._check_timer()", rule='C05.G6'),
    V('C05', 'restart does not start', 'dulprovider.py', "        self.stop()\n        self.start()", "        self.start()\n        self.stop()", rule='C05.G4'),
    V('C05', 'silent: not timer.check()', 'dulprovider.py', "        if self.timer.check() is False:", "        if not self.timer.check():", expect='silent'),
    # ---- C12
    V('C12', 'decode handler narrowed', 'dulprovider.py', "        except Exception:  # unknown PDU type or PDU that cannot be decoded", "        except KeyError:  # unknown PDU type or PDU that cannot be decoded", rule='C12.E2'),
    V('C12', 'dt_2 handler removed', 'fsm.py', "        try:\n            self.dimse_decoder.process(self.primitive)\n        except Exception:  # malformed P-DATA: handle as an invalid PDU (AA-8)\n            self.dimse_decoder = None\n            return self.aa_8()\n        if not self.dimse_decoder.receiving:\n            msg, pc_id = self.dimse_decoder.msg, self.dimse_decoder.pc_id\n            self.to_service_user.put((msg, pc_id))\n            self.dimse_decoder = None\n        return States.STA_6", "        self.dimse_decoder.process(self.primitive)\n        if not self.dimse_decoder.receiving:\n            msg, pc_id = self.dimse_decoder.msg, self.dimse_decoder.pc_id\n            self.to_service_user.put((msg, pc_id))\n            self.dimse_decoder = None\n        return States.STA_6", rule='C12.E2'),
    V('C12', 'run re-raises', 'dulprovider.py', "            self.to_service_user.put(pdu.AAbortPDU(source=0, reason_diag=0))\n        finally:", "            self.to_service_user.put(pdu.AAbortPDU(source=0, reason_diag=0))\n            raise\n        finally:", rule='C12.E4'),
    V('C12', 'aa_7 sends primitive', 'fsm.py', "        self.primitive = pdu.AAbortPDU(source=2, reason_diag=2)\n", "", rule='C12.E3'),
    V('C12', '_close blocking recv', 'dulprovider.py', "            if not select.select([self.dul_socket], [], [], 0.05)[0]:\n                return False\n            if self.dul_socket.recv(1) != b'':", "            if self.dul_socket.recv(1) != b'':", rule='C12.E5'),
    V('C12', 'select without timeout', 'dulprovider.py', "        if select.select([self.dul_socket], [], [], 0.05)[0]:", "        if select.select([self.dul_socket], [], [])[0]:", rule='C12.E5'),
    V('C12', 'handler forgets abort indication', 'dulprovider.py', "            traceback.print_exc()\n            self.to_service_user.put(pdu.AAbortPDU(source=0, reason_diag=0))\n", "            traceback.print_exc()\n", rule='C12.E4'),
    V('C12', 'queue get blocks', 'dulprovider.py', "incoming = self.from_service_user.get(False, None)", "incoming = self.from_service_user.get()", rule='C12.E5'),
    V('C12', 'evt19 handler appends nothing', 'dulprovider.py', "        except Exception:  # unknown PDU type or PDU that cannot be decoded\n            self.event.append(fsm.Events.EVT_19)", "        except Exception:  # unknown PDU type or PDU that cannot be decoded\n            pass", rule='C12.E2'),
    V('C12', 'silent: tuple of exceptions incl Exception', 'dulprovider.py', "        except Exception:  # unknown PDU type or PDU that cannot be decoded", "        except (KeyError, Exception):  # unknown PDU type or PDU that cannot be decoded", expect='silent'),
    # ---- C13
    V('C13', 'finally does not set flag', 'dulprovider.py', "                self.dul_socket = None\n            self._is_killed.set()", "                self.dul_socket = None", rule='C13.K4'),
    V('C13', 'finally does not close', 'dulprovider.py', "        finally:\n            if self.dul_socket is not None:\n                self.dul_socket.close()\n                self.dul_socket = None\n            self._is_killed.set()", "        finally:\n            self._is_killed.set()", rule='C13.K5'),
    V('C13', 'evt17 cell missing', 'fsm.py', "            (Events.EVT_17, States.STA_7): self.aa_4,\n", "", rule='C13.K2'),
    V('C13', 'aa_4 silent', 'fsm.py', "        self.primitive = pdu.AAbortPDU(source=0, reason_diag=0)\n        self.to_service_user.put(self.primitive)\n        return States.STA_1", "        self.primitive = pdu.AAbortPDU(source=0, reason_diag=0)\n        return States.STA_1", rule='C13.K3'),
    V('C13', 'aa_2 leaves socket', 'fsm.py', "        self.timer.stop()\n        self.dul_socket.close()\n        self.dul_socket = None\n        return States.STA_1", "        self.timer.stop()\n        return States.STA_1", rule='C13.K3'),
    V('C13', 'handle forgets kill', 'asceprovider.py', "        finally:\n            self.kill()\n\n    def _establish", "        finally:\n            pass\n\n    def _establish", rule='C13.K4'),
    V('C13', 'loop ignores stop flag', 'dulprovider.py', "            while not self.is_killed:", "            while True:", rule='C13.K4'),
    V('C13', 'kill waits unbounded', 'asceprovider.py', "        for _ in range(1000):\n            if self.dul.stop():\n                continue\n            time.sleep(0.001)", "        while not self.dul.stop():\n            time.sleep(0.001)", rule='C13.K4'),
    V('C13', 'evt18 to wrong state', 'fsm.py', "        self.timer.stop()\n        self.dul_socket.close()\n        self.dul_socket = None\n        return States.STA_1", "        self.timer.stop()\n        self.dul_socket.close()\n        self.dul_socket = None\n        return States.STA_13", rule='C13.K2'),
]


# behaviour-preserving refactors: every check named must stay silent
_LOG = "import logging\nLOG = logging.getLogger(__name__)\n"
for _prop in ('C03', 'C05', 'C12', 'C13'):
    VARIANTS.append(V(_prop, 'silent: connection-lost helper in provider', 'dulprovider.py',
        "        except socket.error:\n            self.event.append(fsm.Events.EVT_17)\n            self.dul_socket.close()\n            self.dul_socket = None\n            return True\n\n        if not data:\n            # Remote port has been closed\n            self.event.append(fsm.Events.EVT_17)\n            self.dul_socket.close()\n            self.dul_socket = None\n            return True\n",
        "        except socket.error:\n            return self._connection_lost()\n\n        if not data:\n            # Remote port has been closed\n            return self._connection_lost()\n",
        expect='silent',
        more=[('dulprovider.py', "    def _process_incoming(self):\n", "    def _connection_lost(self):\n        self.event.append(fsm.Events.EVT_17)\n        self.dul_socket.close()\n        self.dul_socket = None\n        return True\n\n    def _process_incoming(self):\n")]))
    VARIANTS.append(V(_prop, 'silent: logging in provider and fsm', 'dulprovider.py',
        "    def _check_timer(self):\n        if self.timer.check() is False:\n", "    def _check_timer(self):\n        if self.timer.check() is False:\n            logging.getLogger(__name__).debug('ARTIM expired')\n",
        expect='silent',
        more=[('dulprovider.py', "import collections\n", "import collections\nimport logging\n"),
              ('fsm.py', "import socket\n\nfrom typing", "import socket\nimport logging\n\nfrom typing"),
              ('fsm.py', "        self.primitive = pdu.AAbortPDU(source=2, reason_diag=0)\n        if self.dul_socket:", "        logging.getLogger(__name__).warning('aborting')\n        self.primitive = pdu.AAbortPDU(source=2, reason_diag=0)\n        if self.dul_socket:")]))
for _prop in ('C04', 'C05', 'C12', 'C13'):
    VARIANTS.append(V(_prop, 'silent: close helper in fsm', 'fsm.py',
        "        self.timer.stop()\n        self.dul_socket.close()\n        self.dul_socket = None\n        return States.STA_1",
        "        self.timer.stop()\n        self._close_transport()\n        return States.STA_1", expect='silent',
        more=[('fsm.py', "    def ae_1(self):\n", "    def _close_transport(self):\n        self.dul_socket.close()\n        self.dul_socket = None\n\n    def ae_1(self):\n")]))
for _prop in ('C15', 'C16', 'C17', 'C19'):
    VARIANTS.append(V(_prop, 'silent: response factory helper in sopclass', 'sopclass.py',
        "    rsp = dimsemessages.CStoreRSPMessage()\n    rsp.message_id_being_responded_to = msg.message_id\n    rsp.affected_sop_instance_uid = msg.affected_sop_instance_uid\n    rsp.sop_class_uid = msg.sop_class_uid\n    rsp.status = int(status)\n    asce.send(rsp, ctx.id)\n",
        "    rsp = _response_to(dimsemessages.CStoreRSPMessage, msg)\n    rsp.affected_sop_instance_uid = msg.affected_sop_instance_uid\n    rsp.status = int(status)\n    asce.send(rsp, ctx.id)\n",
        expect='silent',
        more=[('sopclass.py', "class MessageDispatcher(object):", "def _response_to(rsp_class, msg):\n    rsp = rsp_class()\n    rsp.message_id_being_responded_to = msg.message_id\n    rsp.sop_class_uid = msg.sop_class_uid\n    return rsp\n\n\nclass MessageDispatcher(object):")]))
for _prop in ('C01', 'C02', 'C12'):
    VARIANTS.append(V(_prop, 'silent: logging in a decoder', 'pdu.py',
        "        stream = cStringIO(rawstring)\n        _, reserved1, _, reserved2, reserved3, abort_source, \\\n",
        "        stream = cStringIO(rawstring)\n        logging.getLogger(__name__).debug('decoding A-ABORT')\n        _, reserved1, _, reserved2, reserved3, abort_source, \\\n",
        expect='silent', more=[('pdu.py', "import struct\n\nimport six", "import struct\nimport logging\n\nimport six")]))
for _prop in ('C06', 'C08', 'C10'):
    VARIANTS.append(V(_prop, 'silent: width helper in dimsemessages', 'dimsemessages.py',
        "    maxsize = (max_pdu_length or NO_LIMIT_PDU_LENGTH) - 6\n    for chunk", "    maxsize = _fragment_size(max_pdu_length)\n    for chunk",
        expect='silent',
        more=[('dimsemessages.py', "    maxsize = (max_pdu_length or NO_LIMIT_PDU_LENGTH) - 6\n    while True", "    maxsize = _fragment_size(max_pdu_length)\n    while True"),
              ('dimsemessages.py', "def fragment(data_set, max_pdu_length, normal, last):", "def _fragment_size(max_pdu_length):\n    return (max_pdu_length or NO_LIMIT_PDU_LENGTH) - 6\n\n\ndef fragment(data_set, max_pdu_length, normal, last):")]))
for _prop in ('C09', 'C10', 'C14'):
    VARIANTS.append(V(_prop, 'silent: accept() iterates items directly', 'asceprovider.py',
        "        requested = (\n            (item.context_id, item.abs_sub_item.name, item.ts_sub_items)\n            for item in assoc_req.variable_items[1:-1]\n        )\n\n        for pc_id, proposed_sop, proposed_ts in requested:\n",
        "        for item in assoc_req.variable_items[1:-1]:\n            pc_id, proposed_sop, proposed_ts = item.context_id, item.abs_sub_item.name, item.ts_sub_items\n",
        expect='silent'))


def _generated():
    """One rebind variant per transition-table cell (C04.T3/T4 must report that cell)."""
    import os, re
    from .srcmodel import repo_root, PKG
    out = []
    try:
        src = open(os.path.join(repo_root(), PKG, 'fsm.py')).read()
    except OSError:
        return out
    for m in re.finditer(r"            \(Events\.(EVT_\d+), States\.(STA_\d+)\): self\.(\w+),?\n", src):
        evt, sta, act = m.groups()
        new = 'aa_6' if act != 'aa_6' else 'aa_8'
        line = m.group(0)
        out.append(V('C04', 'rebind (%s,%s) %s -> %s' % (evt, sta, act, new), 'fsm.py', line, line.replace('self.' + act, 'self.' + new)))
    return out


VARIANTS = VARIANTS + _generated()
