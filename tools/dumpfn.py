import sys, ast
from pnd_static.srcmodel import Repo
r = Repo()
for spec in sys.argv[1:]:
    mod, qn = spec.split(':')
    fi = r.func(mod, qn)
    print(ast.unparse(fi.node)[:6000])
    print('-----')
