#!/usr/bin/env python3
"""collect_seeds.py <agent-dir>...: re-verify each seeded change on a fresh scratch worktree (tests pass, demo fails with
the change and passes without), run all checks against it, and store patch.diff / demo.py / meta.json in /verif/seeded/<name>/."""
import json, os, shutil, subprocess, sys
VERIF = os.path.dirname(os.path.dirname(os.path.abspath(__file__)))
for src in sys.argv[1:]:
    src = os.path.abspath(src)
    name = os.path.basename(src)
    if not os.path.exists(os.path.join(src, 'patch.diff')):
        print(name, 'no patch'); continue
    p = subprocess.run([os.path.join(VERIF, 'tools/eval_seed.sh'), src], capture_output=True, text=True)
    out = p.stdout
    try:
        res = json.loads(out[out.index('{'):])
    except Exception:
        print(name, 'EVAL FAILED', out[-300:], p.stderr[-300:]); continue
    ok = res['stable_tests'].startswith('70 passed') and res.get('demo_changed_rc') not in (0, None) and res.get('demo_original_rc') == 0
    try:
        agent_meta = json.load(open(os.path.join(src, 'meta.json')))
    except Exception:
        agent_meta = {}
    dst = os.path.join(VERIF, 'seeded', name)
    if not ok:
        print(name, 'NOT CONFIRMED', res['stable_tests'], res.get('demo_changed_rc'), res.get('demo_original_rc')); continue
    os.makedirs(dst, exist_ok=True)
    shutil.copy(os.path.join(src, 'patch.diff'), os.path.join(dst, 'patch.diff'))
    demo = open(os.path.join(src, 'demo.py')).read().replace(src, '.')
    open(os.path.join(dst, 'demo.py'), 'w').write(demo)
    meta = {
        'property': agent_meta.get('property', name[:3]),
        'summary': agent_meta.get('summary', ''),
        'needs': agent_meta.get('needs', ''),
        'origin': 'independent sub-agent given only the property record and its own scratch worktree',
        'confirmed': {
            'what_i_ran': 'fresh worktree of /repo HEAD; git apply patch.diff; pytest tests/test_dimsemessages.py tests/test_pdu.py; '
                          'python demo.py with the change, git apply -R, python demo.py without it; '
                          'VERIF_REPO=<worktree> python -m pnd_static.check --property C01..C20',
            'stable_tests': res['stable_tests'],
            'demo_rc_with_change': res.get('demo_changed_rc'),
            'demo_rc_without_change': res.get('demo_original_rc'),
        },
        'checks_that_fire': {k: v['rules'] for k, v in res['checks_fired'].items()},
        'diagnosis': {k: (v['first'][0].strip()[:400] if v['first'] else '') for k, v in res['checks_fired'].items()},
    }
    json.dump(meta, open(os.path.join(dst, 'meta.json'), 'w'), indent=1)
    print(name, 'stored; fires:', {k: v['rules'] for k, v in res['checks_fired'].items()} or 'NOTHING')
