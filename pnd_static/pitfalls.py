"""Rules for Python-level pitfalls that break the properties without changing the "shape" the other rules look at.

Each function returns a list of problem strings (file:line already in the text where useful); the property modules decide
which functions of the package a rule is applied to and under which rule id it is reported.

* ``unbound_after_handler``  -- ``except E as name`` deletes ``name`` when the handler ends (Python 3); a later read on a
  path through the handler raises UnboundLocalError (path-sensitive, flow.py).
* ``oneshot_reuse``          -- a local bound to a one-shot iterator (map / filter / zip / iter / generator expression /
  generator call) is consumed twice on a path; the second consumer sees nothing.
* ``mutated_while_iterated`` -- the sequence a ``for`` loop iterates is shortened / extended inside the loop (directly or
  through a local alias): the iterator skips or repeats items.
* ``shared_state_writes``    -- functions that must be pure (decoders) write class-level / module-level mutable objects.
* ``shared_default_objects`` -- a parameter default that is a mutable or otherwise shared object (``x=[]``, ``t=Timer(10)``).
"""
from __future__ import annotations

import ast
from typing import Dict, FrozenSet, Iterable, List, Optional, Set, Tuple

from .flow import Client, Flow, attr_chain
from .srcmodel import ClassRef, FuncInfo, NotConst, Repo, body_without_docstring, norm

ONE_SHOT_CALLS = ('map', 'filter', 'zip', 'iter', 'reversed', 'enumerate', 'six.moves.map', 'six.moves.filter', 'six.moves.zip',
                  'itertools.chain', 'chain', 'itertools.islice', 'islice', 'itertools.count', 'count')
MUTATORS = ('append', 'extend', 'insert', 'pop', 'remove', 'clear', 'update', 'setdefault', 'popitem', 'add', 'discard',
            'appendleft', 'popleft', 'sort', 'reverse', '__setitem__', '__delitem__')


# --------------------------------------------------------------------------- (a) except ... as name
class _DeletedNames(Client):
    """state: frozenset of names that are unbound because an ``except ... as name`` handler has ended"""

    def __init__(self, handler_names: Set[str]):
        self.names = handler_names
        self.problems: Set[Tuple[str, int]] = set()

    def _loads(self, node, state):
        for n in ast.walk(node):
            if isinstance(n, ast.Name) and isinstance(n.ctx, ast.Load) and n.id in state:
                self.problems.add((n.id, n.lineno))

    def stmt(self, st, state):
        if isinstance(st, (ast.Assign, ast.AnnAssign, ast.AugAssign)):
            v = getattr(st, 'value', None)
            if v is not None:
                self._loads(v, state)
            tgts = st.targets if isinstance(st, ast.Assign) else [st.target]
            bound = {n.id for t in tgts for n in ast.walk(t) if isinstance(n, ast.Name) and isinstance(n.ctx, ast.Store)}
            if isinstance(st, ast.AugAssign):
                self._loads(st.target, state)
            return [frozenset(x for x in state if x not in bound)]
        self._loads(st, state)
        return [state]

    def expr(self, e, state):
        self._loads(e, state)
        return [state]

    def atom_branch(self, test, state):
        self._loads(test, state)
        return [state], [state]

    def raises(self, node, state):
        # any statement inside a try may raise: what matters here is only that handlers are reachable
        return ['Exception']

    def handler_bind(self, h, state, exc):
        if h.name:
            return [frozenset(x for x in state if x != h.name) | frozenset(['$in:' + h.name])]
        return [state]

    def loop_bind(self, st, state):
        bound = {n.id for n in ast.walk(st.target) if isinstance(n, ast.Name)}
        return [frozenset(x for x in state if x not in bound)]

    def on_return(self, st, state):
        if st.value is not None:
            self._loads(st.value, state)
        return [state]


def unbound_after_handler(fi: FuncInfo) -> List[str]:
    handlers = [n for n in ast.walk(fi.node) if isinstance(n, ast.ExceptHandler) and n.name]
    if not handlers:
        return []
    names = {h.name for h in handlers}
    cl = _DeletedNames(names)
    # the engine has no hook at the end of a handler: rewrite ``except E as n: BODY`` into ``BODY; <del n>`` with a marker
    # statement the client understands
    import copy
    node = copy.deepcopy(fi.node)
    for h in [n for n in ast.walk(node) if isinstance(n, ast.ExceptHandler) and n.name]:
        marker = ast.Delete(targets=[ast.Name(id=h.name, ctx=ast.Del())])
        ast.copy_location(marker, h)
        ast.fix_missing_locations(marker)
        h.body = list(h.body) + [marker]
    orig_stmt = cl.stmt

    def stmt(st, state):
        if isinstance(st, ast.Delete):
            gone = {t.id for t in st.targets if isinstance(t, ast.Name)}
            return [frozenset(x for x in state if x not in ('$in:' + g for g in gone)) | frozenset(g for g in gone if g in names)]
        return orig_stmt(st, state)
    cl.stmt = stmt
    try:
        Flow(cl).run(body_without_docstring(node), [frozenset()])
    except Exception:
        return []
    return ['%s: %r is read at line %d on a path through its ``except ... as %s`` handler, after which the name is unbound '
            '(UnboundLocalError)' % (fi.key, n, ln, n) for n, ln in sorted(cl.problems)]


# --------------------------------------------------------------------------- (b) one-shot iterators
def _is_oneshot_expr(e: ast.expr, repo: Repo, fi: FuncInfo) -> bool:
    if isinstance(e, ast.GeneratorExp):
        return True
    if isinstance(e, ast.Call):
        fn = norm(e.func)
        if fn in ONE_SHOT_CALLS:
            return True
        try:
            r = repo.resolve_expr(e.func, fi.module, fi.cls)
        except NotConst:
            return False
        except Exception:
            return False
        from .srcmodel import FuncRef
        if isinstance(r, FuncRef):
            try:
                g = repo.func(r.module, r.qualname)
            except Exception:
                return False
            return any(isinstance(n, (ast.Yield, ast.YieldFrom)) for n in ast.walk(g.node))
    return False


def _consuming_uses(node: ast.AST, name: str) -> List[ast.AST]:
    """places where the iterator held by ``name`` is (or may be) run to exhaustion: for-loop source, argument of a call,
    operand of ``in``, starred"""
    out = []
    for n in ast.walk(node):
        if isinstance(n, (ast.For, ast.comprehension)) and isinstance(n.iter, ast.Name) and n.iter.id == name:
            out.append(n)
        elif isinstance(n, ast.Call):
            for a in list(n.args) + [k.value for k in n.keywords]:
                a0 = a.value if isinstance(a, ast.Starred) else a
                if isinstance(a0, ast.Name) and a0.id == name and norm(n.func) not in ('isinstance', 'id', 'type', 'iter', 'bool'):
                    out.append(n)
        elif isinstance(n, ast.Compare) and any(isinstance(o, (ast.In, ast.NotIn)) for o in n.ops) and \
                any(isinstance(c, ast.Name) and c.id == name for c in n.comparators):
            out.append(n)
    return out


def oneshot_reuse(repo: Repo, fi: FuncInfo, _seen=None, _bound: Optional[Dict[str, int]] = None) -> List[str]:
    """locals (and parameters that callers bind to one-shot iterators, followed one call level into same-class / same-module
    callees) consumed more than once in straight-line order"""
    probs: List[str] = []
    binds: Dict[str, ast.AST] = {}
    for n in ast.walk(fi.node):
        if isinstance(n, ast.Assign) and len(n.targets) == 1 and isinstance(n.targets[0], ast.Name) and _is_oneshot_expr(n.value, repo, fi):
            binds[n.targets[0].id] = n
    params = dict(_bound or {})
    for name, where in list(binds.items()) + [(p, None) for p in params]:
        rebinds = [n for n in ast.walk(fi.node) if isinstance(n, ast.Assign) and any(
            isinstance(t, ast.Name) and t.id == name for t in n.targets)]
        if where is not None and len(rebinds) > 1:
            continue      # re-bound: too imprecise to follow without paths
        if where is None and rebinds:
            continue
        uses = [u for u in _consuming_uses(fi.node, name) if where is None or getattr(u, 'lineno', 0) > where.lineno]
        # uses in different arms of one ``if`` are alternatives, not a sequence
        uses = _sequential(fi.node, uses)
        if len(uses) >= 2:
            origin = 'bound at line %d to %s' % (where.lineno, norm(where.value)[:50]) if where is not None else \
                'a one-shot iterator passed in by %s' % params[name]
            probs.append('%s: %r (%s) is consumed at line %d and again at line %d: the second consumer gets nothing'
                         % (fi.key, name, origin, uses[0].lineno, uses[1].lineno))
        # one level into callees that receive it
        if (_seen is None or len(_seen) < 3):
            for u in uses[:1] if len(uses) == 1 else []:
                if isinstance(u, ast.Call):
                    callee = None
                    ch = attr_chain(u.func)
                    if ch and len(ch) == 2 and ch[0] in ('self', 'cls') and fi.cls is not None:
                        callee = fi.cls.find_method(ch[1])
                        shift = 1
                    elif isinstance(u.func, ast.Name) and u.func.id in fi.module.functions:
                        callee = fi.module.functions[u.func.id]
                        shift = 0
                    if callee is not None and callee.key not in (_seen or set()):
                        for i, a in enumerate(u.args):
                            if isinstance(a, ast.Name) and a.id == name and i + shift < len(callee.params):
                                probs += oneshot_reuse(repo, callee, (_seen or set()) | {fi.key},
                                                       {callee.params[i + shift]: '%s (line %d)' % (fi.key, u.lineno)})
    return probs


def _sequential(fnode, uses: List[ast.AST]) -> List[ast.AST]:
    """drop uses that sit in the other arm of an ``if`` / ``try`` than an earlier use (they cannot both run)"""
    def arm_path(target) -> Tuple:
        path = []

        def walk(n, acc):
            if n is target:
                path.extend(acc)
                return True
            for fld, val in ast.iter_fields(n):
                if isinstance(val, list):
                    for x in val:
                        if isinstance(x, ast.AST) and walk(x, acc + ([(id(n), fld)] if isinstance(n, (ast.If, ast.Try)) and fld in ('body', 'orelse', 'handlers') else [])):
                            return True
                elif isinstance(val, ast.AST) and walk(val, acc):
                    return True
            return False
        walk(fnode, [])
        return tuple(path)
    out: List[ast.AST] = []
    for u in sorted(uses, key=lambda x: (getattr(x, 'lineno', 0), getattr(x, 'col_offset', 0))):
        pu = dict(arm_path(u))
        ok = True
        for v in out:
            pv = dict(arm_path(v))
            if any(k in pv and pv[k] != pu[k] for k in pu):
                ok = False
        if ok or not out:
            out.append(u)
    return out


# --------------------------------------------------------------------------- (c) mutation of the iterated sequence
def mutated_while_iterated(fi: FuncInfo) -> List[str]:
    probs = []
    for loop in [n for n in ast.walk(fi.node) if isinstance(n, ast.For)]:
        it = norm(loop.iter)
        names = {it}
        # a local alias bound just before: ``items = x.items_list`` / the loop iterates the alias of an attribute
        for n in ast.walk(fi.node):
            if isinstance(n, ast.Assign) and len(n.targets) == 1 and isinstance(n.targets[0], ast.Name):
                if n.targets[0].id == it:
                    names.add(norm(n.value))
                elif norm(n.value) == it:
                    names.add(n.targets[0].id)
        for st in loop.body:
            for n in ast.walk(st):
                hit = None
                if isinstance(n, ast.Delete):
                    for t in n.targets:
                        if isinstance(t, ast.Subscript) and norm(t.value) in names:
                            hit = 'del %s' % norm(t)
                elif isinstance(n, ast.Call) and isinstance(n.func, ast.Attribute) and n.func.attr in MUTATORS \
                        and norm(n.func.value) in names:
                    hit = norm(n.func) + '(...)'
                elif isinstance(n, (ast.Assign, ast.AugAssign)):
                    for t in (n.targets if isinstance(n, ast.Assign) else [n.target]):
                        if isinstance(t, ast.Subscript) and isinstance(t.slice, ast.Slice) and norm(t.value) in names:
                            hit = 'slice assignment to %s' % norm(t.value)
                if hit:
                    probs.append('%s: the loop at line %d iterates %s and its body changes that sequence (%s, line %d): items are '
                                 'skipped or visited twice' % (fi.key, loop.lineno, it, hit, n.lineno))
    return probs


# --------------------------------------------------------------------------- (e) writes to shared state
def shared_state_writes(repo: Repo, funcs: Iterable[FuncInfo]) -> List[str]:
    """subscript stores / mutator calls / attribute stores on class-level or module-level objects, reached through
    ``cls.X``, ``self.X`` (X a class attribute holding a mutable), ``ClassName.X`` or a module-level name"""
    probs = []
    for fi in funcs:
        def target_kind(e) -> Optional[str]:
            ch = attr_chain(e)
            if ch and len(ch) == 2 and fi.cls is not None and ch[0] in ('cls', 'self', fi.cls.name):
                hit = fi.cls.find_attr(ch[1])
                if hit is not None and _mutable_value(hit[1]):
                    return 'class-level %s.%s' % (hit[0].name, ch[1])
            if isinstance(e, ast.Name) and e.id in fi.module.assigns and _mutable_value(fi.module.assigns[e.id][-1]):
                local = {n.id for n in ast.walk(fi.node) if isinstance(n, ast.Name) and isinstance(n.ctx, ast.Store)} | set(fi.params)
                if e.id not in local:
                    return 'module-level %s' % e.id
            return None
        for n in ast.walk(fi.node):
            k = None
            if isinstance(n, (ast.Assign, ast.AugAssign, ast.Delete)):
                for t in (n.targets if isinstance(n, (ast.Assign, ast.Delete)) else [n.target]):
                    if isinstance(t, ast.Subscript):
                        k = target_kind(t.value)
            elif isinstance(n, ast.Call) and isinstance(n.func, ast.Attribute) and n.func.attr in MUTATORS:
                k = target_kind(n.func.value)
            if k:
                probs.append('%s writes the %s (line %d): the result of a call depends on earlier calls' % (fi.key, k, n.lineno))
    return probs


def _mutable_value(e: ast.expr) -> bool:
    if isinstance(e, (ast.Dict, ast.List, ast.Set, ast.DictComp, ast.ListComp, ast.SetComp)):
        return True
    if isinstance(e, ast.Call) and norm(e.func) in ('dict', 'list', 'set', 'collections.defaultdict', 'defaultdict',
                                                    'collections.OrderedDict', 'OrderedDict', 'collections.deque', 'deque',
                                                    'bytearray', 'weakref.WeakValueDictionary'):
        return True
    return False


# --------------------------------------------------------------------------- (d) shared default objects
IMMUTABLE_CALLS = ('int', 'str', 'bytes', 'float', 'bool', 'tuple', 'frozenset', 'uid.UID', 'UID', 'object', 'struct.Struct')


def shared_default_objects(repo: Repo) -> List[str]:
    probs = []
    for fi in repo.all_functions():
        a = fi.node.args
        for d in list(a.defaults) + [x for x in a.kw_defaults if x is not None]:
            if _mutable_value(d):
                probs.append('%s has a mutable default argument %s' % (fi.key, norm(d)))
            elif isinstance(d, ast.Call) and norm(d.func) not in IMMUTABLE_CALLS:
                r = None
                try:
                    r = repo.resolve_expr(d.func, fi.module, fi.cls)
                except NotConst:
                    pass
                except Exception:
                    pass
                if isinstance(r, ClassRef):
                    probs.append('%s: the default %s is ONE %s object created when the function is defined and shared by every '
                                 'call that does not pass its own' % (fi.key, norm(d), r.name))
    return probs


# --------------------------------------------------------------------------- (f) objects shared through a closure
def closure_shared_objects(repo: Repo, modules: Iterable[str]) -> List[str]:
    """A function nested in a factory / decorator that writes to (or sends) an object created in the *enclosing* function:
    that object exists once per decoration, not once per call, so every call -- from every association thread -- shares it."""
    probs = []
    for m in modules:
        mod = repo.modules.get(m)
        if mod is None:
            continue
        for outer in [n for n in ast.walk(mod.tree) if isinstance(n, (ast.FunctionDef, ast.AsyncFunctionDef))]:
            inner_defs = [n for n in ast.walk(outer) if isinstance(n, (ast.FunctionDef, ast.Lambda)) and n is not outer]
            if not inner_defs:
                continue
            # objects created by a call in the outer function's own body (not inside the inner functions)
            created: Dict[str, int] = {}

            def own_stmts(fn):
                for st in ast.walk(fn):
                    yield st
            inner_nodes = {id(x) for d in inner_defs for x in ast.walk(d)}
            for n in ast.walk(outer):
                if id(n) in inner_nodes:
                    continue
                if isinstance(n, ast.Assign) and len(n.targets) == 1 and isinstance(n.targets[0], ast.Name) and \
                        isinstance(n.value, (ast.Call, ast.Dict, ast.List, ast.Set)):
                    if isinstance(n.value, ast.Call) and norm(n.value.func) in IMMUTABLE_CALLS + ('functools.wraps', 'len', 'getattr'):
                        continue
                    created[n.targets[0].id] = n.lineno
            if not created:
                continue
            for d in inner_defs:
                if isinstance(d, ast.Lambda):
                    continue
                bound = {a.arg for a in d.args.args + d.args.kwonlyargs} | \
                    {x.id for x in ast.walk(d) if isinstance(x, ast.Name) and isinstance(x.ctx, ast.Store)}
                # only functions that are returned / registered, i.e. called later and repeatedly
                for n in ast.walk(d):
                    name = None
                    how = None
                    if isinstance(n, (ast.Assign, ast.AugAssign)):
                        for t in (n.targets if isinstance(n, ast.Assign) else [n.target]):
                            base = t.value if isinstance(t, (ast.Attribute, ast.Subscript)) else None
                            if isinstance(base, ast.Name) and base.id in created and base.id not in bound:
                                name, how = base.id, 'writes %s' % norm(t)
                    elif isinstance(n, ast.Call) and isinstance(n.func, ast.Attribute) and n.func.attr in MUTATORS and \
                            isinstance(n.func.value, ast.Name) and n.func.value.id in created and n.func.value.id not in bound:
                        name, how = n.func.value.id, 'calls %s' % norm(n.func)
                    elif isinstance(n, ast.Call) and isinstance(n.func, ast.Attribute) and n.func.attr == 'send':
                        for a in n.args:
                            if isinstance(a, ast.Name) and a.id in created and a.id not in bound:
                                name, how = a.id, 'sends it'
                    if name:
                        probs.append('%s:%s: the nested function %s %s (line %d), but %r is created once, at line %d of the enclosing '
                                     'function, and shared by every later call' % (m, outer.name, d.name, how, n.lineno, name, created[name]))
    return sorted(set(probs))


# modules whose functions carry the behaviour of each property (its anchors and what they call)
MEMO_SCOPE = {
    'C01': ('pdu', 'userdataitems'), 'C02': ('pdu', 'userdataitems'), 'C03': ('dulprovider',), 'C04': ('fsm',),
    'C05': ('fsm', 'dulprovider'), 'C06': ('dimsemessages', 'dsutils', 'pdu'), 'C07': ('fsm', 'applicationentity', '__init__', 'dsutils'),
    'C08': ('dimsemessages', 'dsutils', 'asceprovider'), 'C09': ('asceprovider', 'applicationentity'),
    'C10': ('asceprovider', 'dimsemessages', 'dulprovider'), 'C11': ('asceprovider', 'applicationentity'),
    'C12': ('fsm', 'dulprovider', 'pdu', 'userdataitems'), 'C13': ('fsm', 'dulprovider', 'asceprovider'),
    'C14': ('asceprovider', 'fsm', 'pdu'), 'C15': ('sopclass', 'applicationentity', '__init__', 'dsutils', 'dimsemessages'),
    'C16': ('sopclass', 'dsutils', 'statuses'), 'C17': ('sopclass', 'dimsemessages', 'dsutils'), 'C18': ('statuses',),
    'C19': ('sopclass', 'dsutils', 'statuses'),
    'C20': ('__init__', 'applicationentity', 'asceprovider', 'dulprovider', 'fsm', 'sopclass', 'dsutils', 'dimsemessages', 'statuses'),
}


def memo_rule(repo: Repo, rep, prop: str, rule: str):
    """``rule``: every cache in the modules the property lives in is filed under a key that determines the cached value"""
    from .memo import find_memos, missing_inputs
    rep.rule(rule, 'results that are kept for re-use (a dict of results, a last-key / last-value pair, a named slot of a holder object) '
             'are filed under a key that determines them: every input of the cached value is part of the key, a module-level name, '
             'or an attribute of the cache\'s owner that only constructors set -- otherwise a later call with the same key and a '
             'different input is answered from the cache', 1)
    probs = []
    n_f = n_m = 0
    for modname in MEMO_SCOPE[prop]:
        if modname not in repo.modules:
            continue
        for fi in repo.all_functions():
            if fi.module.name != modname:
                continue
            n_f += 1
            for m in find_memos(fi.node):
                n_m += 1
                miss = missing_inputs(repo, fi, m)
                if miss:
                    probs.append('%s (line %d) keeps its result in %s under the key %s, but the result also depends on %s: a call that '
                                 'differs only there gets the result of an earlier one'
                                 % (fi.qualname, m.line, m.store, ast.unparse(m.key), ', '.join(miss)))
    rep.check(not probs, rule, '%s:caches' % '+'.join(MEMO_SCOPE[prop]), '', '%d functions, %d cache(s), keys complete' % (n_f, n_m),
              '; '.join(probs))


def writer_reuse_problems(repo: Repo) -> Tuple[List[str], List[str], int]:
    """The buffers ``dsutils`` hands to pydicom's writers.  A buffer created in the call is fresh.  One that outlives the call --
    an attribute of a module-level object, the result of a cached factory -- is (a) written by whichever thread encodes, so its
    holder must be per-thread (``threading.local`` or a subclass; a ``functools.lru_cache`` is per process), and (b) may hold what
    an earlier call that ended in an exception left behind, so it must be emptied (``seek(0)`` and ``truncate()``) before the
    first write of the call on every path.  -> (sharing problems, staleness problems, number of write sites examined)"""
    from .fsm_model import exc_hierarchy
    from .sym import SymClient, empty_state, is_token
    ds = repo.module('dsutils')
    share, stale = [], []
    n_w = 0
    # factories kept by a process-wide cache
    cached_factories = {}
    for fi in repo.all_functions():
        if fi.module.name != 'dsutils':
            continue
        decos = [ast.unparse(d).split('(')[0] for d in fi.node.decorator_list]
        if any(d.split('.')[-1] in ('lru_cache', 'cache') for d in decos):
            makes_object = any(isinstance(n, ast.Return) and n.value is not None and (
                isinstance(n.value, ast.Call) or isinstance(n.value, ast.Name)) for n in ast.walk(fi.node))
            if makes_object:
                cached_factories[fi.name] = fi

    def thread_local_root(name: str) -> Optional[bool]:
        vals = ds.assigns.get(name)
        if not vals or len(vals) != 1 or not isinstance(vals[0], ast.Call):
            return None
        fn = ast.unparse(vals[0].func)
        if fn in ('threading.local', 'local'):
            return True
        k = ds.classes.get(fn)
        if k is not None:
            return any(b.split('.')[-1] == 'local' for b in k.all_ext_bases())
        return False

    def ev(call, callee, client, state):
        last = callee.rsplit('.', 1)[-1]
        if last in ('write_dataset', 'write_data_element'):
            return 'write'
        if last == 'seek' and call.args and isinstance(call.args[0], ast.Constant) and call.args[0].value == 0:
            return 'rewind'
        if last == 'truncate':
            return 'truncate'
        if last in cached_factories:
            return 'cached-factory'
        return None
    for fname in ('encode', 'encode_element'):
        try:
            f = repo.func('dsutils', fname)
        except AnalysisError:
            continue
        c = SymClient(repo, f, event_of=ev, hierarchy=exc_hierarchy(repo),
                      inline=lambda fi_: repo.is_helper(fi_) and fi_.name not in cached_factories)
        c.run(empty_state())
        for e, s in c.log:
            if e.kind != 'write' or not e.args:
                continue
            n_w += 1
            buf = e.args[0]
            if is_token(buf) or buf.startswith('NEW_'):
                continue
            try:
                be = ast.parse(buf, mode='eval').body
            except SyntaxError:
                be = None
            root = buf.split('(')[0].split('.')[0].split('[')[0]
            if isinstance(be, ast.Call) and isinstance(be.func, ast.Name) and be.func.id == 'getattr' and be.args:
                r_ = be.args[0]
                while isinstance(r_, ast.Attribute):
                    r_ = r_.value
                root = r_.id if isinstance(r_, ast.Name) else root
            elif isinstance(be, ast.Call) and not any(nm in ast.unparse(be.func) for nm in cached_factories):
                continue            # built by a call made in this very call: a new object
            if any(x.kind == 'cached-factory' for x in s.trail) and any(nm in buf for nm in cached_factories):
                share.append('%s writes into the buffer returned by %s, which functools keeps one per argument tuple for the whole process: '
                             'the provider threads and the service threads encode into the same buffer at the same time'
                             % (fname, [nm for nm in cached_factories if nm in buf][0]))
                continue
            tl = thread_local_root(root) if root in ds.assigns else None
            if tl is False:
                share.append('%s writes into %s, an object shared by all threads' % (fname, buf))
            elif tl is None and root not in f.params:
                share.append('%s writes into %s, whose holder is not known to be per-thread' % (fname, buf))
            before = list(s.trail)
            bases = (buf, buf + '.parent')
            rew = [x for x in before if x.kind == 'rewind' and x.callee.rsplit('.', 1)[0] in bases]
            tru = [x for x in before if x.kind == 'truncate' and x.callee.rsplit('.', 1)[0] in bases]
            if not (rew and tru):
                stale.append('%s writes into the re-used buffer %s without emptying it first (seek(0) and truncate() before the write, on this '
                             'path: %s): what an earlier encode that failed half-way wrote is still in it and is returned in front of the '
                             'new bytes' % (fname, buf, 'rewound only' if rew else 'truncated only' if tru else 'neither'))
    return sorted(set(share)), sorted(set(stale)), n_w


def log_argument_problems(repo: Repo, fi: FuncInfo) -> List[str]:
    """Arguments of log statements are evaluated whether or not a handler emits the record, before the statement that follows.
    Reported: a subscript of a constant table (module-level dict / tuple display, possibly nested) by a key that is not a constant
    -- ``NAMES[source]`` -- anywhere in the argument expressions, helper functions they call included (three levels): for a key
    outside the table the log statement raises KeyError / IndexError and what the function was about to do does not happen."""
    probs: List[str] = []

    def table_of(e, m) -> Optional[ast.AST]:
        """the display a subscripted expression denotes when it is a module-level constant table (or an entry of one)"""
        if isinstance(e, ast.Name):
            vals = m.assigns.get(e.id)
            if vals and len(vals) == 1 and isinstance(vals[0], (ast.Dict, ast.Tuple, ast.List)) and not repo.table_writers(m.name, e.id):
                return vals[0]
            return None
        if isinstance(e, ast.Subscript) and not isinstance(e.slice, ast.Slice):
            outer = table_of(e.value, m)
            if isinstance(outer, ast.Dict) and outer.values and all(isinstance(v, (ast.Dict, ast.Tuple, ast.List)) for v in outer.values):
                return outer.values[0]       # a row of a table of tables
        return None

    def scan(expr, m, where, depth, seen):
        for n in ast.walk(expr):
            if isinstance(n, ast.Subscript) and isinstance(n.ctx, ast.Load) and not isinstance(n.slice, ast.Slice) \
                    and not isinstance(n.slice, ast.Constant):
                t = table_of(n.value, m)
                if t is not None:
                    keys = ', '.join(norm(k) for k in (t.keys if isinstance(t, ast.Dict) else [])[:6]) if isinstance(t, ast.Dict) \
                        else '0..%d' % (len(t.elts) - 1)
                    probs.append('%s: the log statement at line %d evaluates %s (%s): for a value outside {%s} it raises %s before the '
                                 'statement that follows it runs' % (fi.key, where, norm(n), 'through ' + ' -> '.join(seen) if seen else 'directly',
                                                                      keys, 'KeyError' if isinstance(t, ast.Dict) else 'IndexError'))
            if isinstance(n, ast.Call) and depth < 3:
                try:
                    r = repo.resolve_expr(n.func, m) if not isinstance(n.func, ast.Name) else repo.resolve_name(n.func.id, m)
                except Exception:
                    r = None
                from .srcmodel import FuncRef
                if isinstance(r, FuncRef):
                    try:
                        g = repo.func(r.module, r.qualname)
                    except Exception:
                        g = None
                    if g is not None and g.parent is None and g.key not in seen:
                        for st in body_without_docstring(g.node):
                            scan(st, g.module, where, depth + 1, seen + [g.key])
    for n in ast.walk(fi.node):
        if isinstance(n, ast.Call) and repo.is_logging_call(n, fi.module):
            for a in list(n.args) + [k.value for k in n.keywords]:
                scan(a, fi.module, n.lineno, 0, [])
    return sorted(set(probs))


def log_rule(repo: Repo, rep, prop: str, rule: str):
    rep.rule(rule, 'log statements cannot fail: no argument of a log statement (helpers it calls included) subscripts a constant table by '
             'a value that may lie outside the table -- the arguments are evaluated before the statement that follows, whether or not the '
             'record is emitted', 1)
    probs = []
    n_f = n_l = 0
    for modname in MEMO_SCOPE[prop]:
        for fi in repo.all_functions():
            if fi.module.name != modname:
                continue
            n_f += 1
            n_l += sum(1 for n in ast.walk(fi.node) if isinstance(n, ast.Call) and repo.is_logging_call(n, fi.module))
            probs += log_argument_problems(repo, fi)
    rep.check(not probs, rule, '%s:log-arguments' % '+'.join(MEMO_SCOPE[prop]), '', '%d functions, %d log statements' % (n_f, n_l),
              '; '.join(sorted(set(probs))[:6]))


# command-set backed numeric fields for which 0 is a legal, distinct value (PS3.7: message ids are 16-bit unsigned; status 0000H
# is Success; priority 0000H is MEDIUM; sub-operation counts reach 0)
ZERO_IS_A_VALUE = ('message_id', 'message_id_being_responded_to', 'move_originator_message_id', 'status', 'priority',
                   'num_of_remaining_sub_ops', 'num_of_completed_sub_ops', 'num_of_failed_sub_ops', 'num_of_warning_sub_ops')


def zero_as_missing(repo: Repo, fi: FuncInfo) -> List[str]:
    """truth tests of a numeric DIMSE field: ``if not msg.message_id`` treats the legal value 0 like an absent field"""
    probs: List[str] = []

    def field_of(e) -> Optional[str]:
        if isinstance(e, ast.Attribute) and e.attr in ZERO_IS_A_VALUE and isinstance(e.ctx, ast.Load):
            return norm(e)
        if isinstance(e, ast.Call) and isinstance(e.func, ast.Name) and e.func.id == 'getattr' and len(e.args) >= 2 \
                and isinstance(e.args[1], ast.Constant) and e.args[1].value in ZERO_IS_A_VALUE:
            return '%s.%s' % (norm(e.args[0]), e.args[1].value)
        return None

    def truth(e, line):
        """``e`` is evaluated for its truth"""
        while isinstance(e, ast.UnaryOp) and isinstance(e.op, ast.Not):
            e = e.operand
        if isinstance(e, ast.BoolOp):
            for v in e.values:
                truth(v, line)
            return
        if isinstance(e, ast.Call) and isinstance(e.func, ast.Name) and e.func.id == 'bool' and len(e.args) == 1:
            truth(e.args[0], line)
            return
        f = field_of(e)
        if f is not None:
            probs.append('%s line %d: %s is tested for truth: the legal value 0 is treated like a missing field' % (fi.key, line, f))
    for n in ast.walk(fi.node):
        if isinstance(n, (ast.If, ast.While, ast.IfExp, ast.Assert)):
            truth(n.test, getattr(n, 'lineno', 0))
        elif isinstance(n, ast.comprehension):
            for c in n.ifs:
                truth(c, getattr(c, 'lineno', 0))
        elif isinstance(n, ast.BoolOp):
            # ``a or b`` as a value: every operand but the last is tested
            for v in n.values[:-1]:
                truth(v, getattr(n, 'lineno', 0))
        elif isinstance(n, ast.UnaryOp) and isinstance(n.op, ast.Not):
            truth(n.operand, getattr(n, 'lineno', 0))
    return sorted(set(probs))


def zero_rule(repo: Repo, rep, prop: str, rule: str):
    rep.rule(rule, 'a numeric DIMSE field whose value may legally be 0 (message ids, status, priority, sub-operation counts) is never '
             'tested for truth: "missing" is ``is None`` / ``== \'\'``, 0 is a value (Message ID 0 is a legal id; status 0000H is Success)', 1)
    probs = []
    n_f = 0
    for modname in MEMO_SCOPE[prop]:
        for fi in repo.all_functions():
            if fi.module.name == modname:
                n_f += 1
                probs += zero_as_missing(repo, fi)
    rep.check(not probs, rule, '%s:zero-is-a-value' % '+'.join(MEMO_SCOPE[prop]), '', '%d functions, no truth test of such a field' % n_f,
              '; '.join(sorted(set(probs))[:6]))


# --------------------------------------------------------------------------- in-memory streams created over initial content

STREAM_CTORS = ('BytesIO', 'io.BytesIO', 'six.BytesIO', 'cStringIO', 'StringIO', 'io.StringIO', 'six.StringIO', 'six.moves.cStringIO',
                'filebase.DicomBytesIO', 'DicomBytesIO')
_SEEK_END = ('2', 'os.SEEK_END', 'io.SEEK_END', 'SEEK_END')


def _stream_ctor_with_content(e, fi: FuncInfo) -> bool:
    """``BytesIO(x)`` (any spelling the package imports) with initial content x other than the empty literal"""
    if not (isinstance(e, ast.Call) and e.args and not e.keywords):
        return False
    name = ast.unparse(e.func)
    if name not in STREAM_CTORS and name.rsplit('.', 1)[-1] not in ('BytesIO', 'cStringIO', 'StringIO', 'DicomBytesIO'):
        return False
    a = e.args[0]
    return not (isinstance(a, ast.Constant) and a.value in (b'', ''))


def stream_overwrite_problems(repo: Repo, funcs: Iterable[FuncInfo]) -> Tuple[List[str], int]:
    """An in-memory stream created over initial content (``BytesIO(first)``) is positioned at offset 0: the next ``write()``
    overwrites that content instead of following it.  Collecting further bytes in such a stream is right only after
    ``seek(0, 2)``.  For every place (attribute of self, local) that is bound to such a stream -- directly, or as the result of
    a function that returns one -- every ``write`` / ``writelines`` on that place -- directly, through a local bound to an
    expression that may evaluate to it (``sink = a or b``), or by passing it to a function that writes to that parameter --
    anywhere in the given functions must come after a seek to the end made where the stream is created.
    -> (problems, number of creation sites with content examined)"""
    from .srcmodel import FuncRef, NotConst
    funcs = list(funcs)
    created: Dict[str, Tuple[FuncInfo, ast.AST, bool]] = {}
    n_sites = 0

    def blocks(node):
        for n in ast.walk(node):
            for fld in ('body', 'orelse', 'finalbody'):
                b = getattr(n, fld, None)
                if isinstance(b, list) and b and isinstance(b[0], ast.stmt):
                    yield b

    def callee(call, fi) -> Optional[FuncInfo]:
        try:
            r = repo.resolve_expr(call.func, fi.module, fi.cls)
        except (NotConst, Exception):
            return None
        if isinstance(r, FuncRef):
            try:
                return repo.func(r.module, r.qualname)
            except Exception:
                return None
        return None

    def seek_end_follows(body, i, place) -> bool:
        for later in body[i + 1:]:
            if isinstance(later, ast.Expr) and isinstance(later.value, ast.Call) and isinstance(later.value.func, ast.Attribute) \
                    and later.value.func.attr == 'seek' and ast.unparse(later.value.func.value) == place \
                    and len(later.value.args) == 2 and ast.unparse(later.value.args[1]) in _SEEK_END \
                    and isinstance(later.value.args[0], ast.Constant) and later.value.args[0].value == 0:
                return True
            if any(isinstance(n, ast.Call) and isinstance(n.func, ast.Attribute) and n.func.attr in ('write', 'writelines')
                   and ast.unparse(n.func.value) == place for n in ast.walk(later)):
                return False
            if isinstance(later, ast.Return):
                return False
        return False
    _ret_cache: Dict[str, Optional[ast.AST]] = {}

    def returns_content_stream(f: FuncInfo) -> Optional[ast.AST]:
        """the creation expression, when some path of f returns a stream created over content and not moved to its end"""
        if f.key in _ret_cache:
            return _ret_cache[f.key]
        _ret_cache[f.key] = None
        out = None
        for body in blocks(f.node):
            for i, st in enumerate(body):
                if isinstance(st, ast.Return) and st.value is not None and _stream_ctor_with_content(st.value, f):
                    out = st.value
                if isinstance(st, ast.Assign) and len(st.targets) == 1 and isinstance(st.targets[0], ast.Name) \
                        and _stream_ctor_with_content(st.value, f) and not seek_end_follows(body, i, st.targets[0].id):
                    nm = st.targets[0].id
                    if any(isinstance(r, ast.Return) and isinstance(r.value, ast.Name) and r.value.id == nm for r in ast.walk(f.node)):
                        out = st.value
        _ret_cache[f.key] = out
        return out

    def plain_writes(f: FuncInfo):
        """(call node, receiver text) of every write()/writelines() in f that is not made right after moving the same
        receiver to its end (``x.seek(0, 2); x.write(b)`` appends whatever the position was)"""
        appending = set()
        for body in blocks(f.node):
            at_end = set()
            for st in body:
                calls = [n for n in ast.walk(st) if isinstance(n, ast.Call) and isinstance(n.func, ast.Attribute)]
                for n in calls:
                    recv = ast.unparse(n.func.value)
                    if n.func.attr == 'seek' and len(n.args) == 2 and ast.unparse(n.args[1]) in _SEEK_END \
                            and isinstance(n.args[0], ast.Constant) and n.args[0].value == 0 and isinstance(st, ast.Expr) and st.value is n:
                        at_end.add(recv)
                    elif n.func.attr in ('write', 'writelines'):
                        if recv in at_end and isinstance(st, ast.Expr) and st.value is n:
                            appending.add(id(n))      # the position is at the end again after an appending write
                        else:
                            at_end.discard(recv)
                    elif n.func.attr in ('seek', 'read', 'readline', 'truncate', 'readinto'):
                        at_end.discard(recv)
                if not isinstance(st, ast.Expr):
                    at_end = {r for r in at_end if not any(isinstance(n, (ast.Call,)) and r in ast.unparse(n) for n in ast.walk(st))}
        for n in ast.walk(f.node):
            if isinstance(n, ast.Call) and isinstance(n.func, ast.Attribute) and n.func.attr in ('write', 'writelines') \
                    and id(n) not in appending:
                yield n, ast.unparse(n.func.value)

    def written_params(f: FuncInfo) -> Set[int]:
        out = set()
        params = [p for p in f.params if p not in ('self', 'cls')]
        for n, recv in plain_writes(f):
            if recv in params:
                out.add(params.index(recv))
        return out
    for fi in funcs:
        for body in blocks(fi.node):
            for i, st in enumerate(body):
                if not (isinstance(st, ast.Assign) and len(st.targets) == 1):
                    continue
                how = None
                if _stream_ctor_with_content(st.value, fi):
                    how = st.value
                elif isinstance(st.value, ast.Call):
                    cf = callee(st.value, fi)
                    if cf is not None and cf.key != fi.key:
                        how = returns_content_stream(cf)
                if how is None:
                    continue
                place = ast.unparse(st.targets[0])
                n_sites += 1
                if not seek_end_follows(body, i, place):
                    created.setdefault(place, (fi, st, how))
    probs = []
    for place, (cfi, cst, how) in sorted(created.items()):
        is_attr = place.startswith('self.')
        for fi in funcs:
            if not is_attr and fi is not cfi:
                continue
            if is_attr and (fi.cls is None or cfi.cls is None or fi.cls.key != cfi.cls.key):
                continue
            aliases = {place}
            for n in ast.walk(fi.node):
                if isinstance(n, ast.Assign) and len(n.targets) == 1 and isinstance(n.targets[0], ast.Name) \
                        and isinstance(n.value, (ast.BoolOp, ast.IfExp, ast.Attribute, ast.Name)):
                    leaves = n.value.values if isinstance(n.value, ast.BoolOp) else \
                        [n.value.body, n.value.orelse] if isinstance(n.value, ast.IfExp) else [n.value]
                    if any(ast.unparse(l_) == place for l_ in leaves):
                        aliases.add(n.targets[0].id)
            direct = {id(n_) for n_, recv_ in plain_writes(fi) if recv_ in aliases}
            for n in ast.walk(fi.node):
                if not isinstance(n, ast.Call):
                    continue
                hit = None
                if id(n) in direct:
                    hit = '%s() at line %d (%s)' % (n.func.attr, n.lineno, fi.qualname)
                elif isinstance(n.func, ast.Attribute) and n.func.attr in ('write', 'writelines'):
                    continue
                else:
                    idx = [k for k, a in enumerate(n.args) if ast.unparse(a) in aliases]
                    if idx:
                        cf = callee(n, fi)
                        if cf is not None and set(idx) & written_params(cf):
                            hit = 'the write in %s, which it is passed to at line %d (%s)' % (cf.qualname, n.lineno, fi.qualname)
                if hit:
                    probs.append('%s: %s holds a stream created over its first content (%s) and still positioned at offset 0; %s '
                                 'overwrites that content instead of following it -- seek(0, 2) after creating it, or create it '
                                 'empty and write the first content' % (cfi.qualname, place, ast.unparse(how)[:60], hit))
    return sorted(set(probs)), n_sites


# --------------------------------------------------------------------------- one object read in two phases (eager call, lazy iteration)

def _own_nodes(fnode):
    """nodes of a function body that run when the function runs (nested functions, lambdas and the lazy parts of generator
    expressions excluded)"""
    stack = list(fnode.body)
    while stack:
        n = stack.pop()
        if isinstance(n, (ast.FunctionDef, ast.AsyncFunctionDef, ast.Lambda, ast.ClassDef)):
            continue
        if isinstance(n, ast.GeneratorExp):
            # only the first iterable is evaluated where the expression stands
            stack.append(n.generators[0].iter)
            continue
        yield n
        stack.extend(ast.iter_child_nodes(n))


def _lazy_nodes_of_genexp(g: ast.GeneratorExp):
    for part in [g.elt] + [c for gen in g.generators for c in gen.ifs] + [gen.iter for gen in g.generators[1:]]:
        for n in ast.walk(part):
            yield n


def phase_split_problems(raw_repo: Repo, fi: FuncInfo, state_attrs: Optional[Set[str]] = None) -> Tuple[List[str], int]:
    """``fi`` (as written, not normalised) produces an iterator over an object's state.  Either it is a generator function --
    nothing runs before the first item is pulled, all reads of ``self`` happen while the items are pulled -- or it is a plain
    function that reads what it needs at the call and hands values to whatever lazy part it returns.  Mixed is wrong: a plain
    function that reads part of ``self`` at the call and returns a generator (a helper generator function, a generator
    expression) that reads ``self`` again when pulled describes two moments of an object the caller may change in between.
    -> (problems, number of lazy parts examined)"""
    fnode = fi.node
    own = list(_own_nodes(fnode))
    if any(isinstance(n, (ast.Yield, ast.YieldFrom)) for n in own):
        return [], 0

    def self_reads(nodes, self_name='self'):
        out = {}
        for n in nodes:
            if isinstance(n, ast.Attribute) and isinstance(n.value, ast.Name) and n.value.id == self_name and isinstance(n.ctx, ast.Load):
                m_ = fi.cls.find_method(n.attr) if fi.cls is not None else None
                if m_ is not None and m_.kind != 'property':
                    continue
                if state_attrs is not None and n.attr not in state_attrs:
                    continue
                out.setdefault(n.attr, getattr(n, 'lineno', 0))
        return out
    eager = self_reads(own)
    lazy = {}
    n_lazy = 0
    for n in own:
        if isinstance(n, ast.GeneratorExp):
            n_lazy += 1
            for a, ln in self_reads(_lazy_nodes_of_genexp(n)).items():
                lazy.setdefault(a, ('a generator expression', ln))
        if isinstance(n, ast.Call):
            g = None
            fn = n.func
            if isinstance(fn, ast.Attribute) and isinstance(fn.value, ast.Name) and fn.value.id == 'self' and fi.cls is not None:
                g = fi.cls.find_method(fn.attr)
            elif isinstance(fn, ast.Name):
                g = fi.module.functions.get(fn.id)
            if g is None or g.node is fnode:
                continue
            gown = list(_own_nodes(g.node))
            if not any(isinstance(x, (ast.Yield, ast.YieldFrom)) for x in gown):
                continue
            n_lazy += 1
            sname = g.params[0] if g.params and g.cls is not None and g.kind == 'method' else None
            if sname is None:
                continue
            for a, ln in self_reads(gown, sname).items():
                lazy.setdefault(a, ('the generator %s' % g.qualname, ln))
    probs = []
    if eager and lazy:
        a0 = sorted(lazy)[0]
        probs.append('%s reads self.%s at the call (line %d) and returns %s, which reads self.%s when its items are pulled (line %d): '
                     'the object may be changed between the two moments (it is handed to another thread that pulls later), so the '
                     'parts of one message come from two states of it -- pass the value in as an argument, or read everything lazily'
                     % (fi.qualname, sorted(eager)[0], eager[sorted(eager)[0]], lazy[a0][0], a0, lazy[a0][1]))
    return probs, n_lazy


# --------------------------------------------------------------------------- pydicom API facts read from its source

_PYDICOM_UID_RAISING: Optional[Dict[str, str]] = None


def pydicom_uid_raising_properties() -> Dict[str, str]:
    """{property of pydicom.uid.UID: reason} for the properties that can raise -- their body has a ``raise`` or reads another
    such property of ``self`` -- read from the installed pydicom/uid.py by parsing, not importing.  (``UID.is_implicit_VR``,
    ``is_little_endian``, ... raise ValueError for a UID that is not a known transfer syntax: a private one, say.)"""
    global _PYDICOM_UID_RAISING
    if _PYDICOM_UID_RAISING is not None:
        return _PYDICOM_UID_RAISING
    import importlib.util
    import os
    spec = importlib.util.find_spec('pydicom')
    if spec is None or not spec.submodule_search_locations:
        raise AnalysisError('pydicom is not installed in this interpreter: cannot read pydicom/uid.py')
    path = os.path.join(list(spec.submodule_search_locations)[0], 'uid.py')
    with open(path) as f:
        tree = ast.parse(f.read())
    props: Dict[str, ast.FunctionDef] = {}
    for c in tree.body:
        if isinstance(c, ast.ClassDef) and c.name == 'UID':
            for m in c.body:
                if isinstance(m, ast.FunctionDef) and any(ast.unparse(d) == 'property' for d in m.decorator_list):
                    props[m.name] = m
    if not props:
        raise AnalysisError('%s: class UID with properties not found' % path)
    out: Dict[str, str] = {}
    for n_, m in props.items():
        if any(isinstance(x, ast.Raise) for x in ast.walk(m)):
            out[n_] = 'raises in its own body'
    changed = True
    while changed:
        changed = False
        for n_, m in props.items():
            if n_ in out:
                continue
            for x in ast.walk(m):
                if isinstance(x, ast.Attribute) and isinstance(x.value, ast.Name) and x.value.id == 'self' and x.attr in out:
                    out[n_] = 'reads self.%s' % x.attr
                    changed = True
                    break
    _PYDICOM_UID_RAISING = out
    return out
