"""Tests that cannot fail: values that Python / the standard library define to be true whatever happened.

``if event.is_set:`` (the bound method, not its result), ``if select.select(r, w, x, t):`` (a 3-tuple), ``if filter(f, xs):``
(an iterator object in Python 3), ``if (a, b):``, ``if lambda: ...`` -- each reads like a question and is a constant.  The
branch it guards is taken always (or never), so whatever the property needs that question for is not decided.  Rule ``Cnn.Z4``
looks at every truth context (if / while / assert tests, operands of and / or / not, conditional expressions, comprehension
filters, ``bool(..)``) of the functions in the modules a property lives in, on the normalised tree (helpers in place).

What makes an expression always true is taken from the language definition and from the standard library itself: the class a
constructor call like ``threading.Event()`` creates is looked up by importing that standard module (never a module of the
package under analysis) and asking whether the attribute is a function of the class."""
from __future__ import annotations

import ast
import importlib
from typing import Dict, Iterable, List, Optional, Set, Tuple

from .srcmodel import FuncInfo, Repo

STDLIB_MODULES = ('threading', 'queue', 'socket', 'collections', 'io', 'select', 'struct', 'time', 'itertools', 'functools', 'logging')
# names that are methods on every standard type that has them (never data attributes)
ALWAYS_METHODS = ('is_set', 'isSet', 'is_alive', 'isAlive', 'empty', 'full', 'locked', 'done', 'cancelled', 'running', 'readable',
                  'writable', 'seekable', 'isatty', 'fileno', 'is_integer', 'isdigit', 'isalpha', 'isspace', 'getvalue', 'qsize')
LAZY_CALLS = ('filter', 'map', 'zip', 'iter', 'reversed', 'enumerate', 'six.moves.filter', 'six.moves.map', 'six.moves.zip',
              'itertools.chain', 'itertools.islice', 'itertools.groupby', 'itertools.takewhile', 'itertools.dropwhile')


def _stdlib_class(name: str, fi: FuncInfo):
    """the standard-library class a dotted constructor name denotes in fi's module, or None"""
    parts = name.split('.')
    imports = getattr(fi.module, 'imports', {}) or {}
    head = parts[0]
    target = imports.get(head, head) if isinstance(imports, dict) else head
    if not isinstance(target, str):
        target = head
    full = '.'.join([target] + parts[1:])
    full = full.replace('six.moves.queue', 'queue').replace('six.moves.', '')
    mod, _, attr = full.rpartition('.')
    if not mod or mod.split('.')[0] not in STDLIB_MODULES:
        return None
    try:
        m = importlib.import_module(mod)
    except Exception:
        return None
    k = getattr(m, attr, None)
    if isinstance(k, type):
        return k
    # factory functions of the threading module (Event, Lock, ...) in old versions: not needed on 3.x
    return None


def _truth_contexts(fnode) -> Iterable[ast.expr]:
    def atoms(e):
        if isinstance(e, ast.BoolOp):
            for v in e.values:
                for a in atoms(v):
                    yield a
        elif isinstance(e, ast.UnaryOp) and isinstance(e.op, ast.Not):
            for a in atoms(e.operand):
                yield a
        else:
            yield e
    for n in ast.walk(fnode):
        tests = []
        if isinstance(n, (ast.If, ast.While, ast.IfExp, ast.Assert)):
            tests.append(n.test)
        elif isinstance(n, ast.comprehension):
            tests.extend(n.ifs)
        elif isinstance(n, ast.Call) and isinstance(n.func, ast.Name) and n.func.id == 'bool' and len(n.args) == 1:
            tests.append(n.args[0])
        elif isinstance(n, ast.BoolOp):
            # ``x = a or b`` / ``return a and b``: every operand but the last is tested
            tests.extend(n.values[:-1])
        elif isinstance(n, ast.UnaryOp) and isinstance(n.op, ast.Not):
            tests.append(n.operand)
        for t in tests:
            for a in atoms(t):
                yield a


def always_true_tests(repo: Repo, fi: FuncInfo, data_names: Optional[Set[str]] = None) -> List[str]:
    """-> one line per truth test in fi whose operand is true by definition"""
    fnode = fi.node
    out: List[str] = []
    data_names = data_names or set()
    # locals bound exactly once: their defining expression stands for them
    binds: Dict[str, List[ast.expr]] = {}
    for n in ast.walk(fnode):
        if isinstance(n, ast.Assign) and len(n.targets) == 1 and isinstance(n.targets[0], ast.Name):
            binds.setdefault(n.targets[0].id, []).append(n.value)
        elif isinstance(n, (ast.AugAssign, ast.AnnAssign, ast.For, ast.With, ast.NamedExpr)) or isinstance(n, ast.Assign):
            for t in ast.walk(n.target if hasattr(n, 'target') else ast.Tuple(elts=getattr(n, 'targets', []), ctx=ast.Store())):
                if isinstance(t, ast.Name) and isinstance(t.ctx, ast.Store) and not (isinstance(n, ast.Assign) and len(n.targets) == 1
                                                                                     and n.targets[0] is t):
                    binds.setdefault(t.id, []).extend([None, None])
    params = set(fi.params)

    def receiver_class(e):
        """standard class of ``self.x`` / a local, from the constructor call it is bound to"""
        if isinstance(e, ast.Attribute) and isinstance(e.value, ast.Name) and e.value.id in ('self', 'cls') and fi.cls is not None:
            ctors = set()
            for k in fi.cls.mro():
                for m in list(k.methods.values()) + list(k.setters.values()):
                    for n in ast.walk(m.node):
                        if isinstance(n, ast.Assign):
                            for t in n.targets:
                                if isinstance(t, ast.Attribute) and isinstance(t.value, ast.Name) and t.value.id == 'self' and t.attr == e.attr:
                                    ctors.add(ast.unparse(n.value.func) if isinstance(n.value, ast.Call) else None)
            if len(ctors) == 1 and None not in ctors:
                return _stdlib_class(ctors.pop(), fi)
            return None
        if isinstance(e, ast.Name) and e.id not in params and len(binds.get(e.id, [])) == 1 and isinstance(binds[e.id][0], ast.Call):
            return _stdlib_class(ast.unparse(binds[e.id][0].func), fi)
        if isinstance(e, ast.Call):
            return _stdlib_class(ast.unparse(e.func), fi)
        return None

    def why_true(e, depth=0) -> Optional[str]:
        if isinstance(e, ast.Lambda):
            return 'a lambda expression (a function object)'
        if isinstance(e, (ast.Tuple, ast.List, ast.Set)) and e.elts and not any(isinstance(x, ast.Starred) for x in e.elts):
            return 'a display with %d element(s)' % len(e.elts)
        if isinstance(e, ast.Dict) and e.keys and all(k is not None for k in e.keys):
            return 'a dict display with %d item(s)' % len(e.keys)
        if isinstance(e, ast.GeneratorExp):
            return 'a generator expression (a generator object, whatever it would yield)'
        if isinstance(e, ast.Call):
            name = ast.unparse(e.func)
            if name in ('select.select', 'select') and len(e.args) >= 3:
                return 'the result of select.select(): a 3-tuple of lists, true whether or not any list has members'
            if name in LAZY_CALLS and not (name == 'iter' and len(e.args) == 2) and name.split('.')[-1] not in fi.module.functions:
                return 'the result of %s(): an iterator object in Python 3, true whatever it would yield' % name
            return None
        if isinstance(e, ast.Attribute):
            k = receiver_class(e.value)
            if k is not None:
                a = getattr(k, e.attr, None)
                if a is not None and callable(a) and not isinstance(a, (property, type)):
                    return 'the method %s.%s itself, not its result (the call parentheses are missing)' % (k.__name__, e.attr)
                return None
            if isinstance(e.value, ast.Name) and e.value.id == 'self' and fi.cls is not None:
                m = fi.cls.find_method(e.attr)
                assigned = any(isinstance(t, ast.Attribute) and isinstance(t.value, ast.Name) and t.value.id == 'self' and t.attr == e.attr
                               and isinstance(t.ctx, ast.Store) for k_ in fi.cls.mro() for mm in k_.methods.values() for t in ast.walk(mm.node))
                if m is not None and m.kind in ('method', 'staticmethod', 'classmethod') and not assigned and e.attr not in fi.cls.attrs:
                    return 'the method %s.%s itself, not its result (the call parentheses are missing)' % (fi.cls.name, e.attr)
                return None
            if e.attr in ALWAYS_METHODS and e.attr not in data_names:
                return 'the method %s itself, not its result (the call parentheses are missing)' % e.attr
            return None
        if isinstance(e, ast.Name) and depth < 2 and e.id not in params and len(binds.get(e.id, [])) == 1 and binds[e.id][0] is not None:
            w = why_true(binds[e.id][0], depth + 1)
            if w is not None:
                return 'the local %s, bound to %s' % (e.id, w)
        return None
    seen = set()
    for t in _truth_contexts(fnode):
        w = why_true(t)
        if w is None:
            continue
        key = (getattr(t, 'lineno', 0), ast.unparse(t))
        if key in seen:
            continue
        seen.add(key)
        out.append('%s line %d: ``%s`` is tested for truth, but it is %s -- the test cannot fail' % (fi.qualname, key[0], key[1][:70], w))
    return out


def data_attribute_names(repo: Repo) -> Set[str]:
    """every name the package uses as a data attribute or property (so a same-named test is not a forgotten call)"""
    names: Set[str] = set()
    for c in repo.all_classes():
        names |= set(c.attrs)
        for m in c.methods.values():
            if m.kind == 'property':
                names.add(m.name)
            for n in ast.walk(m.node):
                if isinstance(n, ast.Attribute) and isinstance(n.ctx, ast.Store):
                    names.add(n.attr)
    return names


def truth_rule(repo: Repo, rep, prop: str, rule: str, extra_modules: Tuple[str, ...] = ()):
    from .pitfalls import MEMO_SCOPE
    rep.rule(rule, 'no decision rests on a test that cannot fail: nothing tested for truth is true by definition -- a method object whose '
             'call parentheses are missing (``ev.is_set``), the 3-tuple of select.select(), an iterator object (filter / map / zip / '
             'generator expression in Python 3), a non-empty display, a lambda', 1)
    mods = tuple(MEMO_SCOPE[prop]) + tuple(m for m in extra_modules if m not in MEMO_SCOPE[prop])
    dn = data_attribute_names(repo)
    probs: List[str] = []
    n_f = 0
    for modname in mods:
        for fi in repo.all_functions():
            if fi.module.name == modname:
                n_f += 1
                probs += always_true_tests(repo, fi, dn)
    rep.check(not probs, rule, '%s:tests-that-cannot-fail' % '+'.join(mods), '', '%d functions, every truth test can fail' % n_f,
              '; '.join(sorted(set(probs))[:6]))


# --------------------------------------------------------------------------- socket modes are per socket, not per call

def socket_mode_problems(repo: Repo, modules: Tuple[str, ...] = ('dulprovider', 'fsm', 'asceprovider')) -> Tuple[List[str], int]:
    """``sock.setblocking(False)`` / ``sock.settimeout(0)`` switch the socket, not the next call: every later ``sendall`` on it --
    the state machine writes whole PDUs with it -- raises BlockingIOError as soon as the kernel buffer is full (a PDU larger than
    the free send buffer: a big negotiated maximum, a slow receiver).  A function that makes the transport non-blocking must put
    it back (``setblocking(True)`` / ``settimeout(None)``) on every path on which it ends; a per-call flag (``MSG_DONTWAIT``)
    needs nothing.  Decided per function, along each path.  -> (problems, number of mode switches seen)"""
    from .fsm_model import exc_hierarchy
    from .sym import SymClient, empty_state
    hier = exc_hierarchy(repo)
    probs: List[str] = []
    n_sw = 0

    def ev(call, callee, client, state):
        last = callee.rsplit('.', 1)[-1]
        if last in ('setblocking', 'settimeout') and call.args:
            return 'mode'
        return None

    def mode_of(e) -> Optional[str]:
        a = e.args[0] if e.args else ''
        last = e.callee.rsplit('.', 1)[-1]
        if last == 'setblocking':
            return 'nonblocking' if a in ('False', '0') else 'blocking' if a in ('True', '1') else None
        if a in ('0', '0.0', 'False'):
            return 'nonblocking'
        if a == 'None':
            return 'blocking'
        return 'timeout'
    for fi in repo.all_functions():
        if fi.module.name not in modules:
            continue
        if not any(isinstance(n, ast.Attribute) and n.attr in ('setblocking', 'settimeout') for n in ast.walk(fi.node)):
            continue
        c = SymClient(repo, fi, event_of=ev, hierarchy=hier, inline=repo.is_helper)
        fin = c.final_states(c.run(empty_state()))
        n_sw += sum(1 for e, s in c.log if e.kind == 'mode')
        for s, how in fin:
            cur: Dict[str, Tuple[str, int]] = {}
            for e in s.trail:
                if e.kind == 'mode':
                    m = mode_of(e)
                    recv = e.callee.rsplit('.', 1)[0]
                    if m is not None:
                        cur[recv] = (m, e.line)
            for recv, (m, line) in cur.items():
                if m == 'nonblocking' and not recv.startswith('NEW_') and 'socket.socket(' not in recv:
                    probs.append('%s switches %s to non-blocking mode (line %d) and ends (%s) without switching it back: the mode belongs '
                                 'to the socket, so the next sendall() of a PDU that does not fit the kernel buffer raises BlockingIOError '
                                 'after a partial write' % (fi.qualname, recv, line, 'normally' if not how.startswith('raise') else how))
    return sorted(set(probs)), n_sw


# --------------------------------------------------------------------------- one descriptor, one owner

def descriptor_owner_problems(repo: Repo, modules: Optional[Tuple[str, ...]] = None) -> Tuple[List[str], int]:
    """``socket.socket(fileno=s.fileno())`` (also ``os.fdopen(s.fileno())`` / ``open(s.fileno())`` without ``closefd=False``) wraps
    the descriptor number of a live object in a second object that will close it too.  The number is handed out again by the
    kernel after the first close, so the second close -- explicit, or by the finalizer of the forgotten first object -- hits
    whatever got that number in the meantime: another association's connection or file.  Ownership moves with ``s.detach()``
    (or is duplicated with ``os.dup`` / ``socket.fromfd``, which gives a new number).  -> (problems, number of wraps examined)"""
    probs: List[str] = []
    n = 0
    for fi in repo.all_functions():
        if modules is not None and fi.module.name not in modules:
            continue
        binds: Dict[str, List[ast.expr]] = {}
        for x in ast.walk(fi.node):
            if isinstance(x, ast.Assign) and len(x.targets) == 1 and isinstance(x.targets[0], ast.Name):
                binds.setdefault(x.targets[0].id, []).append(x.value)
        for x in ast.walk(fi.node):
            if not isinstance(x, ast.Call):
                continue
            name = ast.unparse(x.func)
            fd = None
            if name in ('socket.socket', 'socket', 'socket.SocketType'):
                fd = next((k.value for k in x.keywords if k.arg == 'fileno'), x.args[3] if len(x.args) > 3 else None)
            elif name in ('os.fdopen', 'open', 'io.open', 'io.FileIO') and x.args:
                if any(k.arg == 'closefd' and isinstance(k.value, ast.Constant) and k.value.value is False for k in x.keywords):
                    continue
                fd = x.args[0]
            if fd is None:
                continue
            if isinstance(fd, ast.Name) and len(binds.get(fd.id, [])) == 1:
                fd = binds[fd.id][0]
            if isinstance(fd, ast.Call) and isinstance(fd.func, ast.Attribute):
                n += 1
                if fd.func.attr == 'fileno':
                    probs.append('%s line %d: %s(...) is built on %s: the object %s still owns that descriptor and closes it as well '
                                 '(at the latest when it is finalized) -- after the first close the number may belong to another '
                                 'association\'s connection or file, which the second close destroys; hand the descriptor over with '
                                 '.detach() or duplicate it (os.dup / socket.fromfd)'
                                 % (fi.qualname, x.lineno, name, ast.unparse(fd), ast.unparse(fd.func.value)))
    return sorted(set(probs)), n


# --------------------------------------------------------------------------- attributes exist for every class that inherits the reader

def _ext_base_has(name: str, attr: str, module) -> Optional[bool]:
    """does the external base class (``socketserver.ThreadingTCPServer``, ``threading.Thread``, ``object`` ...) define ``attr``?
    None when the base cannot be looked at (not a standard-library class)."""
    if name in ('object',):
        return hasattr(object, attr)
    parts = name.split('.')
    imports = getattr(module, 'imports', {}) or {}
    head = imports.get(parts[0])
    full = name
    path = getattr(head, 'path', None)
    if isinstance(path, str):
        full = '.'.join([path] + parts[1:])
    full = full.replace('six.moves.socketserver', 'socketserver').replace('six.moves.queue', 'queue').replace('six.moves.', '')
    mod, _, cls_ = full.rpartition('.')
    std = ('socketserver', 'threading', 'queue', 'socket', 'collections', 'io', 'dict', 'list', 'Exception', 'builtins', 'enum')
    if not mod:
        import builtins
        k = getattr(builtins, cls_, None)
        return hasattr(k, attr) if isinstance(k, type) else None
    if mod.split('.')[0] not in std:
        return None
    try:
        k = getattr(importlib.import_module(mod), cls_, None)
    except Exception:
        return None
    if not isinstance(k, type):
        return None
    if hasattr(k, attr):
        return True
    # instance attributes the standard class sets in its own constructor
    import inspect
    try:
        src = inspect.getsource(k)
    except Exception:
        return None
    return ('self.%s =' % attr) in src or ('self.%s=' % attr) in src or any(
        ('self.%s =' % attr) in (inspect.getsource(b) if b is not object else '') for b in k.__mro__[1:] if b.__module__ != 'builtins')


def missing_attribute_problems(repo: Repo, modules: Optional[Tuple[str, ...]] = None) -> Tuple[List[str], int]:
    """A method defined in class C runs with ``self`` an instance of C or of any subclass.  Every attribute it reads through
    ``self`` must exist for each of them: a class attribute / method / property somewhere in that class's resolution order, or
    an instance attribute some method of a class *in that order* assigns.  An attribute that only a sibling's constructor sets
    (the feature was wired into ``AE.__init__`` but the reader sits in the shared base) is an AttributeError for the others.
    Attributes that any code assigns from outside (``obj.x = ..`` on a receiver other than self) count as defined everywhere.
    Classes without a constructor anywhere in their package ancestry (mix-ins) are not receivers on their own.
    -> (problems, number of attribute reads examined)"""
    classes = list(repo.all_classes())
    subs: Dict[str, List] = {c.key: [] for c in classes}
    for c in classes:
        for a in c.mro()[1:]:
            if a.key in subs:
                subs[a.key].append(c)
    foreign_stores: Set[str] = set()
    self_stores: Dict[str, Set[str]] = {c.key: set() for c in classes}
    for m in repo.modules.values():
        for n in ast.walk(m.tree):
            if isinstance(n, ast.Attribute) and isinstance(n.ctx, ast.Store) and not (isinstance(n.value, ast.Name) and n.value.id in ('self', 'cls')):
                foreign_stores.add(n.attr)
            if isinstance(n, ast.Call) and isinstance(n.func, ast.Name) and n.func.id == 'setattr' and len(n.args) == 3:
                if isinstance(n.args[1], ast.Constant):
                    foreign_stores.add(n.args[1].value)
                elif isinstance(n.args[0], ast.Name) and n.args[0].id not in ('self', 'cls'):
                    foreign_stores.add('*')       # computed names on an object of unknown class: nothing can be said
    for c in classes:
        for f in list(c.methods.values()) + list(c.setters.values()):
            for n in ast.walk(f.node):
                if isinstance(n, ast.Attribute) and isinstance(n.ctx, ast.Store) and isinstance(n.value, ast.Name) and n.value.id == 'self':
                    self_stores[c.key].add(n.attr)
                if isinstance(n, ast.Call) and ast.unparse(n.func) in ('self.__dict__.update', 'vars(self).update'):
                    self_stores[c.key].add('*')
                if isinstance(n, ast.Call) and isinstance(n.func, ast.Name) and n.func.id == 'setattr' and len(n.args) == 3 \
                        and isinstance(n.args[0], ast.Name) and n.args[0].id == 'self':
                    self_stores[c.key].add(n.args[1].value if isinstance(n.args[1], ast.Constant) else '*')
    if '*' in foreign_stores:
        return [], 0

    def defined_for(r, attr) -> Optional[bool]:
        unknown = False
        for k in r.mro():
            if attr in k.attrs or attr in k.methods or attr in k.setters or attr in self_stores[k.key] or '*' in self_stores[k.key]:
                return True
            if any(isinstance(st, ast.AnnAssign) and isinstance(st.target, ast.Name) and st.target.id == attr for st in k.node.body):
                return True
            if '__getattr__' in k.methods or '__getattribute__' in k.methods or '__slots__' in k.attrs and False:
                return True
            for b in k.ext_bases:
                h = _ext_base_has(b, attr, k.module)
                if h:
                    return True
                if h is None:
                    unknown = True
        return None if unknown else False
    probs: List[str] = []
    n_reads = 0
    for c in classes:
        if modules is not None and c.module.name not in modules:
            continue
        receivers = [r for r in [c] + subs[c.key] if any('__init__' in k.methods for k in r.mro())]
        if not receivers:
            continue
        for f in c.methods.values():
            if f.kind not in ('method', 'property'):
                continue
            selfname = f.params[0] if f.params else 'self'
            seen = set()
            for n in ast.walk(f.node):
                if not (isinstance(n, ast.Attribute) and isinstance(n.ctx, ast.Load) and isinstance(n.value, ast.Name) and n.value.id == selfname):
                    continue
                if n.attr in seen or n.attr.startswith('__') or n.attr in foreign_stores:
                    continue
                seen.add(n.attr)
                n_reads += 1
                status = {r.key: defined_for(r, n.attr) for r in receivers}
                lacking = [r for r in receivers if status[r.key] is False]
                having = [r for r in receivers if status[r.key] is True]
                if lacking and having:
                    # guarded reads (hasattr / getattr with default / try AttributeError) are the author's way of saying "may be absent"
                    src = ast.unparse(f.node)
                    if ("hasattr(%s, '%s')" % (selfname, n.attr)) in src or 'AttributeError' in src:
                        continue
                    setters = sorted({k.name for r in having for k in r.mro() if n.attr in self_stores[k.key]})
                    probs.append('%s reads %s.%s (line %d), which is set only in %s: an instance of %s has no such attribute '
                                 '(AttributeError when this method runs for it)'
                                 % (f.qualname, selfname, n.attr, n.lineno, ' / '.join(setters) or 'a subclass',
                                    ' / '.join(sorted(r.name for r in lacking))))
    return sorted(set(probs)), n_reads


def attribute_rule(repo: Repo, rep, prop: str, rule: str, extra_modules: Tuple[str, ...] = ()):
    from .pitfalls import MEMO_SCOPE
    rep.rule(rule, 'every attribute a method reads through self exists for every class the method can run for: it is a class attribute, '
             'a method or property, or assigned by a method of a class in that class\'s own resolution order -- not only by the '
             'constructor of a sibling', 1)
    mods = tuple(MEMO_SCOPE[prop]) + tuple(m for m in extra_modules if m not in MEMO_SCOPE[prop])
    probs, n = missing_attribute_problems(repo, mods)
    rep.check(not probs, rule, '%s:attributes-defined' % '+'.join(mods), '', '%d attribute reads through self, each defined for every receiver' % n,
              '; '.join(probs[:4]))


# --------------------------------------------------------------------------- what is registered is unregistered on every exit

_ADD_OPS = ('add', 'append', 'setdefault', 'appendleft')
_DEL_OPS = ('discard', 'remove', 'pop', 'popleft', '__delitem__')


def _registry_ops(fi: FuncInfo):
    """(registry name, 'add' | 'del', key expression text) for the container operations of a function on attributes of
    self / cls / a class / module-level names"""
    def reg_name(e) -> Optional[str]:
        if isinstance(e, ast.Attribute) and isinstance(e.value, ast.Name):
            return e.attr if (e.value.id in ('self', 'cls') or e.value.id[:1].isupper()) else None
        if isinstance(e, ast.Name) and e.id in fi.module.assigns:
            return e.id
        return None
    out = []
    for n in ast.walk(fi.node):
        if isinstance(n, ast.Call) and isinstance(n.func, ast.Attribute) and n.args:
            r = reg_name(n.func.value)
            if r and n.func.attr in _ADD_OPS:
                out.append((r, 'add', ast.unparse(n.args[0])))
            elif r and n.func.attr in _DEL_OPS:
                out.append((r, 'del', ast.unparse(n.args[0])))
        elif isinstance(n, ast.Assign):
            for t in n.targets:
                if isinstance(t, ast.Subscript) and reg_name(t.value):
                    out.append((reg_name(t.value), 'add', ast.unparse(t.slice)))
        elif isinstance(n, ast.Delete):
            for t in n.targets:
                if isinstance(t, ast.Subscript) and reg_name(t.value):
                    out.append((reg_name(t.value), 'del', ast.unparse(t.slice)))
    return out


def pairing_problems(repo: Repo, modules: Tuple[str, ...]) -> Tuple[List[str], int]:
    """A function that enters a key into a registry of the package (a set / dict / list held by a class or an object: transactions
    in progress, pending operations) through a *register* helper and removes it again through the matching *unregister* helper on
    some path must do so on every path on which it ends normally -- also the ones that go through one of its own exception
    handlers.  Register / unregister helpers are the functions that add / remove one of their parameters to / from the same
    registry; which functions pair up is read from the code, not from names.  A call of the register helper in a test counts on the
    branch where it answered true.  -> (problems, number of functions with a register / unregister pair examined)"""
    from .fsm_model import exc_hierarchy
    from .sym import SymClient, empty_state
    reg_fns: Dict[str, str] = {}
    unreg_fns: Dict[str, str] = {}
    for fi in repo.all_functions():
        params = set(fi.params)
        ops = _registry_ops(fi)
        adds = {r for r, k, key in ops if k == 'add' and key in params}
        dels = {r for r, k, key in ops if k == 'del' and key in params}
        if len(adds) == 1 and not dels:
            reg_fns[fi.name] = adds.pop()
        elif len(dels) == 1 and not adds:
            unreg_fns[fi.name] = dels.pop()
    pairs = {r for r in reg_fns.values()} & {r for r in unreg_fns.values()}
    reg_fns = {k: v for k, v in reg_fns.items() if v in pairs}
    unreg_fns = {k: v for k, v in unreg_fns.items() if v in pairs}
    if not pairs:
        return [], 0
    hier = exc_hierarchy(repo)
    probs: List[str] = []
    n = 0

    def ev(call, callee, client, state):
        # (the helpers are looked into by the path engine: the container operation itself is the event, on the very path of the
        # helper on which it happens)
        recv, _, last = callee.rpartition('.')
        rname = recv.rsplit('.', 1)[-1]
        if rname in pairs and last in _ADD_OPS:
            return 'reg:' + rname
        if rname in pairs and last in _DEL_OPS:
            return 'unreg:' + rname
        return None
    for fi in repo.all_functions():
        if fi.module.name not in modules or fi.name in reg_fns or fi.name in unreg_fns:
            continue
        names = {x.func.attr if isinstance(x.func, ast.Attribute) else getattr(x.func, 'id', None)
                 for x in ast.walk(fi.node) if isinstance(x, ast.Call)}
        if not (names & set(reg_fns)) or not (names & set(unreg_fns)):
            continue
        n += 1
        from .svc_model import svc_raises
        c = SymClient(repo, fi, event_of=ev, hierarchy=hier, inline=lambda f_: f_.name in reg_fns or f_.name in unreg_fns, raises_of=svc_raises)
        fin = c.final_states(c.run(empty_state()))
        for s, how in fin:
            if how.startswith('raise'):
                continue
            open_: Dict[Tuple[str, str], int] = {}
            for e in s.trail:
                if e.kind.startswith('reg:'):
                    open_[(e.kind[4:], e.args[0] if e.args else '')] = e.line
                elif e.kind.startswith('unreg:'):
                    open_.pop((e.kind[6:], e.args[0] if e.args else ''), None)
            for (r, key), line in open_.items():
                via = [cn for cn in s.conds if cn.startswith('exc:')]
                probs.append('%s enters %s into %s and ends%s without taking it out again, although other paths do: the key '
                             'stays in the registry for good, so every later request that uses it is treated as a duplicate'
                             % (fi.qualname, key, r, ' through its handler of %s' % via[-1][4:] if via else ' normally'))
    return sorted(set(probs)), n


def pairing_rule(repo: Repo, rep, prop: str, rule: str):
    from .pitfalls import MEMO_SCOPE
    rep.rule(rule, 'what a function enters into a registry of the package (transactions in progress, pending operations) and takes out '
             'again on some path, it takes out on every path on which it ends normally, its own exception handlers included', 1)
    probs, n = pairing_problems(repo, tuple(MEMO_SCOPE[prop]))
    rep.check(not probs, rule, '%s:registries' % '+'.join(MEMO_SCOPE[prop]), '', '%d function(s) with a register / unregister pair, balanced '
              'on every path' % n, '; '.join(probs[:3]))


# --------------------------------------------------------------------------- PS3.8 9.3.2: the protocol-version field is a bit mask

def protocol_version_problems(repo: Repo) -> Tuple[List[str], int]:
    """PS3.8 9.3.2 / 9.3.3: "Protocol-version: ... uses one bit to identify each version of the DICOM UL protocol ... the receiver
    of this PDU implementing only this version shall only test that bit 0 is set."  Every test the package makes on the
    protocol-version of a received A-ASSOCIATE PDU therefore goes through ``& <mask>``; comparing the whole 16-bit field with a
    constant (``==``, ``!=``, ``in``, ``<`` ...) refuses -- or treats differently -- a peer that also announces a later version
    (0x0003).  -> (problems, number of tests on the field examined)"""
    probs: List[str] = []
    n = 0

    def is_field(e) -> bool:
        return (isinstance(e, ast.Attribute) and e.attr == 'protocol_version') or (isinstance(e, ast.Name) and e.id == 'protocol_version')
    for fi in repo.all_functions():
        if fi.name in ('__init__', '__repr__', 'encode', 'decode', '__str__'):
            continue
        for x in ast.walk(fi.node):
            if isinstance(x, ast.Compare):
                sides = [x.left] + list(x.comparators)
                if any(is_field(s_) for s_ in sides):
                    n += 1
                    probs.append('%s line %d: ``%s`` compares the whole protocol-version field: PS3.8 9.3.2 has the receiver test bit 0 only '
                                 '(``version & 1``) -- a request announcing versions 1 and 2 (0x0003) is a version-1 request too'
                                 % (fi.qualname, x.lineno, ast.unparse(x)[:80]))
                elif any(isinstance(s_, ast.BinOp) and isinstance(s_.op, ast.BitAnd) and (is_field(s_.left) or is_field(s_.right)) for s_ in sides):
                    n += 1
            elif isinstance(x, ast.BinOp) and isinstance(x.op, ast.BitAnd) and (is_field(x.left) or is_field(x.right)):
                n += 1
    return sorted(set(probs)), n


def loop_progress_problems(repo, modules=('pdu', 'userdataitems', 'fsm', 'dulprovider', 'dimsemessages', 'dsutils')):
    """``while <test over locals>:`` loops of the peer-driven modules: on every path through the body that reaches the next test
    (the end of the body, or a ``continue``) one of the locals the test reads has been assigned, or used as the receiver of a method
    call (``stack.pop()``).  A path that comes back to the test with everything it reads unchanged is a
    loop a peer can make endless (an offset that is not advanced before ``continue``).  Tests that read no local (``while True``,
    ``while not self.stop``) or that call something themselves are not judged.  -> (problems, loops examined)"""
    probs: List[str] = []
    n_loops = 0

    def touched(st, names):
        out = set()
        for x in ast.walk(st):
            if isinstance(x, ast.Name) and isinstance(x.ctx, (ast.Store, ast.Del)) and x.id in names:
                out.add(x.id)
            elif isinstance(x, ast.Call):
                recv = x.func.value if isinstance(x.func, ast.Attribute) else None
                while isinstance(recv, ast.Attribute):
                    recv = recv.value
                if isinstance(recv, ast.Name) and recv.id in names:
                    out.add(recv.id)
        return out

    def walk(stmts, done, names, report):
        """-> the set of test names touched on fall-through, or None when no path falls through"""
        cur = set(done)
        for st in stmts:
            if isinstance(st, ast.Continue):
                if not cur:
                    report(st)
                return None
            if isinstance(st, (ast.Break, ast.Return, ast.Raise)):
                return None
            if isinstance(st, ast.If):
                cur |= touched(st.test, names)
                a = walk(st.body, cur, names, report)
                b = walk(st.orelse, cur, names, report) if st.orelse else set(cur)
                if a is None and b is None:
                    return None
                cur = a if b is None else b if a is None else (a & b)
            elif isinstance(st, (ast.For, ast.While, ast.AsyncFor)):
                # an inner loop may run zero times; its own continue / break are its own
                cur |= touched(st.iter, names) if hasattr(st, 'iter') else set()
            elif isinstance(st, ast.Try):
                a = walk(st.body, cur, names, report)
                outs = [] if a is None else [a]
                for h in st.handlers:
                    b = walk(h.body, cur, names, report)
                    if b is not None:
                        outs.append(b)
                if not outs:
                    return None
                cur = set.intersection(*outs)
                if st.finalbody:
                    f = walk(st.finalbody, cur, names, report)
                    if f is None:
                        return None
                    cur = f
            elif isinstance(st, (ast.With, ast.AsyncWith)):
                for it in st.items:
                    cur |= touched(it.context_expr, names)
                a = walk(st.body, cur, names, report)
                if a is None:
                    return None
                cur = a
            else:
                cur |= touched(st, names)
        return cur

    for mname in modules:
        m = repo.modules.get(mname)
        if m is None:
            continue
        for fi in repo.functions_of(m) if hasattr(repo, 'functions_of') else _all_functions(m):
            bound = {x.id for x in ast.walk(fi.node) if isinstance(x, ast.Name) and isinstance(x.ctx, ast.Store)} | set(fi.params)
            for w in [x for x in ast.walk(fi.node) if isinstance(x, ast.While)]:
                if any(isinstance(x, (ast.Call, ast.Yield, ast.Await)) for x in ast.walk(w.test)):
                    continue
                names = {x.id for x in ast.walk(w.test) if isinstance(x, ast.Name) and x.id in bound and x.id not in ('self', 'cls')}
                if not names or any(isinstance(x, (ast.Yield, ast.YieldFrom)) for st in w.body for x in ast.walk(st)):
                    continue
                n_loops += 1

                def report(at, w=w, fi=fi, names=names):
                    probs.append('%s: the loop at line %d tests %s, and the path to %s changes none of them: the same test is made '
                                 'again on the same values' % (fi.loc(at), w.lineno, ', '.join(sorted(names)),
                                                               'the ``continue`` at line %d' % at.lineno if isinstance(at, ast.Continue) else 'the end of its body'))
                end = walk(w.body, set(), names, report)
                if end is not None and not end:
                    report(w.body[-1])
    return sorted(set(probs)), n_loops


def _all_functions(m):
    out = list(m.functions.values())
    for c in m.classes.values():
        out.extend(c.methods.values())
        out.extend(c.setters.values())
    return out


def flag_after_reset_problems(repo, flag='association_established'):
    """The association's ``association_established`` flag is cleared by kill() (and by everything that ends in it: abort(),
    release()): a test of the flag that can only be reached after such a call on the same object reads False whatever the state
    was before -- a decision taken on it ("was the association in use?") is always the same.  Read off the statement lists of the
    functions that end associations: a statement that calls a clearing method on X on every path (directly, or an ``if`` whose
    branches all do), followed -- in the same list -- by a load of ``X.<flag>``.  -> (problems, functions examined)"""
    probs: List[str] = []
    asce = repo.module('asceprovider')
    clearing = set()
    for c in asce.classes.values():
        for name, f in c.methods.items():
            if any(isinstance(n, ast.Assign) and len(n.targets) == 1 and isinstance(n.targets[0], ast.Attribute)
                   and n.targets[0].attr == flag and isinstance(n.value, ast.Constant) and n.value.value is False
                   for n in ast.walk(f.node)):
                clearing.add(name)
    # methods that call a clearing method of self unconditionally (top-level statement of their body)
    changed = True
    while changed:
        changed = False
        for c in asce.classes.values():
            for name, f in c.methods.items():
                if name in clearing:
                    continue
                for st in f.node.body:
                    if isinstance(st, ast.Expr) and isinstance(st.value, ast.Call) and isinstance(st.value.func, ast.Attribute) \
                            and isinstance(st.value.func.value, ast.Name) and st.value.func.value.id == 'self' and st.value.func.attr in clearing:
                        clearing.add(name)
                        changed = True
                        break
    clearing -= {'__init__'}

    def cleared_by(st):
        """the object whose flag this statement clears on every path through it, or None"""
        if isinstance(st, ast.Expr) and isinstance(st.value, ast.Call) and isinstance(st.value.func, ast.Attribute) \
                and st.value.func.attr in clearing and isinstance(st.value.func.value, ast.Name):
            return st.value.func.value.id
        if isinstance(st, ast.If) and st.body and st.orelse:
            a = {cleared_by(x) for x in st.body} - {None}
            b = {cleared_by(x) for x in st.orelse} - {None}
            both = a & b
            return sorted(both)[0] if both else None
        return None

    n = 0
    for mname in ('applicationentity', 'asceprovider', 'sopclass', '__init__'):
        m = repo.modules.get(mname)
        if m is None:
            continue
        for fi in _all_functions(m):
            if fi.cls is not None and fi.cls.module.name == 'asceprovider' and fi.name in clearing:
                continue
            n += 1
            for node in ast.walk(fi.node):
                for field in ('body', 'orelse', 'finalbody'):
                    stmts = getattr(node, field, None)
                    if not isinstance(stmts, list) or not stmts or not isinstance(stmts[0], ast.stmt):
                        continue
                    for i, st in enumerate(stmts):
                        x = cleared_by(st)
                        if x is None:
                            continue
                        for later in stmts[i + 1:]:
                            if any(isinstance(t, ast.Name) and t.id == x and isinstance(t.ctx, ast.Store) for t in ast.walk(later)):
                                break
                            for y in ast.walk(later):
                                if isinstance(y, ast.Attribute) and y.attr == flag and isinstance(y.ctx, ast.Load) \
                                        and isinstance(y.value, ast.Name) and y.value.id == x:
                                    probs.append('%s: %s.%s is read at line %d after the call at line %d that clears it (%s): the test is '
                                                 'false whatever the association was' % (fi.loc(y), x, flag, y.lineno, st.lineno,
                                                                                         '/'.join(sorted(clearing))))
    return sorted(set(probs)), n


def selfcheck_loop_progress():
    """positive and negative example for loop_progress_problems, run with the rule (it matches no loop of the pinned tree)"""
    class _F:
        def __init__(self, src):
            self.node = ast.parse(src).body[0]
            self.params = [a.arg for a in self.node.args.args]
            self.cls = None
            self.name = self.node.name

        def loc(self, n_=None):
            return 'example:%d' % getattr(n_, 'lineno', 0)

    class _M:
        def __init__(self, src):
            self.functions = {'f': _F(src)}
            self.classes = {}

    class _R:
        def __init__(self, src):
            self.modules = {'x': _M(src)}
    bad = 'def f(buf, end):\n    off = 0\n    while off < end:\n        n = buf[off]\n        if n == 0:\n            continue\n        off += n\n'
    good = 'def f(buf, end):\n    off = 0\n    while off < end:\n        n = buf[off]\n        if n == 0:\n            off += 1\n            continue\n        off += n\n'
    pb, nb = loop_progress_problems(_R(bad), modules=('x',))
    pg, ng = loop_progress_problems(_R(good), modules=('x',))
    return bool(pb) and nb == 1 and not pg and ng == 1
