#!/bin/bash
# eval_seed.sh <agent-dir>: apply <agent-dir>/patch.diff to a fresh scratch worktree of /repo HEAD, confirm tests/demo, run checks.
set -u
src=$1
name=$(basename $src)
wt=/tmp/seedeval_$name
git -C /repo worktree remove --force $wt 2>/dev/null
git -C /repo worktree add -q $wt HEAD || exit 3
sed "s#$src#$wt#g" $src/demo.py > $wt/demo.py 2>/dev/null
if ! git -C $wt apply $src/patch.diff; then echo "PATCH DOES NOT APPLY"; git -C /repo worktree remove --force $wt; exit 4; fi
cd /verif && /venv/bin/python tools/try_seed.py $wt
git -C /repo worktree remove --force $wt
