#!/bin/bash
# try_refactor.sh <worktree>: run all 20 checks against a (behaviour-preserving) refactored tree; anything but exit 0 is a false alarm
wt=$1
tmp=$(mktemp -d /tmp/refev_XXXX)
cd /verif
for i in $(seq -w 1 20); do
  out=$(VERIF_REPO=$wt VERIF_EVIDENCE_DIR=$tmp /venv/bin/python -m pnd_static.check --property C$i 2>&1); rc=$?
  if [ $rc -ne 0 ]; then echo "--- C$i rc=$rc"; echo "$out" | grep -v "^VIOLATION" | head -${2:-6} | cut -c1-420; fi
done
rm -rf $tmp
echo "done $wt"
