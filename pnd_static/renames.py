"""Renamed functions are given their old names back before anything is indexed.

The rules name the functions they are about (``DULServiceProvider._check_incoming_pdu``, ``fragment`` ...).  A behaviour-preserving
change may rename one.  ``oracles/inventory.py`` keeps, for every function of the tree on which the rule instances were confirmed, a
structural fingerprint of its definition (its own name, its docstring and every private identifier erased).  When a function of
the inventory is missing and the same module / class has exactly one function that is not in the inventory and has that
fingerprint, it is the old function under a new name: the definition and every reference to the new name are renamed back in
the syntax trees.  A function that was renamed *and* edited does not match and stays missing (the rule that needs it then
reports ANALYSIS-ERROR, not a violation)."""
from __future__ import annotations

import ast
import copy
import hashlib
from typing import Dict, List, Optional, Tuple


def fingerprint(fnode) -> str:
    n = copy.deepcopy(fnode)
    n.name = '_'
    n.decorator_list = [d for d in n.decorator_list]
    if n.body and isinstance(n.body[0], ast.Expr) and isinstance(n.body[0].value, ast.Constant) and isinstance(n.body[0].value.value, str):
        n.body = n.body[1:] or [ast.Pass()]

    def private(x: str) -> bool:
        return x.startswith('_') and not (x.startswith('__') and x.endswith('__'))
    # locals (parameters, assigned names, loop / comprehension / handler variables) are numbered in order of first
    # appearance: renaming them does not change the fingerprint
    bound = set()
    for x in ast.walk(n):
        if isinstance(x, ast.arg):
            bound.add(x.arg)
        elif isinstance(x, ast.Name) and isinstance(x.ctx, (ast.Store, ast.Del)):
            bound.add(x.id)
        elif isinstance(x, ast.ExceptHandler) and x.name:
            bound.add(x.name)
    for x in ast.walk(n):
        if isinstance(x, (ast.Global, ast.Nonlocal)):
            bound -= set(x.names)
    order: Dict[str, str] = {}

    class V(ast.NodeVisitor):
        def visit_arg(self, a):
            if a.arg in bound:
                order.setdefault(a.arg, 'v%d' % len(order))
            a.arg = order.get(a.arg, a.arg)
            a.annotation = None

        def visit_Name(self, a):
            if a.id in bound:
                order.setdefault(a.id, 'v%d' % len(order))
                a.id = order[a.id]

        def visit_ExceptHandler(self, a):
            if a.name and a.name in bound:
                order.setdefault(a.name, 'v%d' % len(order))
                a.name = order[a.name]
            self.generic_visit(a)

        def visit_keyword(self, a):
            self.generic_visit(a)
    V().visit(n)
    if hasattr(n, 'returns'):
        n.returns = None
    for x in ast.walk(n):
        if isinstance(x, ast.Attribute) and private(x.attr):
            x.attr = '_'
        elif isinstance(x, ast.Name) and private(x.id):
            x.id = '_'
        elif isinstance(x, ast.arg) and private(x.arg):
            x.arg = '_'
        elif isinstance(x, (ast.FunctionDef, ast.AsyncFunctionDef)) and x is not n and private(x.name):
            x.name = '_'
        if hasattr(x, 'type_comment'):
            x.type_comment = None
    return hashlib.sha1(ast.dump(n, include_attributes=False).encode()).hexdigest()[:16]


def is_peek(fnode) -> bool:
    """``f(stream)``: reads one byte and steps back over it (``read(1)`` ... ``seek(-1, 1)``); nothing else is done with
    the stream.  The contract itself (position restored on every path that read a byte, value of the byte returned) is a
    rule of C01, this only recognises the role."""
    a = fnode.args
    if len(a.args) != 1 or a.vararg or a.kwarg or a.kwonlyargs:
        return False
    s = a.args[0].arg
    calls = [c for c in ast.walk(fnode) if isinstance(c, ast.Call) and isinstance(c.func, ast.Attribute)
             and isinstance(c.func.value, ast.Name) and c.func.value.id == s]
    kinds = sorted(c.func.attr for c in calls)
    if kinds != ['read', 'seek']:
        return False
    rd = [c for c in calls if c.func.attr == 'read'][0]
    return len(rd.args) == 1 and isinstance(rd.args[0], ast.Constant) and rd.args[0].value == 1


# functions the rules know by role: a moved / renamed / re-worded definition that is imported back under the old name and
# plays the role is the function
ROLES = {'pdu:_next_type': is_peek}


def functions_of(trees: Dict[str, ast.Module]) -> Dict[str, Tuple[str, str, ast.AST, ast.AST]]:
    """{key: (module, class or '', def node, container node)} for module-level functions and methods"""
    out = {}
    for mod, tree in trees.items():
        for st in tree.body:
            if isinstance(st, (ast.FunctionDef, ast.AsyncFunctionDef)):
                out.setdefault('%s:%s' % (mod, st.name), (mod, '', st, tree))
            elif isinstance(st, ast.ClassDef):
                for b in st.body:
                    if isinstance(b, (ast.FunctionDef, ast.AsyncFunctionDef)):
                        key = '%s:%s.%s' % (mod, st.name, b.name)
                        if key in out:
                            key += '#' + ('setter' if any(isinstance(d, ast.Attribute) and d.attr == 'setter' for d in b.decorator_list) else 'dup')
                        out[key] = (mod, st.name, b, st)
    return out


def undo_renames(trees: Dict[str, ast.Module]) -> Dict[str, str]:
    from .oracles.inventory import FINGERPRINTS, FUNCTIONS
    have = functions_of(trees)
    missing = [k for k in FINGERPRINTS if k not in have and '#' not in k]
    if not missing:
        return {}
    new = {k: v for k, v in have.items() if k not in FUNCTIONS and '#' not in k}
    fp_new: Dict[str, str] = {k: fingerprint(v[2]) for k, v in new.items()}
    # how often each name is defined anywhere (a new name shared with something else cannot be renamed by name)
    defined: Dict[str, int] = {}
    for k in have:
        nm = k.split(':', 1)[1].split('.')[-1].split('#')[0]
        defined[nm] = defined.get(nm, 0) + 1
    renames: List[Tuple[str, str]] = []
    for k in missing:
        mod, qual = k.split(':', 1)
        cls = qual.rsplit('.', 1)[0] if '.' in qual else ''
        cands = [c for c, v in new.items() if v[0] == mod and v[1] == cls and fp_new[c] == FINGERPRINTS[k]]
        if len(cands) != 1:
            continue
        # ... and that candidate is claimed by no other missing function
        if sum(1 for k2 in missing if FINGERPRINTS[k2] == FINGERPRINTS[k] and k2.split(':')[0] == mod
               and (k2.split(':', 1)[1].rsplit('.', 1)[0] if '.' in k2.split(':', 1)[1] else '') == cls) != 1:
            continue
        renames.append((cands[0], k))
    done: Dict[str, str] = {}
    # moved *and* renamed, imported back under the old name: ``from .newmod import new_name as old_name``
    for k in missing:
        mod, qual = k.split(':', 1)
        if '.' in qual or mod not in trees:
            continue
        for st in trees[mod].body:
            if isinstance(st, ast.ImportFrom) and st.level == 1 and st.module in trees:
                for a in st.names:
                    if a.asname == qual and a.name != qual:
                        cand = '%s:%s' % (st.module, a.name)
                        role = ROLES.get(k)
                        if cand in new and (fp_new.get(cand) == FINGERPRINTS[k] or (role and role(have[cand][2]))) \
                                and defined.get(a.name, 0) == 1 and defined.get(qual, 0) == 0:
                            node = have[cand][2]
                            old_new = a.name
                            node.name = qual
                            for m2, tree in trees.items():
                                for x in ast.walk(tree):
                                    if isinstance(x, ast.Name) and x.id == old_new and m2 == st.module:
                                        x.id = qual
                                    elif isinstance(x, ast.Attribute) and x.attr == old_new:
                                        x.attr = qual
                                    elif isinstance(x, ast.alias) and x.name == old_new:
                                        x.name = qual
                                        if x.asname == qual:
                                            x.asname = None
                            done[cand] = '%s:%s' % (st.module, qual)
    for new_key, old_key in renames:
        mod, cls, node, _cont = have[new_key]
        new_name = node.name
        old_name = old_key.split(':', 1)[1].split('.')[-1]
        if defined.get(new_name, 0) != 1 or defined.get(old_name, 0) != 0:
            continue
        node.name = old_name
        for m2, tree in trees.items():
            for x in ast.walk(tree):
                if isinstance(x, ast.Attribute) and x.attr == new_name:
                    x.attr = old_name
                elif isinstance(x, ast.Name) and x.id == new_name and not cls:
                    x.id = old_name
                elif isinstance(x, ast.alias) and not cls and x.name == new_name:
                    x.name = old_name
                elif isinstance(x, ast.Constant) and isinstance(x.value, str) and x.value == new_name:
                    x.value = old_name       # getattr(self, 'name') / table of method names
        done[new_key] = old_key
    return done


def specialise_mixins(trees: Dict[str, ast.Module]) -> int:
    """Methods a class inherits from a *new* base class (a mix-in that is not in the inventory) are copied into the class.

    The rules know the classes of the inventory and read their methods; a clean-up may hoist a method that several of them
    share into a new common base, driven by class attributes each subclass sets (``fields``, ``format``).  Copying the
    inherited definition into each inheriting class (what the MRO does at run time) lets the later passes fold those class
    attributes per class.  Not done for methods that use ``super()`` or for names an earlier base of the class defines."""
    from .oracles.inventory import CLASSES
    n = 0
    for mod, tree in trees.items():
        defs = {st.name: st for st in tree.body if isinstance(st, ast.ClassDef)}
        for st in tree.body:
            if not isinstance(st, ast.ClassDef):
                continue
            own = {x.name for x in st.body if isinstance(x, (ast.FunctionDef, ast.AsyncFunctionDef))}
            own |= {t.id for x in st.body if isinstance(x, ast.Assign) for t in x.targets if isinstance(t, ast.Name)}
            seen_from_bases = set()
            for b in st.bases:
                if not (isinstance(b, ast.Name) and b.id in defs and defs[b.id] is not st):
                    # an unknown base may define anything: names after it are not ours to copy
                    if not (isinstance(b, ast.Name) and b.id == 'object'):
                        break
                    continue
                base = defs[b.id]
                is_new = '%s:%s' % (mod, base.name) not in CLASSES
                for x in base.body:
                    if isinstance(x, (ast.FunctionDef, ast.AsyncFunctionDef)):
                        if is_new and x.name not in own and x.name not in seen_from_bases and not any(
                                isinstance(y, ast.Name) and y.id == 'super' for y in ast.walk(x)) \
                                and not (x.name.startswith('__') and x.name.endswith('__')):
                            st.body.append(copy.deepcopy(x))
                            own.add(x.name)
                            n += 1
                        seen_from_bases.add(x.name)
    return n


def inline_decorators(trees: Dict[str, ast.Module]) -> int:
    """A function decorated with a *new* wrapper-making decorator reads as the wrapper with the function called inside it.

    ``@D(a, k=v) def m(self): BODY`` with ``def D(p, k=..): def decorate(f): def wrapper(self): W; return wrapper; return decorate``
    (or the plain form ``def D(f): def wrapper(..): W; return wrapper``) becomes ``def m(self): W[p := a, k := v, f := m__undecorated]``
    next to ``def m__undecorated(self): BODY`` -- a new private helper, which the helper inlining then puts back in place.  Only
    decorators that are not in the inventory, whose arguments are constants or dotted names and whose wrapper takes the same
    positional parameters as the function (or passes ``*args, **kwargs`` through) are handled; anything else is left as is."""
    from .oracles.inventory import FUNCTIONS
    n = 0

    def simple(e):
        while isinstance(e, ast.Attribute):
            e = e.value
        return isinstance(e, (ast.Name, ast.Constant)) or (isinstance(e, ast.UnaryOp) and isinstance(e.operand, ast.Constant))

    def only_returns(fn, name=None):
        """body of ``fn`` is: [docstring], one nested def ``name``-returning"""
        body = [x for x in fn.body if not (isinstance(x, ast.Expr) and isinstance(x.value, ast.Constant))]
        if len(body) == 2 and isinstance(body[0], ast.FunctionDef) and isinstance(body[1], ast.Return) \
                and isinstance(body[1].value, ast.Name) and body[1].value.id == body[0].name:
            return body[0]
        return None

    def plain_params(a):
        return not (a.vararg or a.kwarg or a.kwonlyargs or a.posonlyargs)

    for mod, tree in trees.items():
        decos = {}
        for st in tree.body:
            if isinstance(st, ast.FunctionDef) and '%s:%s' % (mod, st.name) not in FUNCTIONS and not st.decorator_list:
                inner = only_returns(st, None)
                if inner is None:
                    continue
                inner2 = only_returns(inner, None)
                if inner2 is not None and len(inner.args.args) == 1 and plain_params(inner.args):
                    decos[st.name] = ('factory', st, inner.args.args[0].arg, inner2)
                elif len(st.args.args) == 1 and plain_params(st.args):
                    decos[st.name] = ('plain', st, st.args.args[0].arg, inner)
        if not decos:
            continue

        def rewrite(container, fn, is_method):
            nonlocal n
            if len(fn.decorator_list) != 1:
                return None
            d = fn.decorator_list[0]
            env = {}
            if isinstance(d, ast.Call) and isinstance(d.func, ast.Name) and d.func.id in decos and decos[d.func.id][0] == 'factory':
                kind, dfn, fparam, wrapper = decos[d.func.id]
                a = dfn.args
                if not plain_params(a) or any(isinstance(x, ast.Starred) for x in d.args) or any(k.arg is None for k in d.keywords):
                    return None
                names = [x.arg for x in a.args]
                if len(d.args) > len(names):
                    return None
                for nm, v in zip(names, d.args):
                    env[nm] = v
                for k in d.keywords:
                    if k.arg not in names or k.arg in env:
                        return None
                    env[k.arg] = k.value
                defaults = dict(zip(names[len(names) - len(a.defaults):], a.defaults))
                for nm in names:
                    if nm not in env:
                        if nm not in defaults:
                            return None
                        env[nm] = defaults[nm]
                if not all(simple(v) for v in env.values()):
                    return None
            elif isinstance(d, ast.Name) and d.id in decos and decos[d.id][0] == 'plain':
                kind, dfn, fparam, wrapper = decos[d.id]
            else:
                return None
            # the wrapper: optional @functools.wraps(f), same positional parameters as the function
            for wd in wrapper.decorator_list:
                if not (isinstance(wd, ast.Call) and ast.unparse(wd.func) in ('functools.wraps', 'wraps', 'six.wraps')):
                    return None
            wa, fa = wrapper.args, fn.args
            if not plain_params(fa) or fa.defaults:
                return None
            passthrough = bool(wa.vararg and wa.kwarg and not wa.kwonlyargs and not wa.defaults)
            if passthrough:
                if len(wa.args) > len(fa.args):
                    return None
            elif not plain_params(wa) or wa.defaults or len(wa.args) != len(fa.args):
                return None
            # names bound in the wrapper must not clash with the factory parameters or the function's parameters
            wbound = {x.id for x in ast.walk(wrapper) if isinstance(x, ast.Name) and isinstance(x.ctx, (ast.Store, ast.Del))}
            if wbound & (set(env) | {fparam}) or any(isinstance(x, (ast.FunctionDef, ast.Lambda, ast.ClassDef, ast.Global, ast.Nonlocal))
                                                      for st_ in wrapper.body for x in ast.walk(st_)):
                return None
            ren = {w.arg: f_.arg for w, f_ in zip(wa.args, fa.args)}
            extra = [f_.arg for f_ in fa.args[len(wa.args):]]
            if wbound & set(extra):
                return None
            undec = fn.name + '__undecorated'
            ok = [True]

            class S(ast.NodeTransformer):
                def visit_Call(self_, c):
                    if isinstance(c.func, ast.Name) and c.func.id == fparam:
                        c = self_.generic_visit_args(c)
                        args = list(c.args)
                        if passthrough:
                            # f(self, *args, **kwargs) -> f(self, <the function's own remaining parameters>)
                            if not (args and isinstance(args[-1], ast.Starred) and isinstance(args[-1].value, ast.Name)
                                    and args[-1].value.id == wa.vararg.arg and len(c.keywords) == 1 and c.keywords[0].arg is None
                                    and isinstance(c.keywords[0].value, ast.Name) and c.keywords[0].value.id == wa.kwarg.arg):
                                ok[0] = False
                                return c
                            args = args[:-1] + [ast.Name(id=x, ctx=ast.Load()) for x in extra]
                            kws = []
                        else:
                            kws = c.keywords
                        if is_method:
                            if not (args and isinstance(args[0], ast.Name) and args[0].id == fa.args[0].arg):
                                ok[0] = False
                                return c
                            return ast.copy_location(ast.Call(func=ast.Attribute(value=args[0], attr=undec, ctx=ast.Load()),
                                                              args=args[1:], keywords=kws), c)
                        return ast.copy_location(ast.Call(func=ast.Name(id=undec, ctx=ast.Load()), args=args, keywords=kws), c)
                    return self_.generic_visit(c)

                def generic_visit_args(self_, c):
                    c.args = [self_.visit(x) for x in c.args]
                    for k in c.keywords:
                        k.value = self_.visit(k.value)
                    return c

                def visit_Name(self_, x):
                    if isinstance(x.ctx, ast.Load):
                        if x.id in env:
                            return ast.copy_location(copy.deepcopy(env[x.id]), x)
                        if x.id == fparam:
                            ok[0] = False       # the function escapes (stored, passed on): not a plain wrapper
                        if passthrough and x.id in (wa.vararg.arg, wa.kwarg.arg):
                            ok[0] = False
                    if x.id in ren:
                        x.id = ren[x.id]
                    return x
            new_body = [S().visit(copy.deepcopy(x)) for x in wrapper.body]
            if not ok[0]:
                return None
            orig = copy.deepcopy(fn)
            orig.name = undec
            orig.decorator_list = []
            new = copy.deepcopy(fn)
            new.decorator_list = []
            doc = [x for x in fn.body[:1] if isinstance(x, ast.Expr) and isinstance(x.value, ast.Constant) and isinstance(x.value.value, str)]
            new.body = doc + new_body
            for x in ast.walk(new):
                if hasattr(x, 'lineno') and x is not new:
                    pass
            n += 1
            return new, orig

        def visit_container(container, is_class):
            out = []
            for st in container.body:
                if isinstance(st, ast.FunctionDef) and st.decorator_list:
                    r = rewrite(container, st, is_class and bool(st.args.args))
                    if r is not None:
                        out.extend(r)
                        continue
                if isinstance(st, ast.ClassDef):
                    visit_container(st, True)
                out.append(st)
            container.body = out
        visit_container(tree, False)
        ast.fix_missing_locations(tree)
    return n


def materialise_properties(trees: Dict[str, ast.Module]) -> int:
    """``name = property(lambda self: E)`` in a class body -- written directly or returned by a new factory function called with
    constant arguments (``is_pending = _is_type('Pending')``) -- reads as ``@property def name(self): return E``."""
    from .oracles.inventory import FUNCTIONS
    n = 0

    def prop_lambda(call):
        if isinstance(call, ast.Call) and ast.unparse(call.func) == 'property' and call.args and isinstance(call.args[0], ast.Lambda) \
                and len(call.args) == 1 and all(k.arg in ('doc', 'fget') for k in call.keywords if k.arg != 'doc' or True) \
                and all(k.arg == 'doc' for k in call.keywords):
            lam = call.args[0]
            a = lam.args
            if len(a.args) == 1 and not (a.vararg or a.kwarg or a.kwonlyargs or a.defaults or a.posonlyargs):
                return lam
        return None

    for mod, tree in trees.items():
        factories = {}
        for st in tree.body:
            if isinstance(st, ast.FunctionDef) and '%s:%s' % (mod, st.name) not in FUNCTIONS and not st.decorator_list \
                    and not (st.args.vararg or st.args.kwarg or st.args.kwonlyargs or st.args.defaults):
                body = [x for x in st.body if not (isinstance(x, ast.Expr) and isinstance(x.value, ast.Constant))
                        and not isinstance(x, ast.Assert)]
                if len(body) == 1 and isinstance(body[0], ast.Return) and prop_lambda(body[0].value) is not None:
                    factories[st.name] = (st, prop_lambda(body[0].value))
        for cdef in [x for x in ast.walk(tree) if isinstance(x, ast.ClassDef)]:
            new_body = []
            for st in cdef.body:
                made = None
                if isinstance(st, ast.Assign) and len(st.targets) == 1 and isinstance(st.targets[0], ast.Name) and isinstance(st.value, ast.Call):
                    lam = prop_lambda(st.value)
                    env = {}
                    if lam is None and isinstance(st.value.func, ast.Name) and st.value.func.id in factories and not st.value.keywords \
                            and all(isinstance(a, ast.Constant) for a in st.value.args):
                        fdef, lam0 = factories[st.value.func.id]
                        ps = [a.arg for a in fdef.args.args]
                        if len(ps) == len(st.value.args):
                            env = dict(zip(ps, st.value.args))
                            lam = lam0
                    if lam is not None:
                        slf = lam.args.args[0].arg
                        body_e = copy.deepcopy(lam.body)

                        class S(ast.NodeTransformer):
                            def visit_Name(self_, y):
                                if isinstance(y.ctx, ast.Load) and y.id in env and y.id != slf:
                                    return copy.deepcopy(env[y.id])
                                return y
                        body_e = S().visit(body_e)
                        made = ast.FunctionDef(name=st.targets[0].id,
                                               args=ast.arguments(posonlyargs=[], args=[ast.arg(arg=slf)], vararg=None, kwonlyargs=[],
                                                                  kw_defaults=[], kwarg=None, defaults=[]),
                                               body=[ast.Return(value=body_e)],
                                               decorator_list=[ast.Name(id='property', ctx=ast.Load())], returns=None, type_comment=None)
                        if hasattr(ast, 'TypeVar'):
                            made.type_params = []
                        ast.copy_location(made, st)
                        ast.fix_missing_locations(made)
                        n += 1
                new_body.append(made if made is not None else st)
            cdef.body = new_body
    return n


def canonical_imports(trees: Dict[str, ast.Module], pkg: str = 'pynetdicom2') -> int:
    """One spelling for imports of the package's own modules: ``import pkg.mod as x`` / ``from pkg import mod as x`` /
    ``from . import mod as x`` all become ``from . import mod`` and every reference ``x.`` becomes ``mod.``;
    ``from pkg.mod import name`` becomes ``from .mod import name``.  An alias is left alone when the module's own name (or the
    alias) is bound to something else anywhere in that file."""
    n_changed = 0
    mods = set(trees)
    for modname, tree in trees.items():
        bound = set()
        for n in ast.walk(tree):
            if isinstance(n, ast.Name) and isinstance(n.ctx, (ast.Store, ast.Del)):
                bound.add(n.id)
            elif isinstance(n, ast.arg):
                bound.add(n.arg)
            elif isinstance(n, (ast.FunctionDef, ast.AsyncFunctionDef, ast.ClassDef)):
                bound.add(n.name)
            elif isinstance(n, ast.ExceptHandler) and n.name:
                bound.add(n.name)
        rename: Dict[str, str] = {}
        new_body = []
        for st in tree.body:
            if isinstance(st, ast.Import):
                keep = []
                for a in st.names:
                    parts = a.name.split('.')
                    if len(parts) == 2 and parts[0] == pkg and parts[1] in mods and a.asname:
                        m2 = parts[1]
                        if a.asname != m2 and (m2 in bound or a.asname in bound):
                            keep.append(a)
                            continue
                        new_body.append(ast.copy_location(ast.ImportFrom(module=None, names=[ast.alias(name=m2, asname=None)], level=1), st))
                        if a.asname != m2:
                            rename[a.asname] = m2
                        n_changed += 1
                    else:
                        keep.append(a)
                if keep:
                    st.names = keep
                    new_body.append(st)
                continue
            if isinstance(st, ast.ImportFrom):
                if st.level == 0 and st.module == pkg:
                    st.level, st.module = 1, None
                    n_changed += 1
                elif st.level == 0 and st.module and st.module.startswith(pkg + '.') and st.module[len(pkg) + 1:] in mods:
                    st.level, st.module = 1, st.module[len(pkg) + 1:]
                    n_changed += 1
                if st.level == 1 and st.module is None:
                    for a in st.names:
                        if a.name in mods and a.asname and a.asname != a.name and a.name not in bound and a.asname not in bound:
                            rename[a.asname] = a.name
                            a.asname = None
                            n_changed += 1
            new_body.append(st)
        tree.body = new_body
        if rename:
            for n in ast.walk(tree):
                if isinstance(n, ast.Name) and n.id in rename:
                    n.id = rename[n.id]
    return n_changed


# --------------------------------------------------------------------------- ``match`` statements as if / elif chains

def desugar_match(trees: Dict[str, ast.Module]) -> int:
    """``match S: case 1 | 3: A; case 0 | 2 if G: B; case None: C; case x: D; case _: E`` becomes the if / elif chain it means, for
    the patterns whose meaning is a comparison: literal and dotted-name value patterns (``==``), ``None`` / ``True`` / ``False``
    (``is``), or-patterns of these (membership in the tuple of alternatives, as the package itself writes such tests), a bare
    capture / wildcard (always matches; a capture binds the subject first), all with optional guards.  Class, sequence and
    mapping patterns are left alone (the flow engine reports them as not modelled).  The subject is evaluated once: anything but
    a name / attribute chain is bound to a fresh local first.  -> number of statements rewritten"""
    count = [0]
    fresh = [0]

    def simple(e) -> bool:
        while isinstance(e, ast.Attribute):
            e = e.value
        return isinstance(e, ast.Name)

    def test_for(pat, subj) -> Optional[Tuple[Optional[ast.expr], List[ast.stmt]]]:
        """-> (test or None for "always", statements binding captures) or None when the pattern is not a comparison"""
        if isinstance(pat, ast.MatchValue):
            return ast.Compare(left=subj, ops=[ast.Eq()], comparators=[pat.value]), []
        if isinstance(pat, ast.MatchSingleton):
            return ast.Compare(left=subj, ops=[ast.Is()], comparators=[ast.Constant(value=pat.value)]), []
        if isinstance(pat, ast.MatchOr):
            vals = []
            for p_ in pat.patterns:
                if isinstance(p_, ast.MatchValue):
                    vals.append(p_.value)
                else:
                    return None
            return ast.Compare(left=subj, ops=[ast.In()], comparators=[ast.Tuple(elts=vals, ctx=ast.Load())]), []
        if isinstance(pat, ast.MatchAs):
            if pat.pattern is None:
                binds = [] if pat.name is None else [ast.Assign(targets=[ast.Name(id=pat.name, ctx=ast.Store())], value=subj)]
                return None, binds
            inner = test_for(pat.pattern, subj)
            if inner is None:
                return None
            binds = inner[1] + ([ast.Assign(targets=[ast.Name(id=pat.name, ctx=ast.Store())], value=subj)] if pat.name else [])
            return inner[0], binds
        return None

    def rewrite(st: ast.Match) -> Optional[List[ast.stmt]]:
        pre: List[ast.stmt] = []
        subj = st.subject
        if not simple(subj):
            fresh[0] += 1
            nm = '__m%d_subject' % fresh[0]
            pre.append(ast.Assign(targets=[ast.Name(id=nm, ctx=ast.Store())], value=subj))
            subj = ast.Name(id=nm, ctx=ast.Load())
        arms = []
        for c in st.cases:
            t = test_for(c.pattern, subj)
            if t is None:
                return None
            test, binds = t
            if binds and c.guard is not None:
                return None          # the guard may read the capture: needs the binding before the test
            if c.guard is not None:
                test = c.guard if test is None else ast.BoolOp(op=ast.And(), values=[test, c.guard])
            arms.append((test, binds + c.body))
        chain: List[ast.stmt] = []
        for test, body in reversed(arms):
            if test is None:
                chain = body         # irrefutable: later cases are unreachable (Python rejects them anyway)
            else:
                chain = [ast.If(test=test, body=body, orelse=chain)]
        return pre + (chain or [ast.Pass()])

    class T(ast.NodeTransformer):
        def visit_Match(self, node):
            self.generic_visit(node)
            new = rewrite(node)
            if new is None:
                return node
            count[0] += 1
            for x in new:
                ast.copy_location(x, node)
                ast.fix_missing_locations(x)
            return new
    for t in trees.values():
        T().visit(t)
    return count[0]


# --------------------------------------------------------------------------- dataclasses: the constructor they generate, written out

def materialise_dataclass_init(trees: Dict[str, ast.Module]) -> int:
    """``@dataclass class C: a: int; b: int = 0; c: list = field(default_factory=list, init=False)`` gets the ``__init__`` the decorator
    generates, as source: ``def __init__(self, a, b=0): self.a = a; self.b = b; self.c = list(); self.__post_init__()`` (the last only
    when the class defines it).  Fields of dataclass bases defined in the same module come first, as the decorator orders them.
    Classes that write their own ``__init__`` or pass ``init=False`` are left alone.  -> number of classes"""
    n = 0

    def is_dc(c: ast.ClassDef):
        for d in c.decorator_list:
            t = ast.unparse(d.func if isinstance(d, ast.Call) else d)
            if t.split('.')[-1] == 'dataclass':
                if isinstance(d, ast.Call) and any(k.arg == 'init' and isinstance(k.value, ast.Constant) and k.value.value is False for k in d.keywords):
                    return False
                return True
        return False

    def fields_of(c: ast.ClassDef, classes):
        out = []
        for b in c.bases:
            bn = b.id if isinstance(b, ast.Name) else None
            if bn in classes and is_dc(classes[bn]):
                out.extend(fields_of(classes[bn], classes))
        own = []
        for st in c.body:
            if isinstance(st, ast.AnnAssign) and isinstance(st.target, ast.Name):
                ann = ast.unparse(st.annotation)
                if ann.startswith(('ClassVar', 'typing.ClassVar')):
                    continue
                own.append((st.target.id, st.value))
        names = [f[0] for f in own]
        out = [f for f in out if f[0] not in names] + own
        return out
    for t in trees.values():
        classes = {c.name: c for c in t.body if isinstance(c, ast.ClassDef)}
        for c in classes.values():
            if not is_dc(c) or any(isinstance(st, ast.FunctionDef) and st.name == '__init__' for st in c.body):
                continue
            params, defaults, body = [], [], []
            ok = True
            for name, val in fields_of(c, classes):
                init, default, factory = True, val, None
                if isinstance(val, ast.Call) and ast.unparse(val.func).split('.')[-1] == 'field':
                    default = None
                    for k in val.keywords:
                        if k.arg == 'init' and isinstance(k.value, ast.Constant):
                            init = bool(k.value.value)
                        elif k.arg == 'default':
                            default = k.value
                        elif k.arg == 'default_factory':
                            factory = k.value
                if init:
                    params.append(ast.arg(arg=name))
                    if default is not None or factory is not None:
                        defaults.append(default if default is not None else ast.Constant(value=None))
                    elif defaults:
                        ok = False      # (the decorator itself rejects a field without default after one with)
                    if factory is not None and default is None:
                        # ``x if x is not <missing> else factory()``: read as the parameter; the factory applies when it is not given
                        body.append(ast.Assign(targets=[ast.Attribute(value=ast.Name(id='self', ctx=ast.Load()), attr=name, ctx=ast.Store())],
                                               value=ast.IfExp(test=ast.Compare(left=ast.Name(id=name, ctx=ast.Load()), ops=[ast.IsNot()],
                                                                                comparators=[ast.Constant(value=None)]),
                                                               body=ast.Name(id=name, ctx=ast.Load()),
                                                               orelse=ast.Call(func=factory, args=[], keywords=[]))))
                        continue
                    body.append(ast.Assign(targets=[ast.Attribute(value=ast.Name(id='self', ctx=ast.Load()), attr=name, ctx=ast.Store())],
                                           value=ast.Name(id=name, ctx=ast.Load())))
                else:
                    v = ast.Call(func=factory, args=[], keywords=[]) if factory is not None else default
                    if v is None:
                        continue
                    body.append(ast.Assign(targets=[ast.Attribute(value=ast.Name(id='self', ctx=ast.Load()), attr=name, ctx=ast.Store())], value=v))
            if not ok:
                continue
            if any(isinstance(st, ast.FunctionDef) and st.name == '__post_init__' for st in c.body):
                body.append(ast.Expr(value=ast.Call(func=ast.Attribute(value=ast.Name(id='self', ctx=ast.Load()), attr='__post_init__', ctx=ast.Load()),
                                                    args=[], keywords=[])))
            fn = ast.FunctionDef(name='__init__',
                                 args=ast.arguments(posonlyargs=[], args=[ast.arg(arg='self')] + params, vararg=None, kwonlyargs=[],
                                                    kw_defaults=[], kwarg=None, defaults=defaults),
                                 body=body or [ast.Pass()], decorator_list=[], returns=None, type_comment=None)
            if hasattr(fn, 'type_params'):
                fn.type_params = []
            fn._dataclass_synth = True
            ast.copy_location(fn, c)
            for x in ast.walk(fn):
                ast.copy_location(x, c)
            ast.fix_missing_locations(fn)
            # after the docstring and the field declarations
            c.body.append(fn)
            n += 1
    return n


# --------------------------------------------------------------------------- annotated assignments inside functions

def plain_assignments(trees: Dict[str, ast.Module]) -> int:
    """Inside function bodies ``x: T = v`` is ``x = v`` and a bare ``x: T`` is nothing (annotations of locals and attributes are
    not evaluated for locals and have no effect at run time): the rules read assignments in one form.  Module and class level
    annotated assignments are left alone (they are indexed as such; dataclass fields live there).  -> number rewritten"""
    n = [0]

    class T(ast.NodeTransformer):
        def __init__(self):
            self.depth = 0

        def visit_FunctionDef(self, node):
            self.depth += 1
            self.generic_visit(node)
            self.depth -= 1
            return node
        visit_AsyncFunctionDef = visit_FunctionDef

        def visit_ClassDef(self, node):
            d, self.depth = self.depth, 0
            self.generic_visit(node)
            self.depth = d
            return node

        def visit_AnnAssign(self, node):
            if self.depth == 0:
                return node
            n[0] += 1
            if node.value is None:
                return ast.copy_location(ast.Pass(), node)
            return ast.copy_location(ast.Assign(targets=[node.target], value=node.value), node)
    for t in trees.values():
        T().visit(t)
        ast.fix_missing_locations(t)
    return n[0]
