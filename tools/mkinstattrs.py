#!/usr/bin/env python3
"""Regenerates the INSTANCE_ATTRS block of pnd_static/oracles/inventory.py from /repo (run on the pinned tree only):
'<module>:<Class>.<attr>' for every ``self.<attr> = ..`` in a method of the class."""
import ast, os, re, sys
out = set()
pkg = '/repo/pynetdicom2'
for fn in sorted(os.listdir(pkg)):
    if not fn.endswith('.py'):
        continue
    tree = ast.parse(open(os.path.join(pkg, fn)).read())
    for c in [n for n in ast.walk(tree) if isinstance(n, ast.ClassDef)]:
        for f in [n for n in c.body if isinstance(n, (ast.FunctionDef, ast.AsyncFunctionDef))]:
            if not f.args.args:
                continue
            slf = f.args.args[0].arg
            for n in ast.walk(f):
                if isinstance(n, ast.Attribute) and isinstance(n.ctx, ast.Store) and isinstance(n.value, ast.Name) and n.value.id == slf:
                    out.add('%s:%s.%s' % (fn[:-3], c.name, n.attr))
p = os.path.join(os.path.dirname(os.path.dirname(os.path.abspath(__file__))), 'pnd_static', 'oracles', 'inventory.py')
s = open(p).read()
block = 'INSTANCE_ATTRS = frozenset([\n' + ''.join('    %r,\n' % x for x in sorted(out)) + '])\n'
if 'INSTANCE_ATTRS = frozenset([' in s:
    s = re.sub(r'INSTANCE_ATTRS = frozenset\(\[\n.*?\]\)\n', block, s, flags=re.S)
else:
    s = s.rstrip('\n') + '\n\n# instance attributes assigned in methods of the pinned tree (the rules name them)\n' + block
open(p, 'w').write(s)
print(len(out), 'instance attributes')
