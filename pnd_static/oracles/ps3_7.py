"""Oracle: DICOM PS3.7 command elements (section E.1, Table E.1-1) -- transcribed by hand."""

# Command Field (0000,0100) per message, Table E.1-1; response = request | 8000H
COMMAND_FIELD = {
    'CStoreRQMessage': 0x0001, 'CStoreRSPMessage': 0x8001,
    'CGetRQMessage': 0x0010, 'CGetRSPMessage': 0x8010,
    'CFindRQMessage': 0x0020, 'CFindRSPMessage': 0x8020,
    'CMoveRQMessage': 0x0021, 'CMoveRSPMessage': 0x8021,
    'CEchoRQMessage': 0x0030, 'CEchoRSPMessage': 0x8030,
    'NEventReportRQMessage': 0x0100, 'NEventReportRSPMessage': 0x8100,
    'NGetRQMessage': 0x0110, 'NGetRSPMessage': 0x8110,
    'NSetRQMessage': 0x0120, 'NSetRSPMessage': 0x8120,
    'NActionRQMessage': 0x0130, 'NActionRSPMessage': 0x8130,
    'NCreateRQMessage': 0x0140, 'NCreateRSPMessage': 0x8140,
    'NDeleteRQMessage': 0x0150, 'NDeleteRSPMessage': 0x8150,
    'CCancelRQMessage': 0x0FFF,
}
assert len(COMMAND_FIELD) == 23

# Command elements, PS3.7 E.1 (group 0000): element number -> keyword
ELEMENTS = {
    0x0000: 'CommandGroupLength', 0x0002: 'AffectedSOPClassUID', 0x0003: 'RequestedSOPClassUID',
    0x0100: 'CommandField', 0x0110: 'MessageID', 0x0120: 'MessageIDBeingRespondedTo',
    0x0600: 'MoveDestination', 0x0700: 'Priority', 0x0800: 'CommandDataSetType', 0x0900: 'Status',
    0x0901: 'OffendingElement', 0x0902: 'ErrorComment', 0x0903: 'ErrorID',
    0x1000: 'AffectedSOPInstanceUID', 0x1001: 'RequestedSOPInstanceUID', 0x1002: 'EventTypeID',
    0x1005: 'AttributeIdentifierList', 0x1008: 'ActionTypeID',
    0x1020: 'NumberOfRemainingSuboperations', 0x1021: 'NumberOfCompletedSuboperations',
    0x1022: 'NumberOfFailedSuboperations', 0x1023: 'NumberOfWarningSuboperations',
    0x1030: 'MoveOriginatorApplicationEntityTitle', 0x1031: 'MoveOriginatorMessageID',
}

# library property name -> command element it must be bound to.  'sop_class_uid' is the
# Affected SOP Class UID (0002) except on the requests that carry a Requested SOP Class UID (0003).
PROPERTY_ELEMENT = {
    'status': 0x0900, 'priority': 0x0700, 'message_id': 0x0110, 'message_id_being_responded_to': 0x0120,
    'affected_sop_instance_uid': 0x1000, 'requested_sop_instance_uid': 0x1001,
    'move_destination': 0x0600, 'move_originator_aet': 0x1030, 'move_originator_message_id': 0x1031,
    'num_of_remaining_sub_ops': 0x1020, 'num_of_completed_sub_ops': 0x1021,
    'num_of_failed_sub_ops': 0x1022, 'num_of_warning_sub_ops': 0x1023,
    'event_type_id': 0x1002, 'action_type_id': 0x1008, 'attribute_identifier_list': 0x1005,
}
REQUESTED_SOP_CLASS_MESSAGES = {'NGetRQMessage', 'NSetRQMessage', 'NActionRQMessage', 'NDeleteRQMessage'}

NO_DATASET = 0x0101

# Service-specific status codes (beyond the general DIMSE statuses of PS3.7 Annex C), per response message.
# PS3.4 Tables B.2-1 (C-STORE), C.4-1 (C-FIND), C.4-2 (C-MOVE), C.4-3 (C-GET), Y.x (instance/frame level retrieve,
# AA00-AA04 for C-MOVE), K.4 (worklist C-FIND, same codes as C.4-1).  Ranges are inclusive.
SERVICE_STATUS = {
    'CStoreRSPMessage': [(0xA700, 0xA7FF), (0xA900, 0xA9FF), (0xC000, 0xCFFF), (0xB000, 0xB000), (0xB007, 0xB007), (0xB006, 0xB006)],
    'CFindRSPMessage': [(0xA700, 0xA700), (0xA900, 0xA900), (0xC000, 0xCFFF), (0xFE00, 0xFE00), (0xFF00, 0xFF01)],
    'CGetRSPMessage': [(0xA701, 0xA702), (0xA900, 0xA900), (0xC000, 0xCFFF), (0xFE00, 0xFE00), (0xB000, 0xB000), (0xFF00, 0xFF00),
                       (0xAA00, 0xAA04)],
    'CMoveRSPMessage': [(0xA701, 0xA702), (0xA801, 0xA801), (0xA900, 0xA900), (0xC000, 0xCFFF), (0xFE00, 0xFE00), (0xB000, 0xB000),
                        (0xFF00, 0xFF00), (0xAA00, 0xAA04)],
}
# general DIMSE status codes (PS3.7 Annex C) that a service may also register specifically (e.g. 0112H)
GENERAL_STATUS = [(0x0000, 0x0000), (0x0105, 0x0107), (0x0110, 0x0124), (0x0210, 0x0213)]
