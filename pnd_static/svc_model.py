"""Shared analysis of the service-class callables of sopclass.py (C15, C16, C17, C19)."""
from __future__ import annotations

import ast
from typing import Dict, List, Optional, Tuple

from .flow import calls_in
from .fsm_model import exc_hierarchy
from .srcmodel import AnalysisError, ClassRef, FuncInfo, NotConst, Repo, norm
from .sym import Event, SymClient, SymState, empty_state, is_token, token_class


def svc_event(call, callee, client, state) -> Optional[str]:
    last = callee.rsplit('.', 1)[-1]
    if last == 'send' and len(call.args) == 2 and not callee.endswith('dul.send'):
        return 'send'
    if last == 'receive' and not call.args:
        return 'receive'
    if last.startswith('on_receive_') or last.startswith('on_commitment_'):
        return 'handler'
    if callee in ('dsutils.encode', 'dsutils.decode'):
        return 'dsutils'
    if last == 'get_scu':
        return 'get_scu'
    if last == 'request_association':
        return 'request_association'
    if '.get_scu(' in callee:
        return 'subop'
    if last == 'close':
        return 'close'
    if last == 'Status':
        return 'Status'
    return None


def svc_raises(node, client, state):
    out = []
    nodes = [node] if isinstance(node, ast.Call) and isinstance(node.func, ast.Name) and node.func.id == '__next__' else calls_in(node)
    for call in nodes:
        t = client.term(call.func, state, heap_ext=False)
        last = t.rsplit('.', 1)[-1]
        if last.startswith('on_receive_') or last.startswith('on_commitment_'):
            out.append('EventHandlingError')
        if t == '__next__' and call.args:
            it = client.term(call.args[0], state)
            if 'on_receive_find' in it or 'on_receive_move' in it:   # documented to return generators
                out.append('EventHandlingError')   # the application's generator runs when advanced
        # what on_receive_find / on_receive_move hand back is iterated, nothing more: any iterable will do (a list, iter(..)).
        # close() / send() / throw() exist on generator objects only
        if isinstance(call.func, ast.Attribute) and call.func.attr in GENERATOR_ONLY:
            recv = client.term(call.func.value, state)
            if ('on_receive_find' in recv or 'on_receive_move' in recv) and not recv.endswith(')') or \
                    (recv.endswith(')') and recv.split('(')[0].rsplit('.', 1)[-1] in ('on_receive_find', 'on_receive_move', 'iter')
                     and ('on_receive_find' in recv or 'on_receive_move' in recv)):
                guarded = any(cn in ("+hasattr(%s, '%s')" % (recv, call.func.attr), '+inspect.isgenerator(%s)' % recv,
                                     '+isinstance(%s, types.GeneratorType)' % recv) for cn in state.conds)
                if not guarded:
                    out.append('AttributeError')
    for n in ast.walk(node):
        if isinstance(n, ast.Yield):
            out.append('GeneratorExit')
    return out


GENERATOR_ONLY = ('close', 'send', 'throw')


def is_response_token(t: str) -> bool:
    return is_token(t) and token_class(t).endswith('RSPMessage')


def is_message_token(t: str) -> bool:
    return is_token(t) and token_class(t).endswith('Message')


class ServiceAnalysis:
    def __init__(self, repo: Repo, f: FuncInfo, inline_names=('_send_response',), with_yield_exc=False):
        self.repo = repo
        self.f = f
        self.hier = exc_hierarchy(repo)
        names = set(inline_names)

        def inline(fi):
            # private module-level helpers of sopclass.py are looked into (``_send_response`` and any later one)
            return fi.module.name == 'sopclass' and fi.cls is None and (fi.name in names or fi.name.startswith('_'))

        def raises(node, client, state):
            out = svc_raises(node, client, state)
            if not with_yield_exc:
                out = [x for x in out if x != 'GeneratorExit']
            return out
        self.client = SymClient(repo, f, event_of=svc_event, inline=inline, hierarchy=self.hier, raises_of=raises,
                                field_event=lambda tok, attr: is_message_token(tok))
        self.outcomes = self.client.run(empty_state())
        self.finals = self.client.final_states(self.outcomes)
        self.log = self.client.log

    def loops(self) -> List[ast.AST]:
        """the loops the analysis entered, in source order of the analysed function first, then those of inlined helpers"""
        own = [n for n in ast.walk(self.f.node) if isinstance(n, (ast.For, ast.While))]
        seen = {id(n) for n in own}
        for _cl, node, _st in self.client.loops:
            if id(node) not in seen:
                seen.add(id(node))
                own.append(node)
        return own

    def sends(self):
        return [(e, s) for e, s in self.log if e.kind == 'send']


def message_class(repo: Repo, token: str):
    return repo.cls('dimsemessages', token_class(token))


def property_tag(repo: Repo, cls, prop: str):
    """tag a dimse_property of a message class is bound to, or None"""
    hit = cls.find_attr(prop)
    if hit is None:
        return None
    v = hit[1]
    if isinstance(v, ast.Call) and norm(v.func) == 'dimse_property' and v.args:
        return repo.try_fold(v.args[0], hit[0].module, hit[0])
    return None


def status_constant(repo: Repo, term: str):
    """``int(statuses.NAME)`` / ``statuses.NAME`` -> (code, command class name or None) or None"""
    t = term
    if t.startswith('int(') and t.endswith(')'):
        t = t[4:-1]
    if not t.startswith('statuses.'):
        return None
    name = t[len('statuses.'):]
    st = repo.module('statuses')
    if name not in st.assigns:
        return None
    v = st.assigns[name][-1]
    if isinstance(v, ast.Call) and norm(v.func) == 'Status' and v.args:
        code = repo.try_fold(v.args[0], st)
        cmd = None
        if len(v.args) > 1:
            r = repo.try_fold(v.args[1], st)
            if isinstance(r, ClassRef):
                cmd = r.name
        return code, cmd
    return None


def classify(repo: Repo, code: int, cmd: Optional[str]) -> str:
    """Classification of a status code by the folded KNOWN_STATUSES table (same semantics C18 establishes)."""
    spec = None
    gen = None
    for lo, hi, typ, rc, _i in status_rows(repo):
        if lo <= code <= hi:
            if rc is None:
                gen = typ
            elif rc == cmd:
                spec = typ
    return spec or gen or 'Failure'


def status_rows(repo: Repo):
    """KNOWN_STATUSES folded to (first code, last code, type, response class name or None, row index); a row whose
    command column is a tuple/list of classes stands for one row per class"""
    rows = repo.module_const('statuses', 'KNOWN_STATUSES')
    out = []
    for i, row in enumerate(rows):
        if not (isinstance(row, tuple) and len(row) == 4):
            out.append((None, None, None, ('malformed', row), i))
            continue
        c, typ, _d, rc = row
        lo, hi = c if isinstance(c, tuple) else (c, c)
        cmds = list(rc) if isinstance(rc, (tuple, list)) else [rc]
        for one in cmds:
            if one is None:
                out.append((lo, hi, typ, None, i))
            elif isinstance(one, ClassRef):
                out.append((lo, hi, typ, one.name, i))
            else:
                out.append((lo, hi, typ, ('notclass', one), i))
    return out


# --------------------------------------------------------------------------- a message built over another message's command set

def command_set_origin(term: Optional[str]) -> Optional[Tuple[str, str]]:
    """How a message's command set was obtained from another one: ``M.command_set`` -> (M, 'alias'); ``M.command_set.copy()`` /
    ``copy.copy(M.command_set)`` / ``Dataset(M.command_set)`` -> (M, 'shallow'); ``copy.deepcopy(M.command_set)`` -> (M, 'deep').
    (pydicom's Dataset.copy() is ``copy.copy(self)``: a new dict of the same DataElement objects.)"""
    if not term:
        return None
    try:
        e = ast.parse(term, mode='eval').body
    except SyntaxError:
        return None

    def owner(x):
        if isinstance(x, ast.Attribute) and x.attr in ('command_set', '_command_set'):
            return ast.unparse(x.value)
        return None
    if owner(e):
        return owner(e), 'alias'
    if isinstance(e, ast.Call) and isinstance(e.func, ast.Attribute) and e.func.attr == 'copy' and not e.args and owner(e.func.value):
        return owner(e.func.value), 'shallow'
    if isinstance(e, ast.Call) and len(e.args) == 1 and not e.keywords and owner(e.args[0]):
        fn = ast.unparse(e.func)
        if fn in ('copy.copy', 'Dataset', 'pydicom.Dataset', 'pydicom.dataset.Dataset', 'dataset.Dataset'):
            return owner(e.args[0]), 'shallow'
        if fn in ('copy.deepcopy', 'deepcopy'):
            return owner(e.args[0]), 'deep'
    return None


def response_fields(e: Event, s: SymState, tok: str) -> Dict[str, str]:
    """fields of the message token as the rules read them: what was set on it, over what the command set it was constructed
    with already carried (another message of this call whose command set was copied)"""
    fl = dict(e.fields(tok))
    org = command_set_origin(fl.get('@command_set'))
    if org is not None and is_token(org[0]):
        base = dict(s.fields_of(org[0]))
        base = {k: v for k, v in base.items() if not k.startswith('@') and k not in ('data_set', '_data_set')}
        base.update(fl)
        return base
    return fl


def shared_command_set_problems(repo: Repo, modules=('sopclass',)) -> Tuple[List[str], int]:
    """The message properties write ``command_set[tag].value``: they change DataElement objects in place.  A message whose
    command set is another message's -- the same object, or a shallow copy, which holds the same elements -- and that is then
    written to changes that other message and every sibling made the same way: reports that were handed to send() but not encoded
    yet go out with the values of a later one.  Only a deep copy gives a message a command set of its own.
    -> (problems, number of messages constructed over an existing command set)"""
    probs: List[str] = []
    n = 0
    for fi in repo.all_functions():
        if fi.module.name not in modules or fi.parent is not None:
            continue
        if not any(isinstance(x, ast.Attribute) and x.attr in ('command_set', '_command_set') for x in ast.walk(fi.node)):
            continue
        a = ServiceAnalysis(repo, fi, inline_names=())
        seen = set()
        for e, s in a.log:
            if e.kind != 'setfield':
                continue
            tok = e.callee.rsplit('.', 1)[0]
            if not is_message_token(tok):
                continue
            org = command_set_origin(dict(s.fields_of(tok)).get('@command_set'))
            if org is None:
                continue
            if (tok, org) not in seen:
                seen.add((tok, org))
                n += 1
                if org[1] in ('alias', 'shallow'):
                    probs.append('%s: the %s created at line %s is given %s command set %s and then written to (line %d: %s): the '
                                 'property setters change the DataElement objects both hold, so %s and every message made from it the '
                                 'same way change with it -- a report already handed to send() is encoded later with these values; '
                                 'copy.deepcopy() gives an independent command set'
                                 % (fi.qualname, token_class(tok), tok.rsplit('_L', 1)[-1],
                                    'the' if org[1] == 'alias' else 'a shallow copy (Dataset.copy() / copy.copy()) of the',
                                    'of ' + org[0], e.line, e.callee.split('.', 1)[1], org[0]))
    return sorted(set(probs)), n


# --------------------------------------------------------------------------- what the application hands over stays as it is

_MUTATORS = ('update', 'append', 'extend', 'insert', 'pop', 'popitem', 'remove', 'clear', 'setdefault', 'sort', 'reverse', 'add', 'discard')


def handler_result_mutations(repo: Repo, modules=('sopclass',)) -> Tuple[List[str], int]:
    """What an application handler (``on_receive_*`` / ``on_commitment_*``) returns belongs to the application: a dictionary of a
    known peer, a data set, a list are typically shared between requests and associations.  A service function that stores into
    such an object (``result[k] = v``, ``result.attr = v``) or calls a mutating method on it changes it for every other
    association that gets the same object.  Decided for the locals that are bound to (a component of) a handler result and to
    nothing else.  -> (problems, number of such locals examined)"""
    probs: List[str] = []
    n = 0
    for fi in repo.all_functions():
        if fi.module.name not in modules:
            continue
        binds: Dict[str, List[Optional[ast.expr]]] = {}
        for x in ast.walk(fi.node):
            if isinstance(x, ast.Assign):
                for t in x.targets:
                    names = [t] if isinstance(t, ast.Name) else [e for e in ast.walk(t) if isinstance(e, ast.Name)] if isinstance(t, (ast.Tuple, ast.List)) else []
                    for nm in names:
                        binds.setdefault(nm.id, []).append(x.value)
            elif isinstance(x, (ast.For, ast.With, ast.AugAssign, ast.NamedExpr)):
                for e in ast.walk(x.target if hasattr(x, 'target') else x):
                    if isinstance(e, ast.Name) and isinstance(e.ctx, ast.Store):
                        binds.setdefault(e.id, []).append(None)

        def from_handler(v) -> bool:
            return isinstance(v, ast.Call) and ast.unparse(v.func).rsplit('.', 1)[-1].startswith(('on_receive_', 'on_commitment_'))
        owned = {nm for nm, vals in binds.items() if len(vals) == 1 and vals[0] is not None and from_handler(vals[0]) and nm not in fi.params}
        n += len(owned)
        for x in ast.walk(fi.node):
            hit = None
            if isinstance(x, (ast.Subscript, ast.Attribute)) and isinstance(x.ctx, (ast.Store, ast.Del)) and isinstance(x.value, ast.Name) \
                    and x.value.id in owned:
                hit = (x.value.id, 'stores into %s' % ast.unparse(x), x.lineno)
            elif isinstance(x, ast.Call) and isinstance(x.func, ast.Attribute) and x.func.attr in _MUTATORS and isinstance(x.func.value, ast.Name) \
                    and x.func.value.id in owned:
                hit = (x.func.value.id, 'calls %s()' % ast.unparse(x.func), x.lineno)
            if hit:
                probs.append('%s %s (line %d): %s is what the application\'s %s returned -- an object the application owns and typically '
                             'shares between requests (a table of known peers); changing it in place changes it for the associations '
                             'served at the same time. Work on a copy (dict(x, key=..))'
                             % (fi.qualname, hit[1], hit[2], hit[0], ast.unparse(binds[hit[0]][0].func).rsplit('.', 1)[-1]))
    return sorted(set(probs)), n
