#!/usr/bin/env python3
"""collect_twins.py <agent worktree> <Rnn>: re-verify a property-preserving change made by a sub-agent on a scratch copy (70 unit tests
pass with it; its demo passes with and without it), store it as refactors/<Rnn>/ (patch.diff, notes.md) and run the 20 checks on it."""
import json, os, shutil, subprocess, sys, tempfile
VERIF = os.path.dirname(os.path.dirname(os.path.abspath(__file__)))
src, rid = os.path.abspath(sys.argv[1]), sys.argv[2]
name = os.path.basename(src)
patch = os.path.join(src, 'patch.diff')
if not os.path.exists(patch):
    sys.exit('%s: no patch.diff' % name)
tmp = tempfile.mkdtemp(prefix='twinc_')
try:
    shutil.copytree('/repo/pynetdicom2', os.path.join(tmp, 'pynetdicom2'))
    shutil.copytree('/repo/tests', os.path.join(tmp, 'tests'))
    demo = open(os.path.join(src, 'demo.py')).read().replace(src, '.') if os.path.exists(os.path.join(src, 'demo.py')) else None
    if demo:
        open(os.path.join(tmp, 'demo.py'), 'w').write(demo)
    rc0 = subprocess.run(['/venv/bin/python', 'demo.py'], cwd=tmp, capture_output=True, text=True, timeout=900).returncode if demo else None
    p = subprocess.run(['patch', '-p1', '-s', '--no-backup-if-mismatch', '-i', patch], cwd=tmp, capture_output=True, text=True)
    if p.returncode:
        sys.exit('%s: patch does not apply: %s' % (name, p.stdout[-200:]))
    t = subprocess.run(['/venv/bin/python', '-m', 'pytest', '-q', '-p', 'no:cacheprovider', 'tests/test_dimsemessages.py', 'tests/test_pdu.py'],
                       cwd=tmp, capture_output=True, text=True)
    tests = (t.stdout.strip().splitlines() or ['?'])[-1]
    rc1 = subprocess.run(['/venv/bin/python', 'demo.py'], cwd=tmp, capture_output=True, text=True, timeout=900).returncode if demo else None
    ok = tests.startswith('70 passed') and rc0 == 0 and rc1 == 0
    print('%s: tests "%s", demo original rc=%s, changed rc=%s -> %s' % (name, tests[:40], rc0, rc1, 'confirmed' if ok else 'NOT CONFIRMED'))
    if not ok:
        sys.exit(1)
    dst = os.path.join(VERIF, 'refactors', rid)
    os.makedirs(dst, exist_ok=True)
    shutil.copy(patch, os.path.join(dst, 'patch.diff'))
    notes = open(os.path.join(src, 'notes.md')).read() if os.path.exists(os.path.join(src, 'notes.md')) else ''
    try:
        meta = json.load(open(os.path.join(src, 'meta.json')))
    except Exception:
        meta = {}
    open(os.path.join(dst, 'notes.md'), 'w').write(
        '# %s - property-preserving change around %s (independent sub-agent, given only the property record)\n\n%s\n\n'
        'Confirmed here: the 70 unit tests pass with the change; the agent\'s demonstration of the property (kept as demo.py) passes on '
        'the pinned tree and on the changed tree.\n\n%s\n' % (rid, meta.get('property', name[:3]), meta.get('summary', ''), notes))
    if demo:
        open(os.path.join(dst, 'demo.py'), 'w').write(demo)
    env = dict(os.environ, VERIF_REPO=tmp, VERIF_EVIDENCE_DIR=os.path.join(tmp, 'ev'))
    bad = []
    for i in range(1, 21):
        pid = 'C%02d' % i
        r = subprocess.run(['/venv/bin/python', '-m', 'pnd_static.check', '--property', pid], cwd=VERIF, env=env, capture_output=True, text=True)
        if r.returncode:
            lines = [l for l in r.stdout.splitlines() if not l.startswith(('VIOLATION', 'KNOWN-FINDING'))]
            bad.append('--- %s rc=%d\n%s' % (pid, r.returncode, '\n'.join(lines[:4])[:700]))
    print('%s stored as %s; checks with non-zero exit: %d' % (name, rid, len(bad)))
    for b in bad:
        print(b)
finally:
    shutil.rmtree(tmp, ignore_errors=True)
