"""C16 -- C-FIND returns exactly the matches the SCP produced, in order, then stops.

Decided: per-iteration shape of the provider and user loops, the delegating variants, and the
ownership rule for messages handed to the lazy encoder.  Not decided: multi-fragment
behaviour on the wire (C06/C07)."""
from __future__ import annotations

import ast

from ..fsm_model import exc_hierarchy
from ..srcmodel import AnalysisError, norm
from ..svc_model import ServiceAnalysis, classify, is_message_token, is_response_token, status_constant
from ..sym import SymClient, empty_state, is_token, loop_body_outcomes, token_class

DEC = 'dsutils.decode(msg.data_set, ctx.supported_ts.is_implicit_VR, ctx.supported_ts.is_little_endian)'


def check_ownership(repo, rep, rule='C16.R4', modules=('sopclass',)):
    """A message object must not be written after it was passed to send() (the encoder reads it
    lazily in the provider thread), neither later on the same path nor in the next iteration."""
    n_sites = 0
    for fi in repo.all_functions():
        if fi.module.name not in modules or fi.parent is not None:
            continue
        if not any(isinstance(n, ast.Call) and isinstance(n.func, ast.Attribute) and n.func.attr == 'send' and len(n.args) == 2
                   for n in ast.walk(fi.node)):
            continue
        a = ServiceAnalysis(repo, fi, inline_names=())
        rep.analysed(fi)
        loops = a.loops()
        # straight-line: setfield after send on the same trail
        seen_sites = {}
        for e, s in a.log:
            if e.kind != 'send' or not e.args or not is_message_token(e.args[0]):
                continue
            site = (e.line, e.args[0])
            seen_sites.setdefault(site, [])
        for e, s in a.log:
            if e.kind != 'setfield':
                continue
            tok = e.callee.rsplit('.', 1)[0]
            for prev in s.trail:
                if prev.kind == 'send' and prev.args and prev.args[0] == tok:
                    seen_sites.setdefault((prev.line, tok), []).append(
                        'line %d writes %s after the message was handed to send() at line %d' % (e.line, e.callee.split('.', 1)[1], prev.line))
        # loops: object created outside, sent and written inside
        for (line, tok), probs in list(seen_sites.items()):
            created = int(tok.rsplit('_L', 1)[1])
            for lp in loops:
                lo, hi = lp.lineno, getattr(lp, 'end_lineno', lp.lineno)
                if lo <= line <= hi and not (lo <= created <= hi):
                    writes = [e2 for e2, s2 in a.log if e2.kind == 'setfield' and e2.callee.startswith(tok + '.') and lo <= e2.line <= hi]
                    if writes:
                        probs.append('the %s created at line %d is re-used by every iteration of the loop at line %d: it is '
                                     'modified (line %d) while the encoder of the previous send may not have run yet, so an '
                                     'earlier response goes out with the later status / data set'
                                     % (token_class(tok), created, lo, writes[0].line))
        for (line, tok), probs in sorted(seen_sites.items()):
            n_sites += 1
            rep.check(not probs, rule, 'sopclass:%s:send(%s)#L%d' % (fi.qualname, token_class(tok), _ordinal(seen_sites, line, tok)),
                      fi.loc(), 'message not written after send', '; '.join(sorted(set(probs))))
    rep.notes['send_sites'] = n_sites
    return n_sites


def _ordinal(sites, line, tok):
    same = sorted(l for (l, t) in sites if token_class(t) == token_class(tok))
    return same.index(line)


def run(repo, rep):
    from ..pitfalls import memo_rule as _memo_rule
    _memo_rule(repo, rep, 'C16', 'C16.Z1')
    from ..pitfalls import log_rule as _log_rule
    _log_rule(repo, rep, 'C16', 'C16.Z2')
    from ..api_pitfalls import truth_rule as _truth_rule
    _truth_rule(repo, rep, 'C16', 'C16.Z4')
    from ..api_pitfalls import attribute_rule as _attribute_rule
    _attribute_rule(repo, rep, 'C16', 'C16.Z5')
    from ..api_pitfalls import pairing_rule as _pairing_rule
    _pairing_rule(repo, rep, 'C16', 'C16.Z6')
    from ..pitfalls import zero_rule as _zero_rule
    _zero_rule(repo, rep, 'C16', 'C16.Z3')
    rep.rule('C16.R7', 'data sets and command sets are encoded into a buffer that is created in the call, or held per thread and emptied '
             'before the first write: the bytes of a message never contain what another thread or an earlier, failed encode wrote '
             '(same analysis as C08.M7)', 1)
    from ..pitfalls import writer_reuse_problems as _wrp
    _sh, _st, _nw = _wrp(repo)
    rep.check(not (_sh or _st), 'C16.R7', 'dsutils:writers', repo.module('dsutils').relpath, '%d write sites: buffers fresh, or per-thread and '
              'emptied first' % _nw, '; '.join(_sh + _st))
    rep.trust('C18 for the pending classification; C06/C07 for the wire; CPython generator semantics')
    rep.rule('C16.R1', 'provider: each iteration of the match loop sends exactly one response with that match\'s status and '
             'data set; after the loop one final non-pending response; the query data set is decoded with the context\'s '
             'syntax and handed to the application', 2)
    rep.rule('C16.R2', 'user: each iteration receives one response and yields (data set, status) once; the loop ends iff the '
             'status is not pending', 1)
    rep.rule('C16.R3', 'the worklist provider/user and the c_find wrapper delegate and forward every pair unchanged, in order', 3)
    rep.rule('C16.R4', 'no message object is modified after it was passed to send(), incl. through a loop back-edge', 12)

    rep.rule('C16.R8', 'the identifier and the matches are reassembled from all their fragments: an in-memory stream the reassembler '
             'collects them in is not written at offset 0 over the content it was created with (same analysis as C07.D9)', 1)
    from ..pitfalls import stream_overwrite_problems as _sop
    _dec = repo.cls('fsm', 'DIMSEDecoder')
    p8_, n8_ = _sop(repo, list(_dec.methods.values()) + [f_ for f_ in repo.all_functions() if f_.module.name == 'dsutils'])
    rep.check(not p8_, 'C16.R8', 'fsm:DIMSEDecoder:collecting-streams', _dec.loc(),
              '%d stream(s) created over content; none written to afterwards at offset 0' % n8_, '; '.join(p8_))

    # ---------------------------------------------------------------- R1
    f = repo.func('sopclass', 'qr_find_scp')
    rep.analysed(f)
    a = ServiceAnalysis(repo, f)
    loops = [l for l in a.loops() if isinstance(l, ast.For)]
    if not loops:
        raise AnalysisError('%s: no match loop in qr_find_scp' % f.loc())
    lp = loops[0]
    o = loop_body_outcomes(a.client, lp)
    probs = []
    it = a.client.term(lp.iter, [s for e, s in a.log if e.kind == 'loop' and e.line == lp.lineno][0])
    if it != 'asce.ae.on_receive_find(ctx, %s)' % DEC:
        probs.append('matches come from %s, expected on_receive_find(ctx, <query decoded with the context\'s syntax>)' % it)
    outs = list(o.fall) + list(o.cont)
    if o.brk or o.ret:
        # leaving the loop on a question put to the association (has the peer cancelled?) is an extension of the service, not a
        # loss of matches; which question it is the rule cannot tell: a new function of the package that is called on the
        # association in the test that leads to the exit
        early = list(o.brk) + [s_ for s_, _v in o.ret]
        from ..oracles.inventory import FUNCTIONS as _FN

        def asks_association(s_):
            for cn in s_.conds:
                if cn[:1] == '+' and cn[1:].startswith('asce.') and '(' in cn:
                    nm = cn[1:].split('(')[0].rsplit('.', 1)[-1]
                    if not any(k_.endswith('.' + nm) or k_.endswith(':' + nm) for k_ in _FN):
                        return nm
            return None
        def cancel_received(s_):
            return any(cn[:1] == '+' and 'CCancelRQMessage' in cn and ('isinstance(' in cn or 'command_field' in cn) for cn in s_.conds)
        if all(cancel_received(s_) for s_ in early):
            rep.notes['cancel'] = 'the match loop is left early only on paths on which a C-CANCEL-RQ was found among the received messages'
        elif all(asks_association(s_) for s_ in early):
            rep.undecided('C16.R1', '%s: the match loop is left when asce.%s(..) answers true -- a question the rule cannot interpret '
                          '(a cancel request from the peer?); whether matches are lost is not decided' % (f.loc(lp), asks_association(early[0])))
        else:
            probs.append('the match loop can be left early: later matches are lost')
    for s in outs:
        sn = [e for e in s.trail if e.kind == 'send']
        if len(sn) != 1:
            probs.append('%d responses sent for one match' % len(sn))
            continue
        fl = sn[0].fields(sn[0].args[0])
        item = 'ITEM(%s)' % it
        if fl.get('status') != 'int(%s[1])' % item:
            probs.append('response status is %s, not this match\'s status' % fl.get('status'))
        if fl.get('data_set') != 'dsutils.encode(%s[0], ctx.supported_ts.is_implicit_VR, ctx.supported_ts.is_little_endian)' % item:
            probs.append('response data set is %s, not this match\'s data set' % fl.get('data_set'))
    rep.check(not probs, 'C16.R1', 'sopclass:qr_find_scp:one-response-per-match', f.loc(lp),
              'one response per match with its own status and data set (%d paths)' % len(outs), '; '.join(sorted(set(probs))))
    probs = []
    for s, how in a.finals:
        if how.startswith('raise'):
            continue
        finals_ = []
        for e in s.trail:
            if e.kind == 'send':
                stt = e.fields(e.args[0]).get('status', '')
                if 'ITEM(' not in stt:
                    finals_.append((e, stt))
        if len(finals_) != 1:
            probs.append('%d final responses after the match loop' % len(finals_))
            continue
        const = status_constant(repo, finals_[0][1])
        if const is None or classify(repo, const[0], 'CFindRSPMessage') == 'Pending':
            probs.append('final response status %s is not a non-pending constant' % finals_[0][1])
        if finals_[0][0].fields(finals_[0][0].args[0]).get('data_set') not in (None,):
            pass
    rep.check(not probs, 'C16.R1', 'sopclass:qr_find_scp:final-response', f.loc(), 'exactly one final non-pending response',
              '; '.join(sorted(set(probs))))

    # ---------------------------------------------------------------- R2
    f = repo.func('sopclass', 'qr_find_scu')
    rep.analysed(f)
    a = ServiceAnalysis(repo, f)
    wl = [l for l in a.loops() if isinstance(l, ast.While)]
    if not wl:
        raise AnalysisError('%s: no receive loop in qr_find_scu' % f.loc())
    from ..sym import iteration_paths
    ipaths, o = iteration_paths(a.client, wl[0])
    probs = []
    n = 0
    for s, kind in ipaths:
        n += 1
        rc = [e for e in s.trail if e.kind == 'receive']
        ys = [e for e in s.trail if e.kind == 'yield']
        if len(rc) != 1 or len(ys) != 1:
            probs.append('%d receive / %d yield in one iteration' % (len(rc), len(ys)))
            continue
        if len(ys[0].args) != 2:
            probs.append('yields %s' % (ys[0].args,))
            continue
        dsv, stv = ys[0].args
        sf = dict((f_, v) for t, f_, v in s.heap if t == stv) if is_token(stv) else {}
        if not (is_token(stv) and token_class(stv) == 'Status' and sf.get('@value') == 'asce.receive()[0].status'
                and sf.get('@command') == 'dimsemessages.CFindRSPMessage'):
            probs.append('yielded status is %s %s, not Status(response.status, C-FIND-RSP)' % (stv, sf))
        has_ds = '+asce.receive()[0].data_set' in s.conds
        if has_ds and dsv != 'dsutils.decode(asce.receive()[0].data_set, ctx.supported_ts.is_implicit_VR, ctx.supported_ts.is_little_endian)':
            probs.append('yielded data set is %s' % dsv)
        if not has_ds and dsv != 'None':
            probs.append('yields %s when the response has no data set' % dsv)
        from ..status_model import allowed_types
        types = allowed_types(s.conds, stv, repo) if is_token(stv) else None
        if types is None:
            probs.append('the test that decides whether to go on is not a decidable condition on the status [%s]' % ' '.join(s.conds))
        elif kind == 'stop' and 'Pending' in types:
            probs.append('iteration ends although the status may be pending [%s]' % ' '.join(s.conds))
        elif kind == 'next' and types != {'Pending'}:
            probs.append('iteration continues although the status is not pending (%s) [%s]'
                         % ('/'.join(sorted(types)) or 'no type', ' '.join(s.conds)))
    sends = [(e, s) for e, s in a.log if e.kind == 'send']
    if len({e.line for e, s in sends}) != 1:
        probs.append('%d request send sites' % len({e.line for e, s in sends}))
    else:
        fl = sends[0][0].fields(sends[0][0].args[0])
        if fl.get('data_set') != 'dsutils.encode(ds, ctx.supported_ts.is_implicit_VR, ctx.supported_ts.is_little_endian)':
            probs.append('query data set sent is %s' % fl.get('data_set'))
    rep.check(not probs, 'C16.R2', 'sopclass:qr_find_scu:yield-until-final', f.loc(wl[0]),
              'one receive and one yield per iteration; stops iff not pending (%d paths)' % n, '; '.join(sorted(set(probs))))

    # ---------------------------------------------------------------- R9: a cancel is not sent for a query that is over
    rep.rule('C16.R10', 'every response the provider queues reaches the wire: the upper-layer provider overwrites no request primitive it '
             'has taken off the outgoing queue and parked (same analysis as C05.G10) -- the C-FIND provider queues all its responses at '
             'once', 1)
    from ..fsm_model import FsmModel as _FM
    from ..provider_model import ProviderModel as _PM, parked_primitive_problems as _ppp
    _p10, _n10 = _ppp(repo, _PM(repo, _FM(repo)))
    rep.check(not _p10, 'C16.R10', 'dulprovider:DULServiceProvider:parked-primitives', repo.module('dulprovider').relpath,
              '%d store(s) of a queued primitive into an attribute, each into an empty one' % _n10, '; '.join(_p10))
    rep.rule('C16.R9', 'when the user stops iterating, the query is cancelled / abandoned only if its final response has not been '
             'received: every cancel sent from a GeneratorExit path is under a test that the status received last is pending (a flag '
             'set after the yield describes the response before the last)', 1)
    from ..svc_model import svc_event as _sev, svc_raises as _srs
    p9 = []
    n9 = 0
    for fq in ('qr_find_scu', 'modality_work_list_scu'):
        f9 = repo.func('sopclass', fq)

        def ev9(call, callee, client, state):
            last = callee.rsplit('.', 1)[-1]
            if last in ('abandon', 'cancel') or 'CCancelRQ' in callee:
                return 'cancel'
            return _sev(call, callee, client, state)
        c9 = SymClient(repo, f9, event_of=ev9, hierarchy=exc_hierarchy(repo), raises_of=_srs, inline=lambda fi_: False)
        c9.run(empty_state())
        for e9, s9 in c9.log:
            if e9.kind != 'cancel' or not any(cn.startswith('exc:GeneratorExit') for cn in e9.conds):
                continue
            n9 += 1
            if not any(cn.startswith('+') and cn.endswith('.is_pending') or cn.startswith('-not ') and cn.endswith('.is_pending') for cn in e9.conds):
                p9.append('%s line %d: %s(..) is reached when the generator is closed on a path that does not establish that the last '
                          'status was pending: a consumer that leaves the loop on the final response makes the service cancel a query '
                          'that is already over' % (fq, e9.line, e9.callee.rsplit('.', 1)[-1]))
    rep.check(not p9, 'C16.R9', 'sopclass:qr_find_scu:cancel-on-close', repo.func('sopclass', 'qr_find_scu').loc(),
              '%d cancel site(s) on close paths, each under "last status pending"' % n9, '; '.join(sorted(set(p9))))

    # ---------------------------------------------------------------- R3
    f = repo.func('sopclass', 'modality_work_list_scp')
    rep.analysed(f)
    calls = [n_ for n_ in ast.walk(f.node) if isinstance(n_, ast.Call) and norm(n_.func) == 'qr_find_scp']
    ok = len(calls) == 1 and [norm(x) for x in calls[0].args] == f.params
    rep.check(ok, 'C16.R3', 'sopclass:modality_work_list_scp:delegation', f.loc(), 'delegates to qr_find_scp with its own arguments',
              'does not delegate to qr_find_scp(%s)' % ', '.join(f.params))
    for mod, qual, callee_pat in (('sopclass', 'modality_work_list_scu', 'qr_find_scu'), ('__init__', 'c_find', None)):
        f = repo.func(mod, qual)
        rep.analysed(f)
        probs = []
        # by provenance: whatever the wrapper iterates is yielded pair by pair, unchanged, and what it iterates is the
        # find service applied to its own arguments
        from ..sym import SymClient as _SC, empty_state as _es, loop_body_outcomes as _lbo
        wc = _SC(repo, f, event_of=lambda *a_: None, hierarchy=exc_hierarchy(repo))
        wc.run(_es())
        wloops = [(cl_, nd_, st_) for cl_, nd_, st_ in wc.loops if isinstance(nd_, ast.For)]
        # handing back the service's own generator is the most direct way of forwarding every pair
        rets_ = [n_ for n_ in ast.walk(f.node) if isinstance(n_, ast.Return) and n_.value is not None]
        if callee_pat and not wloops and len(rets_) == 1 and norm(rets_[0].value) == '%s(%s)' % (callee_pat, ', '.join(f.params)) \
                and not any(isinstance(n_, (ast.Yield, ast.YieldFrom)) for n_ in ast.walk(f.node)):
            pass
        elif len({id(nd_) for _c, nd_, _s in wloops}) != 1:
            probs.append('%d loops' % len({id(nd_) for _c, nd_, _s in wloops}))
        else:
            _cl, lp, entry = wloops[0]
            it = wc.term(lp.iter, entry)
            o_ = _lbo(wc, lp)
            outs_ = list(o_.fall) + list(o_.cont)
            if o_.brk or o_.ret or not outs_:
                probs.append('the forwarding loop can be left early')
            for s_ in outs_:
                ys = [e_ for e_ in s_.trail if e_.kind == 'yield']
                if len(ys) != 1:
                    probs.append('%d yields per received pair' % len(ys))
                elif tuple(ys[0].args) not in (('ITEM(%s)[0]' % it, 'ITEM(%s)[1]' % it), ('ITEM(%s)' % it,)):
                    probs.append('yields %s for a received pair: pairs are not forwarded unchanged' % (ys[0].args,))
            if callee_pat:
                if it != '%s(%s)' % (callee_pat, ', '.join(f.params)):
                    probs.append('does not iterate %s(%s)' % (callee_pat, ', '.join(f.params)))
            else:
                rae, _laet, dsp, rootp = f.params[0], f.params[1], f.params[2], f.params[3]
                if '.add_scu(sopclass.qr_find_scu)' not in it or ('.request_association(%s)' % rae) not in it \
                        or ('.get_scu(%s)(' % rootp) not in it:
                    probs.append('c_find does not use the qr_find_scu service of the requested root')
                if not it.rsplit('.get_scu(%s)(' % rootp, 1)[-1].startswith(dsp + ','):
                    probs.append('c_find does not pass the query data set')
        rep.check(not probs, 'C16.R3', '%s:%s:forwarding' % (mod, qual), f.loc(), 'forwards every pair unchanged, in order', '; '.join(probs))

    # ---------------------------------------------------------------- R4
    check_ownership(repo, rep)
