"""C07 -- DIMSE reassembly is exact under any PDV grouping; completion detected exactly.

Decided: flag agreement with the encoder, control-byte strip, completion predicate (finite
typestate evaluation of DIMSEDecoder.process over all abstract cases), delivery only on
completion, command-field dispatch table, file-backed reception wiring.
Not decided: exactness as a behaviour over concrete PDV groupings; readability of the file
by pydicom."""
from __future__ import annotations

import ast
import struct as _struct
from dataclasses import dataclass
from typing import Dict, FrozenSet, List, Optional, Tuple

from ..flow import Client, Flow, attr_chain, calls_in
from ..fsm_model import FsmModel, exc_hierarchy
from ..srcmodel import AnalysisError, ClassRef, body_without_docstring, norm
from ..sym import SymClient, empty_state
from .c06 import CMD_FLAGS, DATA_FLAGS

U = 'U'  # unknown
FRAG = ('$FRAG',)   # (part of) the value of the PDV being processed


class BoolClient(Client):
    """Abstract interpretation of the per-PDV body of DIMSEDecoder.process over booleans.

    State: frozenset of (name, value) for the tracked decoder flags and every local; value is
    True / False / an int (marker) / U.  The abstract input ``$no_ds`` stands for "the command set says
    there is no data set": it is the value of any comparison of something with 0101H
    (CommandDataSetType, PS3.7 6.3.1), whichever local that comparison is bound to, if any.
    Everything else (appends, joins, decode, callbacks) has no influence on the flags."""
    NO_DATASET = 0x0101

    def __init__(self, tracked, repo=None, cls=None, depth=0):
        self.tracked = tracked
        self.repo, self.cls, self.depth = repo, cls, depth

    # ---- interprocedural: helper methods of the decoder (also reached through a class-level dispatch dict keyed by the
    # marker) are entered with the current flags; their constant return value decides the caller's branch
    def class_dict(self, name):
        """{constant key: method name} of a class-level dict whose values are functions of the class body"""
        if self.cls is None:
            return None
        hit = self.cls.find_attr(name)
        if hit is None or not isinstance(hit[1], ast.Dict):
            return None
        out = {}
        for k, v in zip(hit[1].keys, hit[1].values):
            kk = self.repo.try_fold(k, hit[0].module, hit[0]) if k is not None else None
            if kk is None or not isinstance(v, ast.Name) or hit[0].find_method(v.id) is None:
                return None
            out[kk] = v.id
        return out

    def callee_of(self, call, state):
        """(method FuncInfo, argument expressions after self) for a call the analysis can enter, else None"""
        if self.cls is None or self.depth > 4 or not isinstance(call, ast.Call):
            return None
        fn = call.func
        ch = attr_chain(fn)
        if ch and len(ch) == 2 and ch[0] == 'self':
            m = self.cls.find_method(ch[1])
            if m is not None and m.kind in ('method', 'staticmethod') and not any(isinstance(n, (ast.Yield, ast.YieldFrom)) for n in ast.walk(m.node)) \
                    and self.repo.is_helper(m):
                return m, list(call.args)
        if isinstance(fn, ast.Name):
            v = self.get(state, fn.id)
            if isinstance(v, tuple) and len(v) == 2 and v[0] == '$FUNC':
                m = self.cls.find_method(v[1])
                if m is not None and call.args and isinstance(call.args[0], ast.Name) and call.args[0].id == 'self':
                    return m, list(call.args[1:])
        return None

    def enter(self, m, args, state):
        """-> [(state after the call, return value)]"""
        params = m.params[1:] if m.kind != 'staticmethod' else m.params
        inner = state
        saved = {}
        for p_, a_ in zip(params, args):
            saved[p_] = self.get(state, p_)
            inner = self.put(inner, p_, self.value(a_, state))
        sub = type(self)(self.tracked | set(params), self.repo, self.cls, self.depth + 1)
        o = Flow(sub).run(body_without_docstring(m.node), [self.put(inner, '$ret', None)])
        outs = []
        for s2 in list(o.fall):
            outs.append((s2, None))
        for s2, _rid in o.ret:
            outs.append((s2, self.get(s2, '$ret')))
        res = []
        for s2, rv in outs:
            # the callee's parameters and locals are gone; flags (self.*) and the caller's locals stay
            keep = [(n, v) for n, v in s2 if n.startswith('self.') or (n.startswith('$') and n != '$ret')]
            caller_locals = [(n, v) for n, v in state if not n.startswith('self.') and not (n.startswith('$') and n != '$ret')]
            res.append((frozenset(keep + caller_locals), rv))
        if o.exc:
            self._pending_exc = getattr(self, '_pending_exc', set()) | {(state, e_) for _s, e_ in o.exc}
        return res

    def on_return(self, st, state):
        v = self.value(st.value, state) if st.value is not None else None
        if isinstance(st.value, ast.Call):
            hit = self.callee_of(st.value, state)
            if hit is not None:
                return [self.put(s2, '$ret', rv) for s2, rv in self.enter(hit[0], hit[1], state)]
        return [self.put(state, '$ret', v)]

    def nods_polarity(self, e):
        """True for ``x == 0101H``, False for ``x != 0101H``, None for anything else."""
        if isinstance(e, ast.Compare) and len(e.ops) == 1 and isinstance(e.ops[0], (ast.Eq, ast.NotEq)):
            for side in (e.left, e.comparators[0]):
                if isinstance(side, ast.Constant) and side.value == self.NO_DATASET and not isinstance(side.value, bool):
                    return isinstance(e.ops[0], ast.Eq)
        return None

    @staticmethod
    def get(state, name):
        for n, v in state:
            if n == name:
                return v
        return U

    @staticmethod
    def put(state, name, val):
        return frozenset([(n, v) for n, v in state if n != name] + [(name, val)])

    def name_of(self, e) -> Optional[str]:
        ch = attr_chain(e)
        if ch is None:
            return None
        if len(ch) == 1:
            return ch[0]
        if ch[0] == 'self' and len(ch) == 2:
            return 'self.' + ch[1]
        return None

    @staticmethod
    def is_marker_expr(e) -> bool:
        """does the expression read the message control header -- byte 0 of some ``<x>.data_value``?
        ``six.indexbytes(dv, 0)``, ``dv[0]``, ``ord(dv[:1])``, ``bytearray(dv)[0]``, ``struct.unpack('B', dv[:1])[0]``"""
        def dv(x):
            return isinstance(x, ast.Attribute) and x.attr == 'data_value'

        def first(x):      # dv[:1] / dv[0:1]
            return isinstance(x, ast.Subscript) and dv(x.value) and isinstance(x.slice, ast.Slice) and x.slice.step is None \
                and (x.slice.lower is None or (isinstance(x.slice.lower, ast.Constant) and x.slice.lower.value == 0)) \
                and isinstance(x.slice.upper, ast.Constant) and x.slice.upper.value == 1

        def zero(x):
            return isinstance(x, ast.Constant) and x.value == 0 and not isinstance(x.value, bool)
        if isinstance(e, ast.Call):
            fn = norm(e.func)
            if fn in ('six.indexbytes', 'indexbytes') and len(e.args) == 2 and dv(e.args[0]) and zero(e.args[1]):
                return True
            if fn == 'ord' and len(e.args) == 1 and first(e.args[0]):
                return True
        if isinstance(e, ast.Subscript) and zero(e.slice):
            v = e.value
            if dv(v):
                return True
            if isinstance(v, ast.Call) and norm(v.func) in ('bytearray', 'memoryview', 'list', 'tuple') and len(v.args) == 1 \
                    and (dv(v.args[0]) or first(v.args[0])):
                return True
            if isinstance(v, ast.Call) and norm(v.func).endswith('unpack') and v.args and first(v.args[-1]):
                fmt = v.args[0].value if len(v.args) == 2 and isinstance(v.args[0], ast.Constant) else None
                if fmt is None or str(fmt).lstrip('<>!=@') == 'B':
                    return True
        return False

    def item_length_expr(self):
        """``item_length`` of pdu.PresentationDataValueItem as an expression over ``<item>.data_value``, when it is a property
        with a single return (the pinned tree: ``len(self.data_value) + 1``); None otherwise"""
        if not hasattr(self, '_item_length_expr'):
            out = None
            try:
                pc = self.repo.cls('pdu', 'PresentationDataValueItem')
                f = pc.find_method('item_length')
                body = body_without_docstring(f.node) if f is not None and f.kind == 'property' else []
                if len(body) == 1 and isinstance(body[0], ast.Return) and body[0].value is not None:
                    out = body[0].value
            except Exception:
                out = None
            self._item_length_expr = out
        return self._item_length_expr

    def fold(self, e, state):
        """('ok', value) | ('raise', exception name) | ('unknown', None): the expression folded over what the state knows
        (locals / flags with constant values, the marker, module and class constants) -- nothing else is evaluated"""
        import copy
        from ..arith import CannotEvaluate, eval_value
        env = {}
        me = self

        class T(ast.NodeTransformer):
            def generic_visit(self_, n):
                if isinstance(n, ast.expr) and me.is_marker_expr(n):
                    return ast.Name(id='__marker__', ctx=ast.Load())
                # the size of the PDV value (message control header + fragment), the abstract input ``$dvlen``
                if isinstance(n, ast.Call) and isinstance(n.func, ast.Name) and n.func.id == 'len' and len(n.args) == 1 \
                        and isinstance(n.args[0], ast.Attribute) and n.args[0].attr == 'data_value':
                    return ast.Name(id='__dvlen__', ctx=ast.Load())
                if isinstance(n, ast.expr) and me.nods_polarity(n) is not None:
                    return ast.Name(id='__no_ds_%s__' % ('eq' if me.nods_polarity(n) else 'ne'), ctx=ast.Load())
                return super().generic_visit(n)

            def visit_Attribute(self_, n):
                if me.is_marker_expr(n):
                    return ast.Name(id='__marker__', ctx=ast.Load())
                if n.attr == 'item_length' and me.item_length_expr() is not None and not (isinstance(n.value, ast.Name) and n.value.id == 'self'):
                    # the property of the PDV item class, written out over the value's size
                    return self_.visit(copy.deepcopy(me.item_length_expr()))
                nm = me.name_of(n)
                if nm is not None:
                    v = me.get(state, nm)
                    if v is not U and not (isinstance(v, tuple) and v[:1] in (('$FUNC',), ('$FRAG',))):
                        env[ast.unparse(n)] = v
                        return n
                if me.repo is not None and me.cls is not None:
                    v = me.repo.try_fold(n, me.cls.module, me.cls)
                    if isinstance(v, (int, bool, str, bytes, tuple, frozenset, dict, list)):
                        env[ast.unparse(n)] = v
                        return n
                return self_.generic_visit(n)

            def visit_Name(self_, n):
                v = me.get(state, n.id)
                if v is not U and not (isinstance(v, tuple) and v[:1] in (('$FUNC',), ('$FRAG',))):
                    env[n.id] = v
                elif me.repo is not None and me.cls is not None and n.id not in ('True', 'False', 'None'):
                    v = me.repo.try_fold(n, me.cls.module, me.cls)
                    if isinstance(v, (int, bool, str, bytes, tuple, frozenset, dict, list)):
                        env[n.id] = v
                return n
        e2 = T().visit(copy.deepcopy(e))
        mk = self.get(state, '$marker')
        if mk is not U:
            env['__marker__'] = mk
        dl = self.get(state, '$dvlen')
        if dl is not U:
            env['__dvlen__'] = dl
        nd = self.get(state, '$no_ds')
        if nd is not U:
            env['__no_ds_eq__'] = bool(nd)
            env['__no_ds_ne__'] = not nd
        try:
            return 'ok', eval_value(e2, env)
        except CannotEvaluate:
            return 'unknown', None
        except (IndexError, KeyError, ValueError, TypeError, ZeroDivisionError, OverflowError) as exc:
            return 'raise', type(exc).__name__
        except Exception:
            return 'unknown', None

    def value(self, e, state):
        if isinstance(e, ast.Constant):
            return e.value
        if self.is_marker_expr(e):
            return self.get(state, '$marker')
        if isinstance(e, ast.Attribute) and e.attr == 'data_value':
            return FRAG
        if isinstance(e, ast.Subscript) and isinstance(e.slice, ast.Slice) and self.value(e.value, state) == FRAG:
            return FRAG
        if isinstance(e, ast.Call) and isinstance(e.func, ast.Name) and e.func.id in ('bytes', 'memoryview', 'bytearray') \
                and len(e.args) == 1 and self.value(e.args[0], state) == FRAG:
            return FRAG
        pol = self.nods_polarity(e)
        if pol is not None:
            v = self.get(state, '$no_ds')
            return U if v is U else (bool(v) if pol else not v)
        if isinstance(e, ast.UnaryOp) and isinstance(e.op, ast.Not):
            v = self.value(e.operand, state)
            return U if v is U else not v
        n = self.name_of(e)
        if n is not None:
            if n.startswith('self.') and n not in self.tracked and self.class_dict(n[5:]) is not None:
                return tuple(sorted(self.class_dict(n[5:]), key=str))     # membership tests see the keys
            v_ = self.get(state, n)
            if isinstance(v_, tuple) and len(v_) == 2 and v_[0] == '$ALIAS':
                return self.get(state, v_[1])
            return v_
        if isinstance(e, ast.Subscript) and attr_chain(e.value) and attr_chain(e.value)[0] == 'self' and len(attr_chain(e.value)) == 2:
            d = self.class_dict(attr_chain(e.value)[1])
            k = self.value(e.slice, state)
            if d is not None and k is not U and k in d:
                return ('$FUNC', d[k])
        if isinstance(e, (ast.Tuple, ast.List, ast.Set)):
            vals = [self.value(x, state) for x in e.elts]
            if U not in vals:
                return tuple(vals)
        how, v = self.fold(e, state)
        if how == 'ok' and (isinstance(v, (bool, int, str, bytes, tuple, frozenset)) or v is None):
            return v
        return U

    KEEP_METHODS = ('append', 'write', 'extend', 'insert', 'appendleft', 'writelines')

    def note_keeps(self, node, state):
        """remember which reassembly buffer this PDV's fragment went to: ``self.<buffer>.append / write`` of (part of) the PDV
        value sets the abstract flag ``$kept:<buffer>``"""
        for call in calls_in(node):
            fn = call.func
            if isinstance(fn, ast.Attribute) and fn.attr in self.KEEP_METHODS and call.args:
                ch = attr_chain(fn.value)
                if ch and len(ch) == 1:
                    # a local bound to one of the decoder's buffers (``sink = self.a or self.b``)
                    al = self.get(state, ch[0])
                    if isinstance(al, tuple) and len(al) == 2 and al[0] == '$ALIAS' and al[1].startswith('self.'):
                        ch = ('self', al[1][5:])
                if ch and ch[0] == 'self' and len(ch) == 2 and any(self.value(a, state) == FRAG for a in call.args):
                    state = self.put(state, '$kept:' + ch[1], True)
        if isinstance(node, ast.Assign) and len(node.targets) == 1 and isinstance(node.value, ast.Call):
            tch = attr_chain(node.targets[0])
            if tch and tch[0] == 'self' and len(tch) == 2 and any(self.value(a, state) == FRAG for a in node.value.args):
                from ..pitfalls import _stream_ctor_with_content
                fname = ast.unparse(node.value.func)
                if _stream_ctor_with_content(node.value, None):
                    # an in-memory stream created over the fragment (how it is written to afterwards is D9's business)
                    state = self.put(state, '$kept:' + tch[1], True)
                elif any(attr_chain(a) == tch for a in node.value.args) and fname.split('.')[-1] not in ('len', 'min', 'max', 'isinstance'):
                    # ``self.buf = collect(self.buf, fragment)``: the buffer and the fragment go in, the buffer comes back
                    state = self.put(state, '$kept:' + tch[1], True)
        return state

    def stmt(self, st, state):
        if isinstance(st, (ast.Expr, ast.Assign, ast.AugAssign, ast.AnnAssign)) and self.raises(st, state):
            return []       # the look-up raises for what the state knows: there is no normal successor
        state = self.note_keeps(st, state) if isinstance(st, (ast.Expr, ast.Assign)) else state
        if isinstance(st, ast.Assign) and len(st.targets) == 1 and isinstance(st.targets[0], (ast.Tuple, ast.List)) \
                and all(isinstance(t, ast.Name) for t in st.targets[0].elts):
            v = self.value(st.value, state)
            names = [t.id for t in st.targets[0].elts]
            if isinstance(v, tuple) and len(v) == len(names) and v[:1] != ('$FUNC',):
                for n_, x_ in zip(names, v):
                    state = self.put(state, n_, x_ if isinstance(x_, (bool, int, str, bytes, tuple)) or x_ is None else U)
                return [state]
            for n_ in names:
                state = self.put(state, n_, U)
            return [state]
        if isinstance(st, ast.Expr) and isinstance(st.value, ast.Call):
            hit = self.callee_of(st.value, state)
            if hit is not None:
                return [s2 for s2, _rv in self.enter(hit[0], hit[1], state)]
        if isinstance(st, ast.Assign) and len(st.targets) == 1 and isinstance(st.value, ast.Call) and self.callee_of(st.value, state):
            hit = self.callee_of(st.value, state)
            n0 = self.name_of(st.targets[0])
            outs = []
            for s2, rv in self.enter(hit[0], hit[1], state):
                outs.append(self.put(s2, n0, rv if isinstance(rv, bool) else U) if n0 else s2)
            return outs
        if isinstance(st, ast.Assign) and len(st.targets) == 1 and isinstance(st.targets[0], ast.Name) \
                and isinstance(st.value, ast.BoolOp) and isinstance(st.value.op, ast.Or) \
                and all(self.name_of(v_) is not None for v_ in st.value.values):
            # ``sink = self.a or self.b``: the local stands for the first operand that is true (the last one otherwise)
            tgt = st.targets[0].id
            names = [self.name_of(v_) for v_ in st.value.values]

            def pick(i, stt):
                if i == len(names) - 1:
                    return [self.put(stt, tgt, ('$ALIAS', names[i]))]
                v_ = self.get(stt, names[i])
                if v_ is U:
                    return [self.put(self.put(stt, names[i], True), tgt, ('$ALIAS', names[i]))] + pick(i + 1, self.put(stt, names[i], False))
                return [self.put(stt, tgt, ('$ALIAS', names[i]))] if v_ else pick(i + 1, stt)
            return pick(0, state)
        if isinstance(st, ast.Assign) and len(st.targets) == 1:
            n = self.name_of(st.targets[0])
            if n is not None and n.startswith('self.') and n not in self.tracked and self.get(state, n) is not U:
                return [self.put(state, n, U)]        # a refinement made by a test does not outlive a new binding
            if n is not None and (n in self.tracked or isinstance(st.targets[0], ast.Name)):
                v = self.value(st.value, state)
                if isinstance(v, (bool, int, tuple, frozenset)) and v is not U:
                    return [self.put(state, n, v)]     # (FRAG is a tuple)
                if n == 'self.receiving':
                    raise AnalysisError('receiving assigned a non-constant at line %d' % st.lineno)
                return [self.put(state, n, U)]
        return [state]

    def atom_branch(self, test, state):
        if self.raises(test, state):
            return [], []
        hit = self.callee_of(test, state)
        if hit is not None:
            ts, fs = [], []
            for s2, rv in self.enter(hit[0], hit[1], state):
                if rv is U or not isinstance(rv, (bool, type(None))):
                    ts.append(s2)
                    fs.append(s2)
                elif rv:
                    ts.append(s2)
                else:
                    fs.append(s2)
            return ts, fs
        r = self.decide(test, state)
        if r is True:
            return [state], []
        if r is False:
            return [], [state]
        # unknown: both; refine tracked plain names
        n = self.name_of(test)
        if n is not None and (n in self.tracked or isinstance(test, ast.Name)):
            return [self.put(state, n, True)], [self.put(state, n, False)]
        # a test this interpreter cannot follow (the result of a call it could not enter, a field of a table record bound to a
        # local): both branches are explored, but what is concluded from them is no longer exact -- the state says so
        base = test
        while isinstance(base, ast.UnaryOp) and isinstance(base.op, ast.Not):
            base = base.operand
        if any(isinstance(y, ast.Call) for y in ast.walk(base)) or (
                isinstance(base, ast.Attribute) and isinstance(base.value, ast.Name) and base.value.id != 'self'):
            state = self.put(state, '$imprecise', True)
        return [state], [state]

    def decide(self, test, state):
        if self.nods_polarity(test) is not None:
            v = self.value(test, state)
            return None if v is U else v
        n = self.name_of(test)
        if n is not None:
            v = self.get(state, n)
            if isinstance(v, tuple) and len(v) == 2 and v[0] == '$ALIAS':
                v = self.get(state, v[1])
            return bool(v) if v is not U else None
        if isinstance(test, ast.Compare) and len(test.ops) == 1:
            l = self.value(test.left, state)
            r = self.value(test.comparators[0], state)
            op = test.ops[0]
            if l is U or r is U:
                return None
            try:
                if isinstance(op, ast.In):
                    return l in r
                if isinstance(op, ast.NotIn):
                    return l not in r
                if isinstance(op, ast.Eq):
                    return l == r
                if isinstance(op, ast.NotEq):
                    return l != r
                if isinstance(op, ast.Is):
                    return l is r
                if isinstance(op, ast.IsNot):
                    return l is not r
            except TypeError:
                return None
        how, v = self.fold(test, state)
        if how == 'ok':
            try:
                return bool(v)
            except Exception:
                return None
        return None

    def raises(self, node, state):
        """a look-up in a constant table with a key the state knows (``TABLE[marker]``) raises what Python raises"""
        out = []
        for n in ast.walk(node):
            if isinstance(n, (ast.FunctionDef, ast.Lambda)):
                continue
            if isinstance(n, ast.Subscript) and isinstance(n.ctx, ast.Load) and not isinstance(n.slice, ast.Slice):
                how, exc = self.fold(n, state)
                if how == 'raise' and exc not in out:
                    out.append(exc)
        return out


def process_loop(f) -> Tuple[ast.For, str]:
    loop = None
    for n in ast.walk(f.node):
        if isinstance(n, ast.For) and 'data_value_items' in norm(n.iter):
            loop = n
            break
    if loop is None:
        raise AnalysisError('%s: no loop over the PDU\'s data_value_items in process()' % f.loc())
    if not isinstance(loop.target, ast.Name):
        raise AnalysisError('%s: loop target is not a simple name' % f.loc(loop))
    return loop, loop.target.id


def run(repo, rep):
    from ..pitfalls import memo_rule as _memo_rule
    _memo_rule(repo, rep, 'C07', 'C07.Z1')
    from ..pitfalls import log_rule as _log_rule
    _log_rule(repo, rep, 'C07', 'C07.Z2')
    from ..api_pitfalls import truth_rule as _truth_rule
    _truth_rule(repo, rep, 'C07', 'C07.Z4')
    from ..api_pitfalls import attribute_rule as _attribute_rule
    _attribute_rule(repo, rep, 'C07', 'C07.Z5')
    fsm = repo.module('fsm')
    dec = repo.cls('fsm', 'DIMSEDecoder')
    proc = dec.find_method('process')
    if proc is None:
        raise AnalysisError('DIMSEDecoder.process not found')
    rep.analysed(proc)
    hier = exc_hierarchy(repo)
    rep.trust('PS3.8 Annex E.2 (message control header), PS3.7 6.3.1 (CommandDataSetType 0101H = no data set), Table E.1-1')
    rep.trust('CPython list.append/bytes.join ordering; pydicom read_dataset')
    rep.assume('the flags command_set_received / data_set_received / receiving are influenced only by constant assignments '
               'and tests on the marker and the two inputs no_ds / use_file (anything else is ANALYSIS-ERROR)')
    rep.rule('C07.D1', 'the marker sets the decoder tests equal the flags the encoder emits (command 1/3, data 0/2); other '
             'values raise', 1)
    rep.rule('C07.D2', 'exactly the one control byte is stripped from every fragment; fragments are kept in arrival order and '
             'joined once', 1)
    rep.rule('C07.D3', 'receiving becomes false exactly when the command set is complete and (no data set follows or the '
             'data set is complete), for all abstract cases', 16)
    rep.rule('C07.D4', 'delivery to the user is dominated by "not receiving" and followed by a decoder reset', 2)
    rep.rule('C07.D5', 'MESSAGE_TYPE maps each of the 23 command field codes to the class with that command_field; the '
             'no-data-set flag is tag (0000,0800) compared with 0101H', 24)
    rep.rule('C07.D7', 'the decoder (reassembly state) is created only when none is in use and discarded only after the '
             'message was delivered or reassembly failed -- nothing else resets it between fragments', 1)
    rep.rule('C07.D6', 'file reception: callback gets the accepted context of the PDV\'s context id; stream rewound to the '
             'returned position; early fragments flushed in order; meta header written with the negotiated syntax', 3)

    rep.rule('C07.D8', 'every PDV of a P-DATA-TF is visited once and in order: the sequence the loop iterates is not changed '
             'inside the loop', 1)
    from ..pitfalls import mutated_while_iterated
    p8 = [x for hf in repo.helper_closure(proc) for x in mutated_while_iterated(hf)]
    rep.check(not p8, 'C07.D8', 'fsm:DIMSEDecoder.process:visits-every-pdv', proc.loc(), 'the PDV list is not mutated while iterated',
              '; '.join(p8))
    rep.rule('C07.D9', 'an in-memory stream that collects fragments is never written at offset 0 over content it was created with: '
             '``BytesIO(first)`` starts at 0, so it is moved to its end (``seek(0, 2)``) before the next write, or created empty', 1)
    from ..pitfalls import stream_overwrite_problems
    p9, n9 = stream_overwrite_problems(repo, list(dec.methods.values()) + [f_ for f_ in repo.all_functions() if f_.module.name == 'dsutils'])
    rep.check(not p9, 'C07.D9', 'fsm:DIMSEDecoder:collecting-streams', dec.loc(),
              '%d stream(s) created over content in the reassembler and dsutils; none is written to afterwards at offset 0' % n9, '; '.join(p9))
    try:
        loop, item = process_loop(proc)
    except AnalysisError:
        if p8:
            return     # already reported; the mutated loop need not be interpretable
        raise

    # ---------------------------------------------------------------- D3
    # the message control header is the abstract input ``$marker``: whatever expression reads byte 0 of the PDV value has
    # that value, whichever local (if any) it is bound to, whatever table it indexes
    tracked = {'self.command_set_received', 'self.data_set_received', 'self.receiving',
               'self._dataset_fp', 'self._encoded_data_set'}
    reads_marker = any(BoolClient.is_marker_expr(n) for hf in repo.helper_closure(proc) for n in ast.walk(hf.node))
    if not reads_marker:
        raise AnalysisError('%s: the message control header (first byte of the PDV value) is never read' % proc.loc(loop))
    n_cases = 0
    imprecise_cases = []
    for cmd_done in (False, True):
        for data_done in (False, True):
            for marker in (0, 1, 2, 3):
                for no_ds in (False, True):
                    if cmd_done and (no_ds or data_done):
                        continue  # already complete: the decoder is discarded (D4)
                    n_cases += 1
                    pre = frozenset([('self.command_set_received', cmd_done), ('self.data_set_received', data_done),
                                     ('self.receiving', True), ('$marker', marker), ('$no_ds', no_ds)])
                    cl = BoolClient(tracked, repo, dec)
                    o = Flow(cl).run(loop.body, [pre])
                    outs = list(o.fall) + list(o.brk) + list(o.cont) + [s for s, _ in o.ret]
                    # spec
                    cmd_after = cmd_done or marker == CMD_FLAGS[1]
                    data_after = data_done or marker == DATA_FLAGS[1]
                    # no_ds is known only once the command set is complete
                    want_complete = cmd_after and (no_ds or data_after)
                    key = 'fsm:DIMSEDecoder.process:completion[cmd=%d,data=%d,marker=%d,no_ds=%d]' % (cmd_done, data_done, marker, no_ds)
                    probs = []
                    if not outs and not o.exc:
                        probs.append('no outcome')
                    if not outs and o.exc:
                        probs.append('a PDV with message control header %d raises %s' % (marker, sorted({e_ for _s, e_ in o.exc})))
                    if outs and any(BoolClient.get(s, '$imprecise') is True for s in outs):
                        imprecise_cases.append(key)
                        continue
                    for s in outs:
                        got = BoolClient.get(s, 'self.receiving')
                        if got is U:
                            probs.append('receiving is not decided on this path')
                        elif (not got) != want_complete:
                            probs.append('after this PDV the decoder reports %s, but the message is %s'
                                         % ('complete' if not got else 'incomplete', 'complete' if want_complete else 'incomplete'))
                        if BoolClient.get(s, 'self.command_set_received') is not U and \
                                bool(BoolClient.get(s, 'self.command_set_received')) != cmd_after:
                            probs.append('command_set_received is %s, expected %s' % (BoolClient.get(s, 'self.command_set_received'), cmd_after))
                        if BoolClient.get(s, 'self.data_set_received') is not U and \
                                bool(BoolClient.get(s, 'self.data_set_received')) != data_after:
                            probs.append('data_set_received is %s, expected %s' % (BoolClient.get(s, 'self.data_set_received'), data_after))
                    rep.check(not probs, 'C07.D3', key, proc.loc(loop), 'completion as specified', '; '.join(sorted(set(probs))))
    rep.notes['completion_cases'] = n_cases
    if imprecise_cases:
        rep.undecided('C07.D3', '%s: which branch a PDV takes depends on calls / table records the completion analysis cannot follow '
                      '(%d of %d cases, e.g. %s): completion is not decided for this shape of process()'
                      % (proc.loc(loop), len(imprecise_cases), n_cases, imprecise_cases[0].rsplit(':', 1)[-1]))

    # ---------------------------------------------------------------- D1
    # which reassembly buffer a fragment goes to, per value of the control header: evaluated, not read off the tests
    p1 = []
    cmd_buf = None
    # the buffer whose joined content is decoded as the command set -- by provenance, so that it may pass through locals
    cb = SymClient(repo, proc, event_of=lambda call, callee, *_: 'dsdecode' if callee == 'dsutils.decode' or
                   callee.rsplit('.', 1)[-1] == 'read_dataset' else None,
                   hierarchy=hier, inline=repo.is_helper)
    cb.run(empty_state())
    for e_, _s in cb.log:
        if e_.kind == 'dsdecode' and e_.args:
            try:
                a0 = ast.parse(e_.args[0], mode='eval').body
            except SyntaxError:
                continue
            for x in ast.walk(a0):
                ch = attr_chain(x) if isinstance(x, ast.Attribute) else None
                if ch and len(ch) == 2 and ch[0] == 'self':
                    cmd_buf = ch[1]
    if cmd_buf is None:
        raise AnalysisError('%s: the buffer the command set is decoded from was not found' % proc.loc())
    data_bufs = set()       # where data fragments are kept in memory (whatever the attribute is called, list or stream)
    for marker in (0, 1, 2, 3):
        pre = frozenset([('self.command_set_received', False), ('self.data_set_received', False), ('self.receiving', True),
                         ('$marker', marker), ('$no_ds', False)])
        o = Flow(BoolClient(tracked, repo, dec)).run(loop.body, [pre])
        outs = list(o.fall) + list(o.brk) + list(o.cont) + [s_ for s_, _ in o.ret]
        if not outs:
            p1.append('a PDV with message control header %d is not accepted' % marker)
        for s_ in outs:
            kept = sorted(n_[6:] for n_, v_ in s_ if n_.startswith('$kept:') and v_ is True)
            if marker in CMD_FLAGS and kept != [cmd_buf]:
                p1.append('a command fragment (header %d) is kept in %s, not in the command buffer %s' % (marker, kept or 'nothing', cmd_buf))
            if marker in DATA_FLAGS and (not kept or cmd_buf in kept):
                p1.append('a data set fragment (header %d) is kept in %s' % (marker, kept or 'nothing'))
            if marker in DATA_FLAGS:
                data_bufs.update(k_ for k_ in kept if k_ not in (cmd_buf, '_dataset_fp'))
    # ... whatever the size of the fragment: PS3.8 Annex E sets no minimum, a PDV that carries the control header alone (an empty
    # last fragment) is well-formed, and so is a fragment of one byte
    for marker in (0, 1, 2, 3):
        for dvlen in (1, 2, 3, 4096):
            pre = frozenset([('self.command_set_received', False), ('self.data_set_received', False), ('self.receiving', True),
                             ('$marker', marker), ('$dvlen', dvlen)] + ([('$no_ds', False)] if marker != 3 else []))
            o = Flow(BoolClient(tracked, repo, dec)).run(loop.body, [pre])
            outs = list(o.fall) + list(o.brk) + list(o.cont) + [s_ for s_, _ in o.ret]
            if not outs and o.exc and marker != 3:
                p1.append('a PDV with message control header %d and a fragment of %d byte(s) is refused (%s): PS3.8 Annex E sets no '
                          'minimum fragment size' % (marker, dvlen - 1, ', '.join(sorted({str(e_) for _s, e_ in o.exc}))[:80]))
    # a header outside 0..3 must raise
    for marker in (4, 5, 7, 8, 16, 128, 255):
        pre = frozenset([('self.command_set_received', False), ('self.data_set_received', False), ('self.receiving', True),
                         ('$marker', marker), ('$no_ds', False)])
        o = Flow(BoolClient(tracked, repo, dec)).run(loop.body, [pre])
        if o.fall or o.cont or o.brk or o.ret or not o.exc:
            p1.append('a message control header outside {0,1,2,3} (%d) does not raise' % marker)
    rep.check(not p1, 'C07.D1', 'fsm:DIMSEDecoder.process:marker-sets', proc.loc(loop),
              'headers 1,3 -> command buffer, 0,2 -> data buffers, anything else raises', '; '.join(sorted(set(p1))))

    # ---------------------------------------------------------------- D2
    p2 = []
    n_strip = 0
    # provenance: every fragment kept (list append / file write) is <this PDV>.data_value[1:], whatever locals
    # the value passes through

    def ev2(call, callee, client, state):
        last = callee.rsplit('.', 1)[-1]
        if last in ('append', 'write', 'insert', 'appendleft', 'extend'):
            return 'keep:' + last
        return None
    c2 = SymClient(repo, proc, event_of=ev2, hierarchy=hier)
    c2.run(empty_state())
    item_term = 'ITEM(%s.data_value_items)' % (proc.params[1] if len(proc.params) > 1 else 'p_data')
    want_term = '%s.data_value[1:]' % item_term
    seen_sites = set()
    for e_, _s in c2.log:
        if not e_.kind.startswith('keep:') or (e_.line, e_.callee) in seen_sites:
            continue
        seen_sites.add((e_.line, e_.callee))
        if not any('data_value' in a_ for a_ in e_.args):
            continue
        n_strip += 1
        if e_.kind in ('keep:insert', 'keep:appendleft'):
            p2.append('fragments are not kept in arrival order (%s)' % e_.callee)
            continue
        if e_.args[0] != want_term:
            p2.append('%s keeps %s, not the value without its one control byte' % (e_.callee, e_.args[0]))
        if e_.kind == 'keep:append' and not e_.callee.startswith('self.'):
            p2.append('fragments appended to a non-decoder list %s' % e_.callee.rsplit('.', 1)[0])
    if n_strip < 2:
        p2.append('only %d fragment-store sites found' % n_strip)
    joins = [n for n in ast.walk(proc.node) if isinstance(n, ast.Call) and isinstance(n.func, ast.Attribute) and n.func.attr == 'join']
    for j in joins:
        if not (isinstance(j.func.value, ast.Constant) and j.func.value.value == b''):
            p2.append('fragments joined with separator %s' % norm(j.func.value))
    rep.check(not p2, 'C07.D2', 'fsm:DIMSEDecoder.process:strip-and-order', proc.loc(loop),
              '%d store sites strip [1:], append order, joined with b\'\'' % n_strip, '; '.join(sorted(set(p2))))

    # ---------------------------------------------------------------- D4
    model = FsmModel(repo)
    for meth in ('dt_2', 'ar_6'):
        f = model.sm.find_method(meth)
        rep.analysed(f)

        def ev(call, callee, client, state):
            if callee.endswith('to_service_user.put'):
                return 'put'
            if callee.endswith('.process'):
                return 'process'
            return None
        # an action may delegate to another action (``return self.dt_2()``): follow calls of the machine's own methods
        c = SymClient(repo, f, event_of=ev, hierarchy=hier, store_event=lambda t: t == 'self.dimse_decoder',
                      inline=lambda fi: repo.is_helper(fi) or (fi.cls is not None and fi.cls.key == model.sm.key and fi.name != meth))
        fin = c.final_states(c.run(empty_state()))
        p4 = []
        n_put = 0
        for s, how in fin:
            tr = list(s.trail)
            for i, e in enumerate(tr):
                if e.kind == 'put' and e.args and e.args[0].startswith('('):
                    n_put += 1
                    import re as _re
                    m = _re.match(r'^\((.+)\.msg, (.+)\.pc_id\)$', e.args[0])
                    dec_term = m.group(1) if m and m.group(1) == m.group(2) else None
                    bases = {'self.dimse_decoder'} | ({dec_term} if dec_term else set())
                    if not any(cn in ['-%s.receiving' % b for b in bases] + ['+not %s.receiving' % b for b in bases] +
                               ['+%s.receiving is False' % b for b in bases] + ['+%s.receiving == False' % b for b in bases]
                               for cn in e.conds):
                        p4.append('message handed to the user without testing that reassembly is complete')
                    if not any(x.kind == 'process' for x in tr[:i]):
                        p4.append('message handed to the user before the PDU was processed')
                    if not any(x.kind == 'store' and x.args == ('None',) for x in tr[i + 1:]):
                        p4.append('decoder is not reset after delivery: the next message is appended to the old one')
                    if dec_term is None or not (dec_term == 'self.dimse_decoder' or dec_term.startswith('NEW_DIMSEDecoder')):
                        p4.append('delivered tuple %s is not (decoder.msg, decoder.pc_id)' % e.args[0])
        if n_put == 0:
            p4.append('no delivery of a reassembled message found')
        rep.check(not p4, 'C07.D4', 'fsm:StateMachine.%s:delivery' % meth, f.loc(),
                  'delivery guarded by completion and followed by reset (%d paths)' % n_put, '; '.join(sorted(set(p4))))

    # ---------------------------------------------------------------- D7: who may discard the decoder
    p7 = []
    n_writes = 0
    for cls_ in repo.all_classes():
        for fn in list(cls_.methods.values()) + list(cls_.setters.values()):
            if not any(isinstance(n, (ast.Assign, ast.AugAssign, ast.Delete)) and 'dimse_decoder' in norm(n) for n in ast.walk(fn.node)):
                continue
            if repo.is_helper(fn) and any(h_[1] == fn.key for h_ in repo.normalized_helpers):
                continue          # judged where the helper is inlined, with the conditions of the calling path
            rep.analysed(fn)
            c7 = SymClient(repo, fn, event_of=lambda *a: None, hierarchy=hier,
                           store_event=lambda t: t.endswith('.dimse_decoder'))
            c7.run(empty_state())
            for e, s in c7.log:
                if e.kind != 'store':
                    continue
                n_writes += 1
                val = e.args[0]
                if fn.name == '__init__' and val == 'None':
                    continue
                if val.startswith('NEW_DIMSEDecoder'):
                    if not any(cn.endswith('.dimse_decoder is None') and cn.startswith('+') or
                               cn.endswith('.dimse_decoder') and cn.startswith('-') for cn in e.conds):
                        p7.append('%s creates a new decoder at line %d without testing that none is in use: fragments already '
                                  'received are lost' % (fn.qualname, e.line))
                    continue
                if val == 'None':
                    done = any(cn.endswith('.receiving') and cn.startswith('-') or cn.endswith('.receiving is False') and cn.startswith('+')
                               or cn.startswith('+not ') and cn.endswith('.receiving') for cn in e.conds)
                    failed = any(cn.startswith('exc:') for cn in e.conds)
                    # ... or the association is over: the machine is entering a state in which nothing of it can follow
                    from ..fsm_model import REASSEMBLY_STATES, entered_states
                    ent = entered_states(e.conds, repo)
                    over = ent is not None and not (ent & set(REASSEMBLY_STATES))
                    if ent is not None and not over:
                        p7.append('%s discards the decoder at line %d when the machine enters %s: in %s a message may still be '
                                  'under reassembly (PS3.8 Table 9-10, Evt10: DT-2 / AR-6)'
                                  % (fn.qualname, e.line, sorted(ent), sorted(ent & set(REASSEMBLY_STATES))))
                        continue
                    if not (done or failed or over):
                        p7.append('%s discards the decoder at line %d on a path where the message is neither complete nor '
                                  'failed [%s]: a message whose fragments span this point can never be reassembled'
                                  % (fn.qualname, e.line, ' '.join(e.conds) or 'unconditionally'))
                    continue
                p7.append('%s assigns %s to dimse_decoder at line %d' % (fn.qualname, val, e.line))
    if n_writes < 3:
        p7.append('only %d writes of dimse_decoder found' % n_writes)
    rep.check(not p7, 'C07.D7', 'fsm:StateMachine:decoder-lifetime', model.sm.loc(),
              'the reassembly state is created only when absent and discarded only after delivery or failure (%d writes)' % n_writes,
              '; '.join(sorted(set(p7))))

    # ---------------------------------------------------------------- D5
    # the class the decoder builds for each command field of PS3.7 Table E.1-1, by constant propagation through
    # _command_set_to_message and whatever tables / helpers it consults (peval.py): a command set whose (0000,0100)
    # element has that value must become an instance of the class with that command_field
    from ..oracles import ps3_7
    from ..peval import CannotEval, PEval, Raised, Record, _Row, UNKNOWN
    dm = repo.module('dimsemessages')
    base = repo.cls('dimsemessages', 'DIMSEMessage')
    c2m = dec.find_method('_command_set_to_message')
    if c2m is None:
        # the function may have been moved out of the class or renamed: it is whatever process() calls to get self.msg
        for hf in repo.helper_closure(proc):
            for n in ast.walk(hf.node):
                if isinstance(n, ast.Assign) and any(norm(t) == 'self.msg' for t in n.targets) and isinstance(n.value, ast.Call):
                    fn_ = n.value.func
                    if isinstance(fn_, ast.Attribute) and isinstance(fn_.value, ast.Name) and fn_.value.id in ('self', 'cls'):
                        c2m = dec.find_method(fn_.attr)
                    elif isinstance(fn_, ast.Name) and fn_.id in fsm.functions:
                        c2m = fsm.functions[fn_.id]
                    else:
                        try:
                            r_ = repo.resolve_expr(fn_, fsm, dec)
                            from ..srcmodel import FuncRef as _FR
                            if isinstance(r_, _FR):
                                c2m = repo.func(r_.module, r_.qualname)
                        except Exception:
                            pass
    if c2m is None:
        raise AnalysisError('DIMSEDecoder._command_set_to_message not found')
    rep.analysed(c2m)
    msg_classes = [c for c in dm.classes.values() if c.is_subclass_of(base) and 'command_field' in c.attrs and c.key != base.key]
    by_code = {}
    for c in msg_classes:
        cf = repo.try_fold(c.attrs['command_field'], c.module, c)
        if isinstance(cf, int):
            by_code.setdefault(cf, []).append(c.name)
    for cname, code in sorted(ps3_7.COMMAND_FIELD.items(), key=lambda kv: kv[1]):
        key = 'dimsemessages:MESSAGE_TYPE[0x%04X]' % code
        pe = PEval(repo)
        cs = {(0x0000, 0x0100): Record(value=code, VR='US', VM=1)}
        try:
            res = pe.call_function(c2m, [cs], {}, None)
        except Raised as r:
            rep.bad('C07.D5', key, c2m.loc(), 'a command set with command field %04XH (%s) is not turned into a message: '
                    'the decoder raises %s' % (code, cname, r.exc))
            continue
        except CannotEval as exc:
            raise AnalysisError('%s: message class selection cannot be determined: %s' % (c2m.loc(), exc))
        got = res.cls.name if isinstance(res, _Row) else None
        if got is None:
            raise AnalysisError('%s: message class selection for %04XH is not a constant class' % (c2m.loc(), code))
        c = dm.classes.get(got)
        cf = repo.try_fold(c.find_attr('command_field')[1], c.module, c) if c is not None and c.find_attr('command_field') else None
        rep.check(got == cname and cf == code, 'C07.D5', key, c.loc() if c else dm.relpath, '%s.command_field = %04XH' % (got, code),
                  'command field %04XH is dispatched to %s whose command_field is %s; PS3.7 Table E.1-1: %s'
                  % (code, got, '%04XH' % cf if isinstance(cf, int) else cf, cname))
    for c in msg_classes:
        cf = repo.try_fold(c.attrs['command_field'], c.module, c)
        if cf is not None and ps3_7.COMMAND_FIELD.get(c.name) != cf:
            rep.bad('C07.D5', 'dimsemessages:MESSAGE_TYPE:%s' % c.name, c.loc(),
                    '%s has command field %04XH, which PS3.7 Table E.1-1 does not assign to it' % (c.name, cf))
    w_ = repo.table_writers('dimsemessages', 'MESSAGE_TYPE')
    rep.check(not w_, 'C07.D5', 'dimsemessages:MESSAGE_TYPE:constant-after-import', dm.relpath,
              'no function re-binds or mutates the dispatch table', '; '.join(w_))
    # a code outside the table must not be turned into a message
    try:
        res = PEval(repo).call_function(c2m, [{(0x0000, 0x0100): Record(value=0x7777, VR='US', VM=1)}], {}, None)
        if isinstance(res, _Row):
            rep.bad('C07.D5', 'dimsemessages:MESSAGE_TYPE[unknown]', c2m.loc(), 'an undefined command field (7777H) is decoded as %s' % res.cls.name)
    except (Raised, CannotEval):
        pass
    # no_ds source
    p5 = []
    bc = BoolClient(set())
    proc_nodes = [n for hf in repo.helper_closure(proc) for n in ast.walk(hf.node)]
    cmps = [n for n in proc_nodes if isinstance(n, ast.Compare) and bc.nods_polarity(n) is not None]
    # any other comparison of the CommandDataSetType element is not the PS3.7 test
    for n in proc_nodes:
        if isinstance(n, ast.Compare) and n not in cmps:
            for sub in ast.walk(n):
                if isinstance(sub, ast.Subscript) and repo.try_fold(sub.slice, fsm, dec) == (0x0000, 0x0800):
                    p5.append('no-data-set flag computed as %s, PS3.7: (0000,0800) == 0101H' % norm(n))
    if len(cmps) != 1:
        p5.append('%d comparisons with 0101H (no data set) in process(), expected one' % len(cmps))
    for v in cmps:
        other = v.comparators[0] if isinstance(v.left, ast.Constant) else v.left
        tag = None
        for n in ast.walk(other):
            if isinstance(n, ast.Subscript):
                tag = repo.try_fold(n.slice, fsm, dec)
        if tag != (0x0000, 0x0800):
            p5.append('no-data-set flag computed as %s, PS3.7: (0000,0800) == 0101H' % norm(v))
    rep.check(not p5, 'C07.D5', 'fsm:DIMSEDecoder.process:command-elements', proc.loc(),
              'CommandField (0000,0100) selects the class; (0000,0800)==0101H means no data set', '; '.join(p5))

    # ---------------------------------------------------------------- D6
    def ev6(call, callee, client, state):
        last = callee.rsplit('.', 1)[-1]
        if last in ('get_file_cb', 'seek', 'writelines', 'write', 'close'):
            return last
        if last == 'append' and any(callee.endswith('%s.append' % b_) for b_ in data_bufs | {'_encoded_data_set'}):
            return 'keep'
        return None
    c = SymClient(repo, proc, event_of=ev6, hierarchy=hier)
    c.run(empty_state())
    p6 = []
    cbs = [(e, s) for e, s in c.log if e.kind == 'get_file_cb']
    if not cbs:
        p6.append('file callback never invoked')
    for e, s in cbs:
        if not e.args or e.args[0] != 'self.accepted_contexts[%s.context_id]' % ('ITEM(p_data.data_value_items)'):
            p6.append('callback receives context %s, not the accepted context of this PDV\'s context id' % (e.args[0] if e.args else None))
    seeks = [(e, s) for e, s in c.log if e.kind == 'seek']
    if not any(e.args and '[1]' in e.args[0] and 'get_file_cb' in e.args[0] for e, s in seeks):
        p6.append('the file is not rewound to the start position returned by the callback')
    # early fragments: everything kept in memory so far goes to the file -- the list written line by line, or its content as one
    # bytes object (joined, or the value of the in-memory stream it is collected in)
    mem = sorted(data_bufs | {'_encoded_data_set'})
    flushed = any(e.kind == 'writelines' and e.args in [('self.%s' % b_,) for b_ in mem] for e, s in c.log) or \
        any(e.kind == 'write' and e.args and e.args[0] in [f_ % b_ for b_ in mem for f_ in ("b''.join(self.%s)", 'self.%s.getvalue()')]
            and ('get_file_cb' in e.callee or e.callee == 'self._dataset_fp.write') for e, s in c.log)
    if not flushed:
        p6.append('data fragments received before the file exists are not flushed to it')
    # the file is opened inside the loop (on the last command fragment), so whether a data fragment goes to the
    # file or to memory must be decided at that fragment, not before the loop
    from ..sym import loop_body_outcomes
    entry_conds = set()
    for e_, s_ in c.log:
        if e_.kind == 'loop' and e_.line == loop.lineno:
            entry_conds |= set(s_.conds)
    lo = loop_body_outcomes(c, loop)
    for st_ in list(lo.fall) + list(lo.cont) + list(lo.brk):
        stores = [e_ for e_ in st_.trail if e_.kind in ('write', 'keep') and e_.args and 'data_value[1:]' in e_.args[0]
                  and not e_.callee.startswith('self.%s.' % cmd_buf)]
        if not stores:
            continue
        decided = [cn for cn in stores[0].conds if '_dataset_fp' in cn and cn not in entry_conds]
        if not decided:
            p6.append('where a data fragment is kept (file or memory) is not decided at that fragment: a decision taken before '
                      'the PDU\'s PDVs are processed is stale once the file is opened on the last command fragment of the same PDU')
    rep.check(not p6, 'C07.D6', 'fsm:DIMSEDecoder.process:file-reception', proc.loc(),
              'callback(context of PDV id, command set); early fragments flushed; rewound to returned start', '; '.join(sorted(set(p6))))
    ae = repo.cls('applicationentity', 'AEBase')
    gf = ae.find_method('get_file')
    wm = repo.func('applicationentity', 'write_meta')
    rep.analysed(gf)
    rep.analysed(wm)
    p6 = []
    # by provenance, through whatever helpers get_file hands the file to
    gc = SymClient(repo, gf, event_of=lambda call, callee, *_: 'wm' if callee == 'write_meta' else
                   'tell' if callee.endswith('.tell') else None, hierarchy=hier, inline=repo.is_helper)
    gfin = gc.final_states(gc.run(empty_state()))
    wms = [e_ for e_, _s in gc.log if e_.kind == 'wm']
    if not wms or any(len(e_.args) < 3 or e_.args[2] != '%s.supported_ts' % gf.params[1] or e_.args[1] != gf.params[2] for e_ in wms):
        p6.append('get_file does not write the meta header with (command_set, context.supported_ts)')
    tsp = wm.params[2]
    if not any(isinstance(n, ast.Assign) and norm(n.targets[0]).endswith('.TransferSyntaxUID') and norm(n.value) == tsp
               for n in ast.walk(wm.node)):
        p6.append('write_meta does not record the negotiated transfer syntax as TransferSyntaxUID')
    normal = [(s_, how_) for s_, how_ in gfin if not how_.startswith('raise')]

    def is_pair(t):
        try:
            e_ = ast.parse(t, mode='eval').body
        except SyntaxError:
            return False
        return isinstance(e_, ast.Tuple) and len(e_.elts) == 2
    if not normal or not all(s_.ret is not None and is_pair(s_.ret) for s_, _h in normal):
        p6.append('get_file does not return (file, start position)')
    rep.check(not p6, 'C07.D6', 'applicationentity:AEBase.get_file:meta-header', gf.loc(),
              'meta header written with the context\'s transfer syntax; returns (file, start)', '; '.join(p6))
    # the start position is taken before the preamble is written
    p6 = []
    order_ok = bool(normal)
    for s_, _h in normal:
        ks = [e_.kind for e_ in s_.trail if e_.kind in ('tell', 'wm')]
        if 'tell' not in ks or 'wm' not in ks or ks.index('tell') > ks.index('wm'):
            order_ok = False
    tell_line, wm_line = (0, 1) if order_ok else (1, 0)
    rep.check(tell_line < wm_line, 'C07.D6', 'applicationentity:AEBase.get_file:start-position', gf.loc(),
              'start position recorded before the preamble and meta header are written',
              'start position is not taken before write_meta(): the file handed to the application does not start at the preamble')
