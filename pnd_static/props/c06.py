"""C06 -- DIMSE fragmentation: size bound, fragment flags, byte-exact content.

Decided: arithmetic and ordering in chunks / fragment / fragment_file / DIMSEMessage.encode
and the limit handed to encode.  Not decided: byte-exactness of pydicom's encoding of the
command set."""
from __future__ import annotations

import ast
import struct as _struct
from typing import Dict, Optional, Tuple

from ..flow import attr_chain
from ..layout import Affine, LayoutExtractor
from ..srcmodel import AnalysisError, norm
from ..sym import SymClient, empty_state, is_token
from ..fsm_model import exc_hierarchy

# PS3.8 Annex E.2 message control header: bit0 = command, bit1 = last fragment
CMD_FLAGS = (1, 3)
DATA_FLAGS = (0, 2)


def aff_of_term(term: str) -> Optional[Affine]:
    try:
        e = ast.parse(term, mode='eval').body
    except SyntaxError:
        return None

    def go(e):
        if isinstance(e, ast.Constant) and isinstance(e.value, int) and not isinstance(e.value, bool):
            return Affine.c(e.value)
        if isinstance(e, ast.Name):
            return Affine.sym(('var', e.id))
        if isinstance(e, ast.BinOp) and isinstance(e.op, (ast.Add, ast.Sub)):
            a, b = go(e.left), go(e.right)
            if a is None or b is None:
                return None
            return a + b if isinstance(e.op, ast.Add) else a - b
        if isinstance(e, ast.Call) and isinstance(e.func, ast.Name) and e.func.id == 'len' and len(e.args) == 1:
            return Affine.sym(('len', ast.unparse(e.args[0])))
        if isinstance(e, ast.BoolOp) and isinstance(e.op, ast.Or) and isinstance(e.values[0], ast.Name):
            # ``limit or DEFAULT``: equals the limit whenever it is non-zero (the zero case is C10.X4)
            return Affine.sym(('var', e.values[0].id))
        if isinstance(e, ast.UnaryOp) and isinstance(e.op, ast.USub):
            a = go(e.operand)
            return a.scale(-1) if a is not None else None
        return None
    return go(e)


def overhead(repo) -> Tuple[int, int]:
    """(bytes a P-DATA-TF adds around one fragment inside its length field, size of the control header)
    derived from the codec layouts: pdu_length = total(PDV) = 4 + item_length = 5 + len(data_value)."""
    lx = LayoutExtractor(repo)
    pdv = lx.layout(lx.classes['PresentationDataValueItem'])
    pd = lx.layout(lx.classes['PDataTfPDU'])
    if pd.length_prop.get('pdu_length') != Affine.sym(('sum', 'data_value_items')):
        raise AnalysisError('PDataTfPDU.pdu_length is not the sum of its PDV items')
    t = pdv.total
    if t is None or set(t.terms) != {('len', 'data_value')} or t.terms[('len', 'data_value')] != 1:
        raise AnalysisError('PresentationDataValueItem.total_length() is not len(data_value) + const')
    return t.const, lx


def ev_kind(call, callee, client, state):
    last = callee.rsplit('.', 1)[-1]
    if callee in ('chunks', 'fragment', 'fragment_file'):
        return callee
    if last in ('read', 'seek', 'close') and not callee.startswith('self.'):
        return 'fp.' + last
    if callee.endswith('data_set.close'):
        return 'ds.close'
    if callee in ('dsutils.encode',):
        return 'dsencode'
    if callee == 'struct.pack':
        return 'pack'
    if last in ('PresentationDataValueItem', 'PDataTfPDU'):
        return last
    if last == 'set_length':
        return 'set_length'
    if last == 'encode' and len(call.args) == 2:
        return 'msg.encode'
    if callee.endswith('dul.send'):
        return 'dul.send'
    return None


def _replace_subtree(e: ast.AST, what: ast.AST, name: str) -> ast.AST:
    key = ast.dump(what)

    class T(ast.NodeTransformer):
        def generic_visit(self, n):
            if isinstance(n, ast.expr) and ast.dump(n) == key:
                return ast.Name(id=name, ctx=ast.Load())
            return super().generic_visit(n)
    import copy
    return T().visit(copy.deepcopy(e))


def _position_source(item):
    """``ITEM(<iterable>)`` of the loop that drives the chunking -> (position node, index node, first index, start, stop, step,
    count) for ``range(start, stop, step)`` (count None), ``islice(count(start, step), n)`` (stop None), or ``enumerate`` of
    one of these (position = element 1, index = element 0)"""
    it = item.args[0]
    idx_node = None
    idx_start = None
    pos_node = item
    if isinstance(it, ast.Call) and norm(it.func) == 'enumerate' and 1 <= len(it.args) <= 2:
        k = it.args[1] if len(it.args) == 2 else next((kw.value for kw in it.keywords if kw.arg == 'start'), ast.Constant(value=0))
        if not (isinstance(k, ast.Constant) and type(k.value) is int) or any(kw.arg != 'start' for kw in it.keywords):
            return None
        idx_start = k.value
        idx_node = ast.Subscript(value=item, slice=ast.Constant(value=0), ctx=ast.Load())
        pos_node = ast.Subscript(value=item, slice=ast.Constant(value=1), ctx=ast.Load())
        it = it.args[0]
    if isinstance(it, ast.Call) and norm(it.func) in ('range', 'six.moves.range', 'xrange') and not it.keywords and 1 <= len(it.args) <= 3:
        a = it.args
        if len(a) == 3:
            start, stop, step = a
        elif len(a) == 2:
            start, stop, step = a[0], a[1], ast.Constant(value=1)
        else:
            start, stop, step = ast.Constant(value=0), a[0], ast.Constant(value=1)
        return pos_node, idx_node, idx_start, start, stop, step, None
    if isinstance(it, ast.Call) and norm(it.func) in ('itertools.islice', 'islice') and len(it.args) == 2 and not it.keywords \
            and isinstance(it.args[0], ast.Call) and norm(it.args[0].func) in ('itertools.count', 'count') and not it.args[0].keywords \
            and len(it.args[0].args) <= 2:
        ca = it.args[0].args
        start = ca[0] if ca else ast.Constant(value=0)
        step = ca[1] if len(ca) == 2 else ast.Constant(value=1)
        return pos_node, idx_node, idx_start, start, None, step, it.args[1]
    return None


def _folded_tiling(item, ce, test, datap, f0, p2, p3, rep):
    """decide tiling and last-flag of a fragmenter whose (chunk, has-next) pairs are items of one sequence term, by folding
    that term on the boundary grid; returns the width term"""
    from ..arith import CannotEvaluate, eval_iter, eval_value
    src = item.args[0]
    # the width: the data is cut by slices data[X:X + W]
    w_node = None
    for n in ast.walk(src):
        if isinstance(n, ast.Subscript) and norm(n.value) == datap and isinstance(n.slice, ast.Slice) and n.slice.step is None \
                and n.slice.lower is not None and isinstance(n.slice.upper, ast.BinOp) and isinstance(n.slice.upper.op, ast.Add):
            if norm(n.slice.upper.left) == norm(n.slice.lower):
                w_node = n.slice.upper.right
            elif norm(n.slice.upper.right) == norm(n.slice.lower):
                w_node = n.slice.upper.left
    if w_node is None:
        raise AnalysisError('%s: no slice data[p:p + width] of the data in the sequence the fragments are taken from (%s)'
                            % (f0.loc(), norm(src)[:120]))
    canon = lambda e: _replace_subtree(_replace_subtree(e, item, '__item__'), w_node, '__w__') if not isinstance(w_node, ast.Constant) \
        else _replace_subtree(e, item, '__item__')
    src_c = _replace_subtree(src, w_node, '__w__') if not isinstance(w_node, ast.Constant) else src
    ce_c, test_c = canon(ce), canon(test)
    bad2 = bad3 = None
    try:
        for size_v in range(1, 7):
            if isinstance(w_node, ast.Constant) and w_node.value != size_v:
                continue
            for length_v in range(0, 4 * size_v + 2):
                data = bytes(bytearray((i * 7 + 1) % 251 for i in range(length_v)))
                env = {datap: data, '__w__': size_v}
                got = []
                for it in eval_iter(src_c, env, limit=64):
                    env2 = dict(env, __item__=it)
                    got.append((eval_value(ce_c, env2), bool(eval_value(test_c, env2))))
                want = [(data[i:i + size_v], i + size_v < length_v) for i in range(0, length_v, size_v)]
                if [g[0] for g in got] != [w[0] for w in want] and bad2 is None:
                    bad2 = (length_v, size_v, [len(g[0]) if isinstance(g[0], bytes) else g[0] for g in got], [len(w[0]) for w in want])
                if [g[1] for g in got] != [w[1] for w in want] and bad3 is None and [g[0] for g in got] == [w[0] for w in want]:
                    bad3 = (length_v, size_v, [g[1] for g in got], [w[1] for w in want])
    except CannotEvaluate as exc:
        raise AnalysisError('%s: the sequence the fragments are taken from cannot be folded (%s): %s' % (f0.loc(), exc, norm(src)[:120]))
    if bad2 is not None:
        p2.append('a sequence of %d bytes cut with width %d comes out as chunks of lengths %s, the tiling is %s'
                  % (bad2[0], bad2[1], bad2[2], bad2[3]))
    if bad3 is not None:
        p3.append('has-next flags for a sequence of %d bytes cut into %d-byte chunks are %s, must be %s (only the final chunk is '
                  'not followed by another)' % (bad3[0], bad3[1], bad3[2], bad3[3]))
    if rep is not None and bad2 is None and bad3 is None:
        rep.notes['chunks_sequence'] = 'tiling and flags decided by folding the sequence term %s on the boundary grid' % norm(src_c)[:160]
    return norm(w_node)


def read_ahead_fragmenter(repo, f, hier):
    """The file fragmenter written as a one-block read-ahead (``cur = read(w)`` ... ``while cur: nxt = read(w); yield cur, nxt
    non-empty; cur = nxt``) instead of peek-one-byte-and-seek-back.  Decided inductively on the loop:

    * entry: the carried variable holds the first block read with width w, or the end marker when that read was empty;
    * an arbitrary iteration, started with the carried block C: exactly one further read of width w happens, the yield hands out
      C itself with has-next true exactly on the path where the new read is non-empty, and at the end of the iteration the
      carried variable is the new block (end marker when it was empty);
    * the loop goes on exactly while the carried variable is not the end marker.
    -> None when the function is not of this form, else (p2, p3, p4, width terms, flag use)."""
    from ..flow import Flow
    from ..sym import SymState
    fp = f.params[0]
    normal_p, last_p = f.params[2], f.params[3]
    loops = [n for n in ast.walk(f.node) if isinstance(n, ast.While) and any(isinstance(y, ast.Yield) for y in ast.walk(n))]
    if len(loops) != 1:
        return None
    loop = loops[0]
    test_names = {n.id for n in ast.walk(loop.test) if isinstance(n, ast.Name)}
    carried = sorted(n for n in test_names if any(isinstance(y, ast.Name) and y.id == n and isinstance(y.ctx, ast.Store)
                                                  for b in loop.body for y in ast.walk(b)))
    if len(carried) != 1:
        return None
    cur = carried[0]

    def fresh(call, callee, client, state):
        return 'RD' if callee == fp + '.read' else None
    c = SymClient(repo, f, event_of=ev_kind, hierarchy=hier, fresh_of=fresh)
    c.run(empty_state())
    # the other form -- peek one byte and step back -- reads a single byte and repositions the stream: not this one
    if any(e.kind == 'fp.seek' or (e.kind == 'fp.read' and e.args == ('1',)) for e, _s in c.log):
        return None
    entries = [st for ev, st in c.log if ev.kind == 'loop' and ev.line == loop.lineno]
    if not entries:
        return None
    p2, p3, p4 = [], [], []
    wterms = set()
    reads_of = lambda trail: [e for e in trail if e.kind == 'fp.read']
    tok_of = lambda e: dict(e.kwargs).get('=')
    is_empty = lambda conds, t: any(x in ("+%s == b''" % t, '-' + t, "-%s != b''" % t, '+not ' + t) for x in conds)
    non_empty = lambda conds, t: any(x in ("-%s == b''" % t, '+' + t, "+%s != b''" % t, '-not ' + t) for x in conds)
    # ---- entry
    first_w = None
    for st in entries:
        v = st.get(cur)
        rds = reads_of(st.trail)
        if len(rds) != 1:
            return None
        t0 = tok_of(rds[0])
        first_w = rds[0].args[0] if rds[0].args else None
        wterms.add((first_w, rds[0].conds))
        if v == t0 and not is_empty(st.conds, t0):
            continue
        if v == 'None' and is_empty(st.conds, t0):
            continue
        p2.append('before the loop %s is %s on a path with %s: not "the first block, or the end marker when the first read was empty"'
                  % (cur, v, ' '.join(x for x in st.conds if t0 in x) or 'no test of the first read'))
    # ---- an arbitrary iteration
    flow = Flow(c)
    start = set()
    for st in entries:
        start.add(SymState(st.env, st.heap, tuple(x for x in st.conds if 'RD_' not in x), (), None).set(cur, 'PRE_' + cur))
    t_states, _f_states, _exc = flow.cond(loop.test, start)
    if not t_states:
        return None
    o = flow.run(loop.body, t_states)
    ends = list(o.fall) + list(o.cont)
    if not ends or o.brk or o.ret:
        return None
    n_paths = 0
    for s_ in ends:
        n_paths += 1
        ys = [e for e in s_.trail if e.kind == 'yield']
        rds = reads_of(s_.trail)
        if len(ys) != 1 or len(ys[0].args) != 2:
            p4.append('an iteration yields %d times' % len(ys))
            continue
        if len(rds) != 1 or s_.trail.index(rds[0]) > s_.trail.index(ys[0]):
            p3.append('an iteration does not read exactly one block ahead before it yields (%d reads)' % len(rds))
            continue
        nt = tok_of(rds[0])
        wterms.add((rds[0].args[0], rds[0].conds))
        if rds[0].args[0] != first_w:
            p2.append('the first block is read with width %s, later blocks with %s' % (first_w, rds[0].args[0]))
        if ys[0].args[0] != 'PRE_' + cur:
            p4.append('yielded fragment %s is not the block carried into the iteration' % ys[0].args[0])
        flag = ys[0].args[1]
        emp, non = is_empty(s_.conds, nt), non_empty(s_.conds, nt)
        if not (emp or non):
            p3.append('the block read ahead is not tested for being empty')
            continue
        want = last_p if emp else normal_p
        if flag != want:
            try:
                fe = ast.parse(flag, mode='eval').body
            except SyntaxError:
                fe = None
            ok_ = False
            if isinstance(fe, ast.IfExp) and norm(fe.body) == normal_p and norm(fe.orelse) == last_p:
                tt = norm(fe.test)
                ok_ = (tt in ('%s is not None' % nt, nt, "%s != b''" % nt) and non) or (tt in ('None is not None', 'False') and emp)
            if not ok_:
                p3.append('on the path where the block read ahead is %s the fragment is flagged %s, must be %s'
                          % ('empty' if emp else 'not empty', flag, want))
        after = s_.get(cur)
        if not ((emp and after == 'None') or (non and after == nt)):
            p2.append('at the end of an iteration %s is %s where the block read ahead was %s: a block is lost or handed out twice'
                      % (cur, after, 'empty' if emp else 'not empty'))
    # ---- the loop test: goes on exactly while the carried variable is not the end marker
    tt = norm(loop.test)
    if tt not in ('%s is not None' % cur, cur, 'not %s is None' % cur, '%s != None' % cur):
        p2.append('the loop test %s is not "the carried block is not the end marker"' % tt)
    if any(e.kind == 'fp.seek' for ev_, st_ in c.log for e in st_.trail):
        p3.append('the stream is repositioned although blocks are read ahead')
    return sorted(set(p2)), sorted(set(p3)), sorted(set(p4)), wterms, 'normal-if-has-next', n_paths


K_WANT = [6]


def _fast_path_bound(conds, item: str, max_param: str) -> Optional[int]:
    """the largest k such that a condition on the path says ``len(item) + k <= limit`` (None when no condition bounds the
    length of ``item`` by the limit)"""
    from ..provider_model import parse_cond
    best = None
    want_len = ('len', item)
    for c_ in conds:
        pol, e = parse_cond(c_)
        if e is None or not (isinstance(e, ast.Compare) and len(e.ops) == 1):
            continue
        op = e.ops[0]
        l, r = aff_of_term(norm(e.left)), aff_of_term(norm(e.comparators[0]))
        if l is None or r is None:
            continue
        # bring to the form  lhs <= rhs  (strict comparisons tighten by one)
        forms = []
        if pol and isinstance(op, ast.LtE):
            forms.append((l, r, 0))
        elif pol and isinstance(op, ast.Lt):
            forms.append((l, r, 1))
        elif pol and isinstance(op, ast.GtE):
            forms.append((r, l, 0))
        elif pol and isinstance(op, ast.Gt):
            forms.append((r, l, 1))
        elif not pol and isinstance(op, ast.Gt):
            forms.append((l, r, 0))
        elif not pol and isinstance(op, ast.GtE):
            forms.append((l, r, 1))
        elif not pol and isinstance(op, ast.Lt):
            forms.append((r, l, 0))
        elif not pol and isinstance(op, ast.LtE):
            forms.append((r, l, 1))
        for lhs, rhs, strict in forms:
            d = lhs - rhs          # d <= -strict
            if d.terms.get(want_len) == 1 and d.terms.get(('var', max_param)) == -1 and len(d.terms) == 2:
                k = d.const + strict
                best = k if best is None else max(best, k)
    return best


def _with_filled_containers(fi):
    """the function with every local container that is filled, in a loop over (part of) ``self.command_set``, with the elements of
    that loop (``wire = Dataset()`` ... ``for elem in self.command_set: if ..: wire.add(elem)``) created as
    ``__filled_from__(self.command_set)``: which elements are transmitted is C08's business, for the fragmentation rules the
    container *is* the command set"""
    import copy as _copy
    from ..srcmodel import FuncInfo
    node = fi.node
    filled = {}
    for lp in ast.walk(node):
        if not isinstance(lp, ast.For) or 'self.command_set' not in norm(lp.iter):
            continue
        tnames = {x.id for x in ast.walk(lp.target) if isinstance(x, ast.Name)}
        for c_ in ast.walk(lp):
            if isinstance(c_, ast.Call) and isinstance(c_.func, ast.Attribute) and isinstance(c_.func.value, ast.Name) \
                    and c_.func.attr in ('add', 'append', 'extend', 'update', '__setitem__') \
                    and any(isinstance(x, ast.Name) and x.id in tnames for a_ in c_.args for x in ast.walk(a_)):
                filled[c_.func.value.id] = lp.iter
            elif isinstance(c_, ast.Assign) and len(c_.targets) == 1 and isinstance(c_.targets[0], ast.Subscript) \
                    and isinstance(c_.targets[0].value, ast.Name) \
                    and any(isinstance(x, ast.Name) and x.id in tnames for x in ast.walk(c_.value)):
                filled[c_.targets[0].value.id] = lp.iter
    if not filled:
        return fi
    new = _copy.deepcopy(node)
    hit = False
    for st in ast.walk(new):
        if isinstance(st, ast.Assign) and len(st.targets) == 1 and isinstance(st.targets[0], ast.Name) and st.targets[0].id in filled \
                and isinstance(st.value, (ast.Call, ast.List, ast.Dict, ast.Set)) \
                and not any(isinstance(x, ast.Name) and x.id != 'Dataset' and not isinstance(x.ctx, ast.Store) and x.id not in ('list', 'dict', 'set', 'OrderedDict', 'collections', 'pydicom')
                            for x in ast.walk(st.value)):
            st.value = ast.copy_location(ast.Call(func=ast.Name(id='__filled_from__', ctx=ast.Load()),
                                                  args=[ast.parse('self.command_set', mode='eval').body], keywords=[]), st.value)
            hit = True
    if not hit:
        return fi
    ast.fix_missing_locations(new)
    return FuncInfo(module=fi.module, cls=fi.cls, name=fi.name, node=new, kind=fi.kind, parent=fi.parent, nested=fi.nested)



def fast_path_problems(repo, hier) -> Tuple[List[str], int]:
    """PDUs that DIMSEMessage.encode builds from a whole message, not from a fragment of the fragmenter: the path must bound the
    message by limit - overhead (shared by C06.S5 and C10.X8) -> (problems, number of such yields)"""
    import struct as _st
    enc = _with_filled_containers(repo.func('dimsemessages', 'DIMSEMessage.encode'))
    c = SymClient(repo, enc, event_of=ev_kind, hierarchy=hier, inline=repo.is_helper)
    c.run(empty_state())
    max_param = enc.params[2]
    frag_calls = [e_.args for e_, _s in c.log if e_.kind in ('fragment', 'fragment_file') and e_.args]
    probs, n = [], 0
    for ev, s in c.log:
        if ev.kind != 'yield' or not ev.args or not is_token(ev.args[0]):
            continue
        items = ev.fields(ev.args[0]).get('@data_value_items', '')
        try:
            le = ast.parse(items, mode='eval').body
        except SyntaxError:
            continue
        if not (isinstance(le, ast.List) and len(le.elts) == 1):
            continue
        pf = dict((f_, v_) for t_, f_, v_ in s.heap if t_ == norm(le.elts[0]))
        try:
            de = ast.parse(pf.get('@data_value', ''), mode='eval').body
        except SyntaxError:
            continue
        if not (isinstance(de, ast.BinOp) and isinstance(de.op, ast.Add)):
            continue
        item = norm(de.right)
        if item.startswith('ITEM('):
            continue
        whole = [a_ for a_ in frag_calls if a_[0] == item]
        if not whole:
            continue
        n += 1
        k_ = _fast_path_bound(ev.conds, item, max_param)
        if k_ is None:
            probs.append('whole message %s sent in one PDV on a path that does not bound its length by the limit' % item)
        elif k_ < K_WANT[0]:
            probs.append('a message of up to limit - %d bytes is sent as one PDV without fragmenting: the P-DATA-TF length is payload + %d, '
                         'up to %d beyond the negotiated maximum' % (k_, K_WANT[0], K_WANT[0] - k_))
    return sorted(set(probs)), n


def bytes_fragmenter(repo, hier, rep=None):
    """The bytes fragmenter as one loop: ``fragment`` with the ``chunks`` generator fused in (whether the tree keeps them apart
    or has merged them), abstractly interpreted; every yielded (chunk, flag) pair is decomposed into position / width / stop of
    the ``range`` that drives the loop.

    -> dict(f, fused, widths=[(width term, conds)], p2 (tiling), p3 (last flag), p4 (flag use), flaguse)
    -- shared by C06.S1-S4, C10.X4/X5/X6."""
    from ..normalize import fused_view
    f0 = repo.func('dimsemessages', 'fragment')
    callee_keys = set()
    try:
        ch = repo.func('dimsemessages', 'chunks')
        callee_keys.add(ch.key)
        if rep is not None:
            rep.analysed(ch)
    except AnalysisError:
        ch = None
    f, n_fused = fused_view(repo, f0, callee_keys)
    if rep is not None:
        rep.analysed(f0)
        rep.notes['bytes_fragmenter'] = 'fragment analysed with %d generator(s) fused in' % n_fused
    datap, mp, normal_p, last_p = f.params[0], f.params[1], f.params[2], f.params[3]
    c = SymClient(repo, f, event_of=ev_kind, hierarchy=hier)
    c.run(empty_state())
    p2, p3, p4 = [], [], []
    widths = set()
    flaguse = None
    n_y = 0
    for ev, s in c.log:
        if ev.kind == 'chunks':
            # an unfused producer: nothing can be said about the pairs it hands over
            raise AnalysisError('%s: chunks() could not be fused into fragment(); the tiling rule needs producer and consumer '
                                'in one loop' % f0.loc())
        if ev.kind != 'yield':
            continue
        n_y += 1
        if len(ev.args) != 2:
            p4.append('yields %s, not (fragment, flag)' % (ev.args,))
            continue
        try:
            ce = ast.parse(ev.args[0], mode='eval').body
            fe = ast.parse(ev.args[1], mode='eval').body
        except SyntaxError:
            raise AnalysisError('%s: cannot parse yielded terms %s' % (f0.loc(), ev.args))
        # ---- the flag: normal if <has next> else last (as an expression, or decided by the path)
        test = None
        if isinstance(fe, ast.IfExp):
            if norm(fe.body) == normal_p and norm(fe.orelse) == last_p:
                test = fe.test
            elif norm(fe.body) == last_p and norm(fe.orelse) == normal_p:
                test = ast.UnaryOp(op=ast.Not(), operand=fe.test)
            else:
                p4.append('flag expression %s is not "normal if has_next else last"' % ev.args[1])
                continue
        elif ev.args[1] in (normal_p, last_p):
            # if/else with one yield per branch: the path condition that separates them is the test
            cmp_conds = [c_ for c_ in ev.conds if not c_[1:].startswith('iter:')]
            if not cmp_conds:
                p4.append('flag %s is yielded unconditionally' % ev.args[1])
                continue
            pol, txt = cmp_conds[-1][0] == '+', cmp_conds[-1][1:]
            try:
                test = ast.parse(txt, mode='eval').body
            except SyntaxError:
                raise AnalysisError('%s: cannot parse condition %s' % (f0.loc(), txt))
            if (ev.args[1] == normal_p) != pol:
                test = ast.UnaryOp(op=ast.Not(), operand=test)
        else:
            p4.append('flag expression %s is not "normal if has_next else last"' % ev.args[1])
            continue
        flaguse = 'normal-if-has-next'
        # ---- pairs taken whole from one sequence term (zip / chain / repeat pipelines): folded on the boundary grid
        all_items = [n for e_ in (ce, test) for n in ast.walk(e_) if isinstance(n, ast.Call) and isinstance(n.func, ast.Name)
                     and n.func.id == 'ITEM' and len(n.args) == 1]
        if all_items and len({norm(n) for n in all_items}) == 1 and _position_source(all_items[0]) is None:
            w_term = _folded_tiling(all_items[0], ce, test, datap, f0, p2, p3, rep)
            widths.add((w_term, ev.conds))
            continue
        # ---- the chunk: data[pos:pos + width] with pos from range(0, len(data), width)
        if not (isinstance(ce, ast.Subscript) and isinstance(ce.slice, ast.Slice) and ce.slice.step is None):
            p2.append('chunk %s is not a slice of the sequence' % ev.args[0])
            continue
        if norm(ce.value) != datap:
            p2.append('chunks are cut from %s, not from the data' % norm(ce.value))
            continue
        items = [n for n in ast.walk(ce) if isinstance(n, ast.Call) and isinstance(n.func, ast.Name) and n.func.id == 'ITEM'
                 and len(n.args) == 1]
        src = None
        for n in items:
            src = _position_source(n)
            if src is not None:
                break
        if src is None:
            all_items = [n for e_ in (ce, test) for n in ast.walk(e_) if isinstance(n, ast.Call) and isinstance(n.func, ast.Name)
                         and n.func.id == 'ITEM' and len(n.args) == 1]
            if all_items and len({norm(n) for n in all_items}) == 1:
                # the pairs come from one sequence term (zip / chain / repeat / islice pipelines ..): the term is folded at every
                # (length, width) of the boundary grid and compared, item by item, with the tiling it must produce
                w_term = _folded_tiling(all_items[0], ce, test, datap, f0, p2, p3, rep)
                widths.add((w_term, ev.conds))
                continue
            if items:
                raise AnalysisError('%s: the positions the chunks are cut at come from %s, which is neither range(start, stop, step) '
                                    'nor islice(count(start, step), n) (optionally enumerated)' % (f0.loc(), norm(items[0].args[0])))
            p2.append('positions are not produced by range(start, stop, step): %s' % ev.args[0])
            continue
        pos_node, idx_node, idx_start, start, stop, step, count = src
        widths.add((norm(step), ev.conds))
        if not (isinstance(start, ast.Constant) and start.value == 0):
            p2.append('range starts at %s, not 0' % norm(start))
        if stop is not None and norm(stop) != 'len(%s)' % datap:
            p2.append('range stops at %s, not len(%s)' % (norm(stop), datap))
        if count is not None:
            # islice(count(0, w), n): n must be the number of chunks, ceil(len / w): decided by folding n on the boundary grid
            from ..arith import CannotEvaluate, eval_value
            cn = count if isinstance(step, ast.Constant) else _replace_subtree(count, step, '__w__')
            bad = None
            try:
                for size_v in range(1, 7):
                    if isinstance(step, ast.Constant) and step.value != size_v:
                        continue
                    for length_v in range(0, 4 * size_v + 2):
                        got = eval_value(cn, {datap: b'x' * length_v, '__w__': size_v})
                        if got != -(-length_v // size_v):
                            bad = (length_v, size_v, got)
                            raise StopIteration
            except StopIteration:
                pass
            except (CannotEvaluate, Exception) as exc:
                raise AnalysisError('%s: cannot fold the number of chunks %s: %s' % (f0.loc(), norm(cn), exc))
            if bad is not None:
                p2.append('%s positions are taken for a sequence of %d bytes cut into %d-byte chunks, %d chunks cover it: %s'
                          % (bad[2], bad[0], bad[1], -(-bad[0] // bad[1]),
                             'a chunk past the end (empty) is produced' if bad[2] > -(-bad[0] // bad[1]) else 'the tail is dropped'))
            elif rep is not None:
                rep.notes['chunks_count'] = 'number of positions %s = ceil(len / width): decided by folding on the boundary grid' % norm(cn)

        # an index kept by a counter (``i = n; n += 1`` per iteration, from enumerate): AUG_<name>(start, 'Add', 1) at the
        # k-th iteration is start + k
        if idx_node is None:
            for n_ in ast.walk(test):
                if isinstance(n_, ast.Call) and isinstance(n_.func, ast.Name) and n_.func.id.startswith('AUG_') and len(n_.args) == 3 \
                        and isinstance(n_.args[0], ast.Constant) and type(n_.args[0].value) is int \
                        and isinstance(n_.args[1], ast.Constant) and n_.args[1].value == 'Add' \
                        and isinstance(n_.args[2], ast.Constant) and n_.args[2].value == 1:
                    idx_node, idx_start = n_, n_.args[0].value
                    break

        def canon(e):
            if idx_node is not None:
                e = _replace_subtree(e, idx_node, '__idx__')
            e = _replace_subtree(e, pos_node, '__pos__')
            if not isinstance(step, ast.Constant):
                e = _replace_subtree(e, step, '__w__')
            return e
        w_aff = Affine.sym(('var', '__w__')) if not isinstance(step, ast.Constant) else Affine.c(step.value)
        lo = aff_of_term(norm(canon(ce.slice.lower))) if ce.slice.lower is not None else Affine.c(0)
        hi = aff_of_term(norm(canon(ce.slice.upper))) if ce.slice.upper is not None else None
        if lo != Affine.sym(('var', '__pos__')):
            p2.append('slice starts at %s, not at the position' % (norm(canon(ce.slice.lower)) if ce.slice.lower is not None else 'start'))
        if hi != Affine.sym(('var', '__pos__')) + w_aff:
            p2.append('slice ends at %s, not position + range stride: chunks overlap or leave gaps'
                      % (norm(canon(ce.slice.upper)) if ce.slice.upper is not None else 'end'))
        # ---- S3: <has next> == pos + width < len(data)
        t = canon(test)
        neg = False
        while isinstance(t, ast.UnaryOp) and isinstance(t.op, ast.Not):
            t, neg = t.operand, not neg
        ok3 = False
        if isinstance(t, ast.Compare) and len(t.ops) == 1:
            l, r = aff_of_term(norm(t.left)), aff_of_term(norm(t.comparators[0]))
            if l is not None and r is not None:
                d = l - r
                want = Affine.sym(('var', '__pos__')) + w_aff - Affine.sym(('len', datap))
                op = t.ops[0]
                if neg:
                    op = {ast.Lt: ast.GtE, ast.GtE: ast.Lt, ast.Gt: ast.LtE, ast.LtE: ast.Gt}.get(type(op), type(None))()
                if isinstance(op, ast.Lt) and d == want:
                    ok3 = True
                if isinstance(op, ast.Gt) and d == want.scale(-1):
                    ok3 = True
                if isinstance(op, ast.LtE) and d == want + Affine.c(1):
                    ok3 = True
                if isinstance(op, ast.GtE) and d == (want + Affine.c(1)).scale(-1):
                    ok3 = True
        if not ok3:
            # not in the affine normal form: fold the test at every (length, width, position) of a boundary grid and compare
            # with pos + width < length (integer division / rounding forms are decided this way)
            from ..arith import CannotEvaluate, eval_value
            agree, witness = True, None
            tc = canon(test)
            try:
                for size_v in range(1, 7):
                    if isinstance(step, ast.Constant) and step.value != size_v:
                        continue
                    for length_v in range(0, 4 * size_v + 2):
                        env = {datap: b'x' * length_v, '__w__': size_v}
                        for pos_v in range(0, length_v, size_v):
                            env['__pos__'] = pos_v
                            env['__idx__'] = (idx_start or 0) + pos_v // size_v
                            got = bool(eval_value(tc, env))
                            if got != (pos_v + size_v < length_v):
                                agree, witness = False, (length_v, size_v, pos_v, got)
                                raise StopIteration
            except StopIteration:
                pass
            except (CannotEvaluate, Exception):
                agree = False
            if agree:
                ok3 = True
                if rep is not None:
                    rep.notes['chunks_flag'] = 'decided by folding %s on the boundary grid' % norm(tc)
            elif witness is not None:
                p3.append('has-next flag %s is %s for a sequence of %d bytes cut into %d-byte chunks at position %d'
                          % (norm(tc), witness[3], witness[0], witness[1], witness[2]))
                ok3 = True      # reported with its witness
        if not ok3:
            p3.append('has-next flag is %s, which is not equivalent to pos + width < len(seq): the last chunk is '
                      'mis-flagged (at exact multiples or always)' % norm(canon(test)))
    if n_y == 0:
        raise AnalysisError('%s: no yield found' % f0.loc())
    return dict(f=f0, fused=f, widths=sorted(widths), p2=sorted(set(p2)), p3=sorted(set(p3)), p4=sorted(set(p4)),
                flaguse=flaguse, chunks=ch)


def chunks_problems(repo, rep=None):
    """(tiling problems, last-flag problems, anchor function) of the bytes fragmenter -- shared by C06.S2/S3 and C10.X6"""
    r = bytes_fragmenter(repo, exc_hierarchy(repo), rep)
    return r['p2'], r['p3'], (r['chunks'] or r['f'])


def send_limit_problems(repo, hier):
    """C06.S7 / C10.X3: every message encode reached from Association.send -- directly or through helper methods it hands the
    message to -- is given the association's negotiated ``self.max_pdu_length`` as its limit, and nothing else in the package
    encodes messages.  Decided on the terms at the encode call, so the limit may travel through parameters."""
    send = repo.func('asceprovider', 'Association.send')
    c = SymClient(repo, send, event_of=ev_kind, hierarchy=hier, inline=repo.is_helper)
    c.run(empty_state())
    probs = []
    evs = [e for e, _s in c.log if e.kind == 'msg.encode']
    reached = {e.fn for e in evs}
    for e in evs:
        lim = e.args[1] if len(e.args) > 1 else dict(e.kwargs).get('max_pdu_length', '?')
        if lim != 'self.max_pdu_length':
            probs.append('Association.send passes %s as the limit, not the negotiated self.max_pdu_length' % lim)
    if not evs:
        probs.append('Association.send does not call encode(pc_id, limit)')
    for fi in repo.all_functions():
        for n in ast.walk(fi.node):
            if isinstance(n, ast.Call) and isinstance(n.func, ast.Attribute) and n.func.attr == 'encode' and len(n.args) + len(n.keywords) == 2:
                # dsutils.encode(ds, a, b) has three arguments; PDU.encode() none
                if norm(n.func.value) in ('dsutils',):
                    continue
                if fi.key != send.key and fi.key not in reached:
                    probs.append('%s calls encode(%s) outside Association.send' % (fi.key, ', '.join(norm(a) for a in n.args)))
    return sorted(set(probs))


def run(repo, rep):
    from ..pitfalls import memo_rule as _memo_rule
    _memo_rule(repo, rep, 'C06', 'C06.Z1')
    from ..pitfalls import log_rule as _log_rule
    _log_rule(repo, rep, 'C06', 'C06.Z2')
    from ..api_pitfalls import truth_rule as _truth_rule
    _truth_rule(repo, rep, 'C06', 'C06.Z4')
    from ..api_pitfalls import attribute_rule as _attribute_rule
    _attribute_rule(repo, rep, 'C06', 'C06.Z5')
    dm = repo.module('dimsemessages')
    hier = exc_hierarchy(repo)
    k_pdv, lx = overhead(repo)
    rep.trust('CPython semantics of range, slicing, file read/seek; pydicom command-set encoding')
    rep.trust('PS3.8 Annex E.2 (message control header bits) and Annex D.1 (maximum length bounds the PDU length field)')
    rep.rule('C06.S1', 'fragment width = maximum PDU length - k with k exactly the bytes one PDV adds inside the PDU length '
             '(derived from the layouts) -- the bound holds and is tight', 2)
    rep.rule('C06.S2', 'chunks tile the sequence: range(0, len, width) with slices [pos:pos+width]; file variant reads width '
             'bytes and stops on an empty read', 2)
    rep.rule('C06.S3', 'the not-last flag is exactly "pos + width < len" (bytes) / "a further byte exists, pushed back" (file)', 2)
    rep.rule('C06.S4', 'flag literals are (1,3) for command and (0,2) for data fragments and map has_next to normal/last', 3)
    rep.rule('C06.S5', 'all command fragments precede all data fragments; every PDV carries the pc_id parameter and the control '
             'byte + bytes of the same fragment; one PDV per PDU', 1)
    rep.rule('C06.S6', 'fragment and fragment_file agree on width expression and flag use', 1)
    rep.rule('C06.S8', 'the two codecs every fragment passes through (P-DATA-TF PDU, presentation data value item) emit the '
             'standard layout -- type, lengths, unsigned context id, the fragment bytes -- on every encoder path, special-case '
             'paths included (the C02 rules restricted to these classes)', 8)
    rep.rule('C06.S7', 'the only caller of DIMSEMessage.encode is Association.send, passing the association\'s negotiated maximum', 1)

    # ---------------------------------------------------------------- bytes fragmenter (S2, S3): producer and consumer fused
    bf = bytes_fragmenter(repo, hier, rep)
    anchor = bf['chunks'] or bf['f']
    rep.check(not bf['p2'], 'C06.S2', 'dimsemessages:chunks:tiling', anchor.loc(), 'range(0, len, width) with slices [pos:pos+width]',
              '; '.join(bf['p2']))
    rep.check(not bf['p3'], 'C06.S3', 'dimsemessages:chunks:last-flag', anchor.loc(), 'has_next == pos + width < len', '; '.join(bf['p3']))

    # ---------------------------------------------------------------- fragment / fragment_file
    widths = {}
    flaguse = {}
    for fname in ('fragment', 'fragment_file'):
        f = repo.func('dimsemessages', fname)
        rep.analysed(f)
        mp = f.params[1]
        normal_p, last_p = f.params[2], f.params[3]
        p1, p2, p3, p4 = [], [], [], []
        wterms = set()
        n_y = 0
        if fname == 'fragment':
            wterms = set(bf['widths'])
            p4 = list(bf['p4'])
            if bf['flaguse']:
                flaguse[fname] = bf['flaguse']
            n_y = 1
            log = []
        else:
            ra = read_ahead_fragmenter(repo, f, hier)
            if ra is not None:
                p2, p3, p4, wterms, flaguse[fname], n_y = list(ra[0]), list(ra[1]), list(ra[2]), set(ra[3]), ra[4], ra[5]
                rep.notes['fragment_file'] = 'one-block read-ahead form: decided inductively on the loop (%d iteration paths)' % n_y
                n_y = max(n_y, 1)
                log = []
            else:
                c = SymClient(repo, f, event_of=ev_kind, hierarchy=hier)
                fin = c.final_states(c.run(empty_state()))
                log = c.log
        for ev, s in log:
            if True:
                i = len(s.trail)
                if ev.kind == 'fp.read' and ev.args != ('1',):
                    wterms.add((ev.args[0], ev.conds))
                if ev.kind == 'yield':
                    n_y += 1
                    if len(ev.args) != 2:
                        p4.append('yields %s, not (fragment, flag)' % (ev.args,))
                        continue
                    try:
                        fe = ast.parse(ev.args[1], mode='eval').body
                    except SyntaxError:
                        fe = None
                    if isinstance(fe, ast.IfExp) and norm(fe.body) == normal_p and norm(fe.orelse) == last_p:
                        test = norm(fe.test)
                    elif ev.args[1] in (normal_p, last_p):
                        # if/else with one flag per branch: the path condition that separates them is the test
                        cc = [c_ for c_ in ev.conds if c_[:1] in '+-' and not c_[1:].startswith('iter:') and c_[1:] != ev.args[0]]
                        if not cc:
                            p4.append('flag %s is yielded unconditionally' % ev.args[1])
                            continue
                        pol_, test = cc[-1][0] == '+', cc[-1][1:]
                        if (ev.args[1] == normal_p) != pol_:
                            p4.append('flag expression: %s is yielded when %s is %s' % (ev.args[1], test, 'true' if pol_ else 'false'))
                            continue
                    else:
                        p4.append('flag expression %s is not "normal if has_next else last"' % ev.args[1])
                        continue
                    flaguse[fname] = 'normal-if-has-next'
                    if True:
                        # has_next = fp.read(1); pushed back iff truthy
                        if test != '%s.read(1)' % f.params[0]:
                            p3.append('has-next is %s, not "one more byte can be read"' % test)
                        if ev.args[0] not in {'%s.read(%s)' % (f.params[0], w) for w, _ in wterms}:
                            p4.append('yielded fragment %s is not the chunk read' % ev.args[0])
                        pos_seek = [e for e in s.trail[:i] if e.kind == 'fp.seek']
                        took_true = ('+' + test) in ev.conds
                        took_false = ('-' + test) in ev.conds
                        if took_true and not any(e.args == ('-1', '1') for e in pos_seek):
                            p3.append('the look-ahead byte is not pushed back (seek(-1, 1)) when a further byte exists')
                        if took_false and any(e.conds and ('-' + test) in e.conds for e in pos_seek):
                            p3.append('seek back although no byte was read')
                        t0 = ev.args[0]
                        if not any(c_ in ('+' + t0, "-%s == b''" % t0, "+%s != b''" % t0, '+len(%s)' % t0, '-len(%s) == 0' % t0,
                                          '+len(%s) > 0' % t0, '-not ' + t0) for c_ in ev.conds):
                            p2.append('an empty read is not the end of the loop (fragment yielded without testing the chunk)')
        if n_y == 0:
            raise AnalysisError('%s: no yield found' % f.loc())
        # S1: width
        from ..sym import inline_pure_calls
        k_want = k_pdv + 1   # + one control header byte (checked against pack('b') in encode below)
        for w, conds in wterms:
            w = inline_pure_calls(w, repo, 'dimsemessages')
            a = aff_of_term(w)
            nolimit = any(c_ in ('-' + mp, '+not ' + mp, '+%s == 0' % mp) for c_ in conds)
            if nolimit:
                continue  # "0 = no limit" branch: C10.X4 decides it
            if a is None or a.terms.get(('var', mp)) != 1 or len(a.terms) != 1:
                p1.append('fragment width %s is not "maximum PDU length - constant"' % w)
                continue
            k = -a.const
            widths[fname] = a
            if k < k_want:
                p1.append('width = max_pdu_length - %d: each P-DATA-TF length is fragment + %d, so PDUs exceed the maximum by %d'
                          % (k, k_want, k_want - k))
            elif k > k_want:
                p1.append('width = max_pdu_length - %d wastes %d byte(s): with the smallest legal maximum (%d) no payload byte fits'
                          % (k, k - k_want, k_want + 1))
        if not wterms:
            p1.append('no chunk width found')
        rep.check(not p1, 'C06.S1', 'dimsemessages:%s:width' % fname, f.loc(),
                  'width = max_pdu_length - %d (PDV item %d + control header 1)' % (k_want, k_pdv), '; '.join(sorted(set(p1))))
        if fname == 'fragment_file':
            rep.check(not p2, 'C06.S2', 'dimsemessages:fragment_file:tiling', f.loc(), 'reads width bytes per fragment, stops on empty read', '; '.join(sorted(set(p2))))
            rep.check(not p3, 'C06.S3', 'dimsemessages:fragment_file:last-flag', f.loc(), 'has_next == one more byte exists, pushed back', '; '.join(sorted(set(p3))))
        elif p2:
            rep.bad('C06.S2', 'dimsemessages:fragment:tiling', f.loc(), '; '.join(sorted(set(p2))))
        rep.check(not p4, 'C06.S4', 'dimsemessages:%s:flag-use' % fname, f.loc(), 'yields (chunk, normal if has_next else last)', '; '.join(sorted(set(p4))))
    same = widths.get('fragment') == widths.get('fragment_file') and flaguse.get('fragment') == flaguse.get('fragment_file')
    rep.check(same, 'C06.S6', 'dimsemessages:fragment/fragment_file:siblings', repo.func('dimsemessages', 'fragment').loc(),
              'bytes and file variants use the same width and flag mapping',
              'bytes variant uses width %s, file variant %s' % (widths.get('fragment'), widths.get('fragment_file')))

    # ---------------------------------------------------------------- encode (S4, S5)
    enc = _with_filled_containers(repo.func('dimsemessages', 'DIMSEMessage.encode'))
    rep.analysed(enc)
    c = SymClient(repo, enc, event_of=ev_kind, hierarchy=hier, inline=repo.is_helper)
    fin = c.final_states(c.run(empty_state()))
    pc_param, max_param = enc.params[1], enc.params[2]
    p4, p5 = [], []
    seen_cmd = seen_data = False
    data_seen_on_path = False
    src_undecided = []
    frag_calls = [e_.args for e_, _s in c.log if e_.kind in ('fragment', 'fragment_file') and e_.args]

    def _foldflag(t):
        from ..arith import CannotEvaluate, eval_term
        try:
            return str(eval_term(ast.parse(t, mode='eval').body, {}))
        except (CannotEvaluate, SyntaxError, Exception):
            return t
    def _widen(text):
        import re as _re
        out_ = text
        for mname in set(_re.findall(r'self\.(\w+)\(', text)):
            hm = enc.cls.find_method(mname) if enc.cls is not None else None
            if hm is not None and repo.is_helper(hm):
                out_ += ' ' + ' '.join(sorted({norm(x) for x in ast.walk(hm.node) if isinstance(x, ast.Attribute)
                                               and isinstance(x.value, ast.Name) and x.value.id == 'self'}))
        return out_
    for ev, s in c.log:
        if True:
            data_seen_on_path = any(e.kind in ('fragment', 'fragment_file') and 'data_set' in e.args[0] for e in s.trail)
            if ev.kind in ('fragment', 'fragment_file'):
                src = ev.args[0]

                def _fold_flag(t):
                    from ..arith import CannotEvaluate, eval_term
                    try:
                        return str(eval_term(ast.parse(t, mode='eval').body, {}))
                    except (CannotEvaluate, SyntaxError, Exception):
                        return t
                flags = tuple(_fold_flag(x) for x in ev.args[2:4])
                # what the fragmented bytes are made of: the term itself, and what the helper methods it calls read of the message
                # (``b''.join(raw for _, raw in self.encoded_elements())``, a generator over self.command_set)
                src_w = _widen(src)
                if 'self.command_set' in src_w and 'data_set' not in src_w:
                    # (how the command set becomes bytes is C08's business: here it is the thing that is fragmented)
                    seen_cmd = True
                    if ev.kind != 'fragment' or flags != tuple(str(x) for x in CMD_FLAGS):
                        p4.append('command set fragmented with flags %s, PS3.8 E.2: %s' % (flags, CMD_FLAGS))
                elif 'data_set' in src:
                    seen_data = True
                    if flags != tuple(str(x) for x in DATA_FLAGS):
                        p4.append('data set fragmented with flags %s, PS3.8 E.2: %s' % (flags, DATA_FLAGS))
                    if not any(c_ in ('+self.data_set', '+self._data_set') for c_ in ev.conds):
                        p5.append('data fragments produced without testing that a data set is present')
                    # what is fragmented is the data set as the user handed it over: the bytes themselves, or the stream from
                    # its current position (what the file fragmenter reads; a stream opened past a preamble stays past it)
                    D_ = ('self.data_set', 'self._data_set')
                    src_ok = src in D_ or src in tuple(d_ + '.read()' for d_ in D_) or src in tuple(d_ + '.read(-1)' for d_ in D_) \
                        or src in tuple('%s(%s)' % (w_, d_) for w_ in ('bytes', 'memoryview', 'bytearray') for d_ in D_)
                    if not src_ok:
                        snap = [a_ for a_ in ('getvalue', 'getbuffer') if any(src == '%s.%s()' % (d_, a_) or src.startswith('%s.%s()' % (d_, a_)) for d_ in D_)]
                        if snap:
                            p5.append('the data fragments are cut from %s: %s() returns the whole buffer whatever the position of the stream, '
                                      'the file fragmenter (and read()) start at the position the user left it at' % (src, snap[0]))
                        else:
                            src_undecided.append(src)
                else:
                    p4.append('fragmenter applied to %s' % src)
                if ev.args[1] != max_param:
                    p5.append('fragmenter called with limit %s, not the %s parameter' % (ev.args[1], max_param))
            if ev.kind == 'yield':
                tok = ev.args[0] if ev.args else ''
                if not (is_token(tok) and 'PDataTfPDU' in tok):
                    p5.append('encode yields %s, not a P-DATA-TF PDU' % tok)
                    continue
                items = ev.fields(tok).get('@data_value_items', '')
                try:
                    le = ast.parse(items, mode='eval').body
                except SyntaxError:
                    le = None
                if not (isinstance(le, ast.List) and len(le.elts) == 1):
                    p5.append('P-DATA-TF carries %s, not exactly one PDV' % items)
                    continue
                pdv_tok = norm(le.elts[0])
                # the PDV token's constructor arguments are in the heap of the final state as well
                pf = dict((f_, v) for t, f_, v in s.heap if t == pdv_tok)
                if pf.get('@context_id') != pc_param:
                    p5.append('PDV context id is %s, not the %s parameter' % (pf.get('@context_id'), pc_param))
                dv = pf.get('@data_value', '')
                try:
                    de = ast.parse(dv, mode='eval').body
                except SyntaxError:
                    de = None
                okdv = False
                # struct.pack(fmt, bit) + item, or S.pack(bit) + item with S a struct.Struct constant
                if isinstance(de, ast.BinOp) and isinstance(de.op, ast.Add) and isinstance(de.left, ast.Call) \
                        and isinstance(de.left.func, ast.Attribute) and de.left.func.attr == 'pack' \
                        and norm(de.left.func) != 'struct.pack' and len(de.left.args) == 1:
                    from ..srcmodel import StructVal as _SV
                    sv_ = repo.try_fold(de.left.func.value, enc.module, enc.cls)
                    if isinstance(sv_, _SV):
                        de = ast.BinOp(left=ast.Call(func=ast.parse('struct.pack', mode='eval').body,
                                                     args=[ast.Constant(value=sv_.fmt), de.left.args[0]], keywords=[]),
                                       op=ast.Add(), right=de.right)
                        ast.fix_missing_locations(de)
                if isinstance(de, ast.BinOp) and isinstance(de.op, ast.Add) and isinstance(de.left, ast.Call) \
                        and norm(de.left.func) == 'struct.pack' and len(de.left.args) == 2 and isinstance(de.left.args[0], ast.Constant):
                    fmt = de.left.args[0].value
                    if _struct.calcsize(fmt) != 1:
                        p5.append('message control header packed as %r (%d bytes), PS3.8 E.2: one byte' % (fmt, _struct.calcsize(fmt)))
                    bit, item = norm(de.left.args[1]), norm(de.right)
                    if bit.endswith('[1]') and item == bit[:-3] + '[0]' and bit.startswith('ITEM(fragment'):
                        okdv = True
                        is_data = 'data_set' in bit
                        if is_data:
                            data_seen_on_path = True
                        elif data_seen_on_path:
                            p5.append('a command fragment is emitted after a data fragment')
                    if not okdv:
                        # the whole message in one PDV, outside the fragmenter: allowed with the flag the fragmenter would give
                        # its only fragment (``last``) and on a path that bounds the message by the fragment width
                        whole = [a_ for a_ in frag_calls if a_[0] == item]
                        if whole:
                            want_flag = whole[0][3] if len(whole[0]) > 3 else None
                            if want_flag is None or _foldflag(bit) != _foldflag(want_flag):
                                p5.append('whole message %s sent in one PDV with control header %s, the fragmenter flags its only '
                                          'fragment %s' % (item, bit, want_flag))
                            k_ = _fast_path_bound(ev.conds, item, max_param)
                            if k_ is None:
                                p5.append('whole message %s sent in one PDV on a path that does not bound its length by the limit' % item)
                            elif k_ < K_WANT[0]:
                                p5.append('a message of up to limit - %d bytes is sent as one PDV without fragmenting: the P-DATA-TF '
                                          'length is payload + %d, up to %d beyond the negotiated maximum' % (k_, K_WANT[0], K_WANT[0] - k_))
                            okdv = True
                if not okdv:
                    p5.append('PDV value %s is not control byte + fragment of the same iteration' % dv)
    if not seen_cmd:
        p4.append('command set is never fragmented')
    if not seen_data:
        p4.append('data set is never fragmented')
    # order: on no path is a PDU carrying command bytes yielded after one carrying data-set bytes (decided on the payloads of
    # the yields along each path, whichever loops / fast paths produce them)
    def _payload_kind(ev_, st_):
        tok_ = ev_.args[0] if ev_.args else ''
        if not is_token(tok_):
            return None
        items_ = ev_.fields(tok_).get('@data_value_items', '')
        try:
            le_ = ast.parse(items_, mode='eval').body
        except SyntaxError:
            return None
        if not (isinstance(le_, ast.List) and len(le_.elts) == 1):
            return None
        pf_ = dict((f_, v_) for t_, f_, v_ in st_.heap if t_ == norm(le_.elts[0]))
        dv_ = _widen(pf_.get('@data_value', ''))
        return 'data' if 'data_set' in dv_ else 'command' if 'command_set' in dv_ else None
    for s_fin, how_fin in fin:
        seen_data_yield = False
        for e_ in s_fin.trail:
            if e_.kind != 'yield':
                continue
            k_ = _payload_kind(e_, s_fin)
            if k_ == 'data':
                seen_data_yield = True
            elif k_ == 'command' and seen_data_yield:
                p5.append('a PDU with command-set bytes is yielded (line %d) after one with data-set bytes' % e_.line)
    if not any(_payload_kind(e_, s_) == 'command' for e_, s_ in c.log if e_.kind == 'yield') or \
            not any(_payload_kind(e_, s_) == 'data' for e_, s_ in c.log if e_.kind == 'yield'):
        p5.append('encode does not yield both command-set and data-set PDUs')
    if src_undecided and not p5:
        rep.undecided('C06.S5', '%s: the data fragments are cut from %s, a form of the data set the source rule does not know'
                      % (enc.loc(), ', '.join(sorted(set(src_undecided)))))
    rep.check(not p4, 'C06.S4', 'dimsemessages:DIMSEMessage.encode:flag-literals', enc.loc(),
              'command (1,3), data (0,2) for bytes and file data sets', '; '.join(sorted(set(p4))))
    rep.check(not p5, 'C06.S5', 'dimsemessages:DIMSEMessage.encode:order-context', enc.loc(),
              'command before data; pc_id, control byte and fragment of the same iteration; one PDV per PDU', '; '.join(sorted(set(p5))))

    # ---------------------------------------------------------------- S10: encoding is repeatable
    from .c10 import limit_setter_problems
    sp_, sn_ = limit_setter_problems(repo)
    rep.rule('C06.S11', 'the width the fragments are cut to is the limit that was set (same analysis as C10.X10): a setter of '
             '``max_pdu_length`` stores 0 and every value from 7 on unchanged', 1)
    rep.check(not sp_, 'C06.S11', 'asceprovider:Association.max_pdu_length:setter', repo.module('asceprovider').relpath,
              '%d setter(s) of max_pdu_length, each stores the legal values as given' % sn_, '; '.join(sp_))
    rep.rule('C06.S10', 'encode() leaves the message as it found it: it (and the helpers it calls) binds no attribute of self, so a message '
             'with an in-memory data set fragments to the same PDVs however often it is encoded (closing a file data set at the end is '
             'not a change of the message)', 1)
    c10 = SymClient(repo, enc, event_of=lambda *a_: None, hierarchy=hier, inline=repo.is_helper,
                    store_event=lambda t_: t_.startswith('self.'))
    c10.run(empty_state())
    w10 = sorted({'line %d binds %s to %s' % (e_.line, e_.callee, e_.args[0] if e_.args else '?') for e_, _s in c10.log if e_.kind == 'store'})
    rep.check(not w10, 'C06.S10', 'dimsemessages:DIMSEMessage.encode:read-only', enc.loc(), 'encode() and its helpers bind no attribute of the message',
              'encode() changes the message while fragmenting it (%s): the next encode() of the same object does not produce the same '
              'fragments' % '; '.join(w10))

    # ---------------------------------------------------------------- S8
    from ..codec_rules import check_wire
    check_wire(lx, rep, prefix='C06', only=('PDataTfPDU', 'PresentationDataValueItem'),
               rule_map={'L1': 'S8', 'L2': 'S8', 'L3': 'S8', 'L5': 'S8', 'L6': 'S9'})

    # ---------------------------------------------------------------- S9
    rep.rule('C06.S9', 'building a P-DATA-TF PDU never fails for a legal fragment: no guard in the constructors / encoders of the PDU '
             'and its PDV item rejects a context id up to 255 or a length its field can carry (same analysis as C01.O12)', 2)

    # ---------------------------------------------------------------- S7
    p7 = send_limit_problems(repo, hier)
    sendf = repo.func('asceprovider', 'Association.send')
    rep.analysed(sendf)
    rep.check(not p7, 'C06.S7', 'asceprovider:Association.send:limit-source', sendf.loc(),
              'single caller, limit = self.max_pdu_length', '; '.join(p7))
