import sys
sys.path.insert(0,'/verif')
import os
from pnd_static.srcmodel import Repo
from pnd_static.layout import LayoutExtractor
from pnd_static.layout_sem import SemDecoder
repo=Repo(os.environ.get('VERIF_REPO','/repo'))
lx=LayoutExtractor(repo)
only = sys.argv[1:] 
for name,c in sorted(lx.classes.items()):
    if only and name not in only: continue
    try:
        old=lx.decoder_syntactic(c) if hasattr(lx,'decoder_syntactic') else lx.decoder(c)
    except Exception as e:
        old=('ERR',str(e))
    try:
        sd=SemDecoder(lx,c)
        new=sd.run()
    except Exception as e:
        import traceback; traceback.print_exc()
        new=('ERR',str(e))
    def show(x):
        if x[0]=='ERR': return x
        el,f,rm=x
        out=[]
        for e in el:
            if e[0]=='f': out.append(('f',e[1],e[2],e[4]))
            elif e[1]=='loop':
                d=e[2]; out.append(('loop',d.kind,sorted(d.accepts.items(),key=str),d.default,d.else_raises,str(d.bound),d.counter_ok,d.advances,e[3]))
            else: out.append((e[1],str(e[2]),e[3]))
        return out,rm
    a,b=show(old),show(new)
    print('==',name, 'SAME' if a==b else 'DIFF')
    if a!=b:
        print('  old',a); print('  new',b)
