"""Semantic extraction of a codec's decoder: the byte stream interpreted abstractly.

``decode`` (with every helper, nested generator and generator method it calls inlined by the
path-sensitive provenance client) is followed along its paths; every ``stream.read(n)``,
``_next_type(stream)`` and ``Child.decode(stream)`` denotes a token named after its call site, so the
terms of the constructor arguments say which bytes reach which parameter, whatever locals, tuples,
dicts or helper functions they pass through.  The sequence of stream events on the path that reaches
the constructor is turned into the same element list the rules already understand:

    ('f', char, width, big_endian, name, fmt)      one field of a fixed struct read
    ('v', 'read', length-affine, name)             stream.read(<expr>)
    ('v', 'child', Class, name)                    Class.decode(stream)
    ('v', 'loop', LoopDesc, name)                  a loop decoding children

Loops are summarised from the paths of *one iteration* (test + body): which conditions on the peeked
type byte lead to which child class, which leave the loop, which raise; whether a counter is advanced
by the child's total length; whether the type byte is peeked again before the next test.
Nothing is executed.  A shape that cannot be interpreted raises AnalysisError (exit 2).
"""
from __future__ import annotations

import ast
import re
from typing import Any, Dict, List, Optional, Set, Tuple

from .flow import Flow, attr_chain
from .srcmodel import AnalysisError, ClassInfo, ClassRef, FuncInfo, FuncRef, NotConst, Repo, StructVal, norm
from .sym import Event, SymClient, SymState, empty_state

STREAM_CTORS = ('cStringIO', 'BytesIO', 'six.BytesIO', 'io.BytesIO', 'StringIO')
TOKEN_RE = re.compile(r'^(RD|PK|CH|GEN|LIST)_L\d+_\d+$')


def _parse(term: str) -> Optional[ast.expr]:
    try:
        return ast.parse(term, mode='eval').body
    except SyntaxError:
        return None


def is_tok(term: str, prefix: Optional[str] = None) -> bool:
    m = TOKEN_RE.match(term)
    return bool(m) and (prefix is None or m.group(1) == prefix)


class SemDecoder:
    def __init__(self, lx, c: ClassInfo):
        self.lx = lx
        self.repo: Repo = lx.repo
        self.c = c
        self.f: FuncInfo = c.find_method('decode')
        self.codec_classes: Set[str] = set(lx.classes)

    # ------------------------------------------------------------------ client configuration
    def _is_stream(self, term: str) -> bool:
        """the decoder's stream parameter, or a BytesIO over raw bytes / over a read of the stream"""
        if term in self.stream_params:
            return True
        e = _parse(term)
        return isinstance(e, ast.Call) and norm(e.func) in STREAM_CTORS and len(e.args) == 1

    def _event_of(self, call, callee, client, state):
        last = callee.rsplit('.', 1)[-1]
        base = callee.rsplit('.', 1)[0] if '.' in callee else ''
        if last == 'read' and self._is_stream(base) and len(call.args) == 1:
            return 'read'
        if last == 'tell' and self._is_stream(base):
            return 'tell'
        if last == 'unpack':
            return 'unpack'
        if last == 'unpack_from' and call.args:
            a0 = client.term(call.args[0 if base != 'struct' else 1] if len(call.args) > (0 if base != 'struct' else 1) else call.args[0],
                             state, heap_ext=False)
            if a0 in self.stream_params:
                return 'unpack_from'
        if callee == '_next_type' or callee.endswith('._next_type'):
            return 'peek'
        if last == 'decode' and len(call.args) == 1 and isinstance(call.func, ast.Attribute):
            a = client.term(call.args[0], state, heap_ext=False)
            if self._is_stream(a):
                return 'child'
        if last == 'append' and is_tok(base, 'LIST'):
            return 'append'
        if callee == 'cls' or callee == self.c.name:
            return 'ctor'
        return None

    def _fresh_of(self, call, callee, client, state):
        k = self._event_of(call, callee, client, state)
        if k == 'read':
            return 'RD'
        if k == 'peek':
            return 'PK'
        if k == 'child':
            return 'CH'
        # a generator call: its body is run at the call, the value stands for what it yields
        r = client._resolve_callee(call.func, state)
        if isinstance(r, FuncRef):
            try:
                fi = self.repo.func(r.module, r.qualname)
            except AnalysisError:
                return None
            if any(isinstance(n, (ast.Yield, ast.YieldFrom)) for n in ast.walk(fi.node)):
                return 'GEN'
        return None

    def _inline(self, fi: FuncInfo) -> bool:
        if fi.name in ('decode', 'encode', '__init__', '_next_type'):
            return False
        # helper methods of the codec classes and module-level helpers of the codec modules
        if fi.module.name in ('pdu', 'userdataitems'):
            return True
        return False

    # ------------------------------------------------------------------ running
    def run(self):
        f = self.f
        params = f.params[1:] if f.kind in ('classmethod', 'method') else f.params
        self.stream_params = set(params)
        self.client = SymClient(self.repo, f, event_of=self._event_of, inline=self._inline, fresh_of=self._fresh_of,
                                inline_generators=True)
        o = self.client.run(empty_state())
        finals = [s for s, _ in o.ret]
        good = [s for s in finals if any(e.kind == 'ctor' for e in s.trail)]
        if not good:
            raise AnalysisError('%s: no path through decode() returns cls(...)' % f.loc())
        # all constructor paths must agree on the sequence of top-level stream events
        shapes = {}
        for s in good:
            shapes.setdefault(self._shape(s), s)
        if len(shapes) > 1:
            # paths may differ only inside loops (how many iterations were unrolled before widening)
            pass
        s = sorted(shapes.items(), key=lambda kv: -len(kv[0]))[0][1]
        # a decoder that works on the raw buffer by offsets (``S.unpack_from(buf, pos)``, ``buf[a:b]``) is not a sequence of
        # stream reads: this extractor has no model of it and must not report its zero stream events as "reads nothing"
        params = set(self.stream_params)
        for hf in self.repo.helper_closure(f):
            for n in ast.walk(hf.node):
                direct = None
                if isinstance(n, ast.Call) and isinstance(n.func, ast.Attribute) and n.func.attr == 'unpack_from' \
                        and not any(e_.kind == 'unpack_from' and e_.line == n.lineno for e_ in s.trail):
                    direct = 'unpack_from'
                elif isinstance(n, ast.Subscript) and isinstance(n.value, ast.Name) and n.value.id in params \
                        and hf is f and isinstance(n.ctx, ast.Load):
                    direct = 'a slice of %s' % n.value.id
                if direct:
                    raise AnalysisError('%s: decode() reads the raw buffer by offset (%s); only stream-based decoders are '
                                        'modelled' % (hf.loc(n), direct))
        return self._elements(s)

    @staticmethod
    def _shape(s: SymState) -> Tuple:
        out = []
        depth = 0
        for e in s.trail:
            if e.kind == 'loop':
                if depth == 0:
                    out.append(('loop', e.line))
                depth += 1
            elif e.kind == 'loopexit':
                depth -= 1
            elif depth == 0 and e.kind in ('read', 'child', 'unpack', 'unpack_from'):
                out.append((e.kind, e.line))
        return tuple(out)

    # ------------------------------------------------------------------ elements
    def _result_token(self, ev: Event) -> str:
        pref = {'read': 'RD', 'peek': 'PK', 'child': 'CH'}[ev.kind]
        return '%s_L%d_%d' % (pref, ev.line, self._col.get(id(ev), 0))

    def _elements(self, s: SymState):
        c, f = self.c, self.f
        trail = list(s.trail)
        env = dict(s.env)
        # friendly names: locals bound to a token / field term
        friendly: Dict[str, str] = {}
        for name, term in sorted(env.items()):
            if name.startswith('__h'):
                continue
            friendly.setdefault(term, name)
        for name, term in sorted(env.items()):
            friendly.setdefault(term, name.split('_', 3)[-1] if name.startswith('__h') else name)
        elems: List[tuple] = []
        self.fields: Dict[str, str] = {}       # field term -> element name
        self.loop_results = {}
        self.sub_bounds: Dict[str, Any] = {}   # RD token used as a sub-stream -> its length affine
        ctor = [e for e in trail if e.kind == 'ctor'][-1]
        used_names: Set[str] = set()
        # constructor parameters name the values no local carries (``cls(reserved=values[1])``)
        init0 = c.find_method('__init__')
        pn0 = init0.params[1:] if init0 else []
        for k_, a_ in enumerate(ctor.args):
            if k_ < len(pn0):
                friendly.setdefault(a_, pn0[k_])
        for k_, v_ in ctor.kwargs:
            if k_ not in ('**', '='):
                friendly.setdefault(v_, k_)

        def fresh_name(base: str) -> str:
            n, k = base, 1
            while n in used_names:
                k += 1
                n = '%s_%d' % (base, k)
            used_names.add(n)
            return n
        # reads that only feed a BytesIO are sub-streams: collect them from every term in sight
        texts = [t for _n, t in env.items()] + [a for e in trail for a in e.args] + [e.callee for e in trail]
        substream_tokens = set(re.findall(r'(?:%s)\((RD_L\d+_\d+)\)' % '|'.join(re.escape(x) for x in STREAM_CTORS), ' '.join(texts)))
        depth = 0
        i = 0
        pending_loops: List[Tuple[int, Set[str]]] = []
        aliases: Dict[str, Set[str]] = {}
        pending_reads: List[Tuple[str, str]] = []    # (token, length term) not yet consumed by an unpack
        loop_index = 0
        while i < len(trail):
            e = trail[i]
            if e.kind == 'loop':
                if depth == 0:
                    self._flush(pending_reads, elems, friendly, fresh_name, substream_tokens)
                    # events of this loop up to its exit
                    j, d = i + 1, 1
                    while j < len(trail) and d > 0:
                        if trail[j].kind == 'loop':
                            d += 1
                        elif trail[j].kind == 'loopexit':
                            d -= 1
                        j += 1
                    inner = trail[i + 1:j]
                    self._last_paths = []
                    desc = self._describe_loop(e, inner, s, elems)
                    if desc is not None:
                        key = 'LOOP#%d' % len(pending_loops)
                        pending_loops.append((len(elems), self._loop_tokens(e, env, ctor)))
                        elems.append(('v', 'loop', desc, key))
                    else:
                        # a loop that only moves items around (``for x in gen(): acc.append(x)``): the list stands for
                        # what it was filled from
                        for _k, _c, evs_, _e in self._last_paths:
                            for e_ in evs_:
                                if e_.kind == 'append' and e_.args:
                                    for g_ in re.findall(r'(?:GEN|LIST)_L\d+_\d+', e_.args[0]):
                                        aliases.setdefault(g_, set()).add(e_.callee.rsplit('.', 1)[0])
                    i = j
                    continue
                depth += 1
            elif e.kind == 'read':
                tok = self._tok(e, 'RD')
                pending_reads.append((tok, e.args[0]))
            elif e.kind == 'unpack':
                arg = e.args[-1] if e.args else ''
                hit = [p for p in pending_reads if p[0] == arg]
                if hit:
                    pending_reads.remove(hit[0])
                    self._flush(pending_reads, elems, friendly, fresh_name, substream_tokens)
                    self._struct_fields(e, hit[0], elems, friendly, fresh_name)
            elif e.kind == 'unpack_from':
                # ``S.unpack_from(raw)`` at the very start of the buffer is the read of S.size bytes followed by S.unpack;
                # reads at computed offsets are not modelled
                fmt_ = self._fmt_of(e)
                args_ = list(e.args[1:]) if e.callee.rsplit('.', 1)[0] == 'struct' else list(e.args)
                off_ = args_[1] if len(args_) > 1 else dict(e.kwargs).get('offset', '0')
                if fmt_ is None or off_ != '0' or elems or pending_reads:
                    raise AnalysisError('%s: decode() reads the raw buffer at offset %s; only stream-based decoders (and a '
                                        'single struct at offset 0) are modelled' % (f.loc(), off_))
                import struct as _st
                self._struct_fields(e, ('RAW0', str(_st.calcsize(fmt_))), elems, friendly, fresh_name)
            elif e.kind == 'child':
                self._flush(pending_reads, elems, friendly, fresh_name, substream_tokens)
                tok = self._tok(e, 'CH')
                cls_name = self._child_class(e)
                if cls_name is None:
                    raise AnalysisError('%s: child decoder %s is not a codec class' % (f.loc(), e.callee))
                nm = fresh_name(friendly.get(tok, 'child%d' % len(elems)))
                self.fields[tok] = nm
                elems.append(('v', 'child', cls_name, nm))
            i += 1
        self._flush(pending_reads, elems, friendly, fresh_name, substream_tokens)
        # name the loops after the local / constructor argument their collection ends up in
        for idx, toks in pending_loops:
            closure = set(toks)
            for _r in range(3):
                for t_ in list(closure):
                    closure |= aliases.get(t_, set())
            nm = None
            for term, name in sorted(friendly.items(), key=lambda kv: (len(kv[0]), kv[1])):
                if name.isidentifier() and not name.startswith('__') and any(t_ in term for t_ in closure):
                    nm = name
                    break
            nm = fresh_name(nm or 'items')
            self.loop_results[nm] = closure
            elems[idx] = elems[idx][:3] + (nm,)
        # constructor arguments
        init = c.find_method('__init__')
        pnames = init.params[1:] if init else []
        ret_map: Dict[str, str] = {}
        conv = self.lx.dec_conv.setdefault(c.name, {})
        for k, a in enumerate(ctor.args):
            if k < len(pnames):
                ret_map[pnames[k]] = self._root_element(a)
                conv[pnames[k]] = (a, self._root_term(a))
        for k, v in ctor.kwargs:
            if k not in ('**', '='):
                ret_map[k] = self._root_element(v)
                conv[k] = (v, self._root_term(v))
        return elems, f, ret_map

    def _root_term(self, term: str) -> Optional[str]:
        """the raw field / read token the term is a conversion of"""
        best = None
        for ft in self.fields:
            if ft in term and (best is None or len(ft) > len(best)):
                best = ft
        return best

    loop_tokens: Dict[str, Any] = {}
    _last_paths: List[tuple] = []

    def _tok(self, e: Event, pref: str) -> str:
        # the token of the call is recorded as the event's '=' keyword by the client
        for k, v in e.kwargs:
            if k == '=':
                return v
        raise AnalysisError('%s: event %s carries no result token' % (self.f.loc(), e.callee))

    def _flush(self, pending, elems, friendly, fresh_name, substream_tokens):
        for tok, ln in pending:
            if tok in substream_tokens:
                self.sub_bounds[tok] = self._aff(ln)
                continue
            nm = fresh_name(friendly.get(tok) or self._friendly_conv(tok, friendly) or 'bytes%d' % len(elems))
            self.fields[tok] = nm
            elems.append(('v', 'read', self._aff(ln), nm))
        del pending[:]

    @staticmethod
    def _friendly_conv(tok: str, friendly: Dict[str, str]) -> Optional[str]:
        # a local bound to a conversion of the token (``name = uid.UID(RD.decode())``)
        for term, name in friendly.items():
            if tok in term and not name.startswith('__'):
                return name
        return None

    def _struct_fields(self, e: Event, read, elems, friendly, fresh_name):
        from .layout import parse_fmt
        tok, ln = read
        fmt = self._fmt_of(e)
        if fmt is None:
            raise AnalysisError('%s: unpack on unknown struct %s' % (self.f.loc(), e.callee))
        order, fields = parse_fmt(fmt)
        big = order in '>!'
        size = self._const(ln)
        if size is None:
            raise AnalysisError('%s.decode: read size %s of a fixed struct is not constant' % (self.c.name, ln))
        if size != sum(w for _, w in fields):
            self.lx.size_problems.setdefault(self.c.name, []).append(
                'reads %d bytes for struct %r of size %d' % (size, fmt, sum(w for _, w in fields)))
        call_term = '%s(%s)' % (e.callee, ', '.join(e.args))
        # locals bound to a slice of the unpacked tuple name the fields of that slice
        sliced: Dict[int, str] = {}
        for term, name in friendly.items():
            if term.startswith(call_term + '[') and ':' in term[len(call_term):]:
                se = _parse(term)
                if isinstance(se, ast.Subscript) and isinstance(se.slice, ast.Slice) and norm(se.value) == call_term:
                    lo = se.slice.lower.value if isinstance(se.slice.lower, ast.Constant) else 0
                    hi = se.slice.upper.value if isinstance(se.slice.upper, ast.Constant) else len(fields)
                    for k in range(lo, hi):
                        sliced[k] = '%s[%d]' % (name, k - lo)
                    self.fields[term] = name
        for k, (chh, w) in enumerate(fields):
            ft = '%s[%d]' % (call_term, k)
            nm = friendly.get(ft)
            if nm is None and k not in sliced:
                # a local bound to a conversion of this field (``x = x.strip(b'\\0').decode()``)
                cands = sorted((len(t_), n_) for t_, n_ in friendly.items() if ft in t_ and n_ != '_' and not n_.startswith('__'))
                if cands:
                    nm = cands[0][1]
            if nm is None and k in sliced:
                nm = sliced[k]
                used = True
            elif nm is None or nm == '_':
                nm = '_'
            else:
                nm = fresh_name(nm)
            self.fields[ft] = nm
            elems.append(('f', chh, w, big, nm, fmt))

    def _fmt_of(self, e: Event) -> Optional[str]:
        callee = e.callee
        base = callee.rsplit('.', 1)[0]
        be = _parse(base)
        if be is not None:
            sv = self.lx.struct_of(be, self.c)
            if sv is None:
                v = self.repo.try_fold(be, self.f.module, self.c)
                sv = v if isinstance(v, StructVal) else None
            if sv is not None:
                return sv.fmt
        if base == 'struct' and len(e.args) == 2:
            fe = _parse(e.args[0])
            if isinstance(fe, ast.Constant) and isinstance(fe.value, str):
                return fe.value
        return None

    def _const(self, term: str) -> Optional[int]:
        e = _parse(term)
        if e is None:
            return None
        if isinstance(e, ast.Constant) and isinstance(e.value, int):
            return e.value
        v = self.repo.try_fold(e, self.f.module, self.c)
        if isinstance(v, int):
            return v
        if isinstance(e, ast.Attribute) and e.attr == 'size':
            sv = self.lx.struct_of(e.value, self.c)
            if sv is None:
                v2 = self.repo.try_fold(e.value, self.f.module, self.c)
                sv = v2 if isinstance(v2, StructVal) else None
            if sv is not None:
                return sv.size
        return None

    def _child_class(self, e: Event) -> Optional[str]:
        base = e.callee.rsplit('.', 1)[0]
        be = _parse(base)
        if be is None:
            return None
        try:
            r = self.repo.resolve_expr(be, self.f.module, self.c)
        except NotConst:
            return None
        return r.name if isinstance(r, ClassRef) else None

    # ------------------------------------------------------------------ affine lengths over field names
    def _aff(self, term: str):
        from .layout import Affine
        e = _parse(term)
        if e is None:
            raise AnalysisError('%s.decode: length %s is not an expression' % (self.c.name, term))
        return self._aff_e(e)

    def _aff_e(self, e: ast.expr):
        from .layout import Affine
        txt = norm(e)
        if txt in self.fields:
            return Affine.sym(('name', self.fields[txt]))
        if isinstance(e, ast.Constant) and isinstance(e.value, int):
            return Affine.c(e.value)
        if isinstance(e, ast.BinOp) and isinstance(e.op, (ast.Add, ast.Sub)):
            a, b = self._aff_e(e.left), self._aff_e(e.right)
            return a + b if isinstance(e.op, ast.Add) else a - b
        if isinstance(e, ast.Call) and isinstance(e.func, ast.Name) and e.func.id == 'int' and len(e.args) == 1:
            return self._aff_e(e.args[0])
        if isinstance(e, ast.BoolOp) and isinstance(e.op, ast.Or) and len(e.values) == 2:
            # ``stream.read(n or -1)`` / ``n or None``: for every n but 0 this reads n bytes -- and for n == 0 it reads the rest
            # of the stream where zero bytes were announced.  The length is n; the zero case is a finding of its own.
            d = e.values[1]
            neg = (isinstance(d, ast.UnaryOp) and isinstance(d.op, ast.USub)) or (isinstance(d, ast.Constant) and (d.value is None or (
                isinstance(d.value, int) and d.value < 0)))
            if neg:
                msg = ('a field announced with length 0 is read with read(%s): the whole rest of the stream is taken for it and '
                       'everything after it is swallowed' % txt)
                lst = self.lx.size_problems.setdefault(self.c.name, [])
                if msg not in lst:
                    lst.append(msg)
                return self._aff_e(e.values[0])
        if isinstance(e, ast.IfExp):
            # ``-1 if n is None else n``: an announced length (an integer expression in the decoded fields) is never None
            t = e.test
            verdict = None
            if isinstance(t, ast.Constant):
                verdict = bool(t.value)
            elif isinstance(t, ast.Compare) and len(t.ops) == 1 and isinstance(t.ops[0], (ast.Is, ast.IsNot, ast.Eq, ast.NotEq)) \
                    and isinstance(t.comparators[0], ast.Constant) and t.comparators[0].value is None:
                try:
                    self._aff_e(t.left)
                    verdict = isinstance(t.ops[0], (ast.IsNot, ast.NotEq))
                except AnalysisError:
                    verdict = None
            if verdict is not None:
                return self._aff_e(e.body if verdict else e.orelse)
            if norm(e.body) == norm(e.orelse):
                return self._aff_e(e.body)
        v = self._const(txt)
        if v is not None:
            return Affine.c(v)
        raise AnalysisError('%s.decode: length expression %s not affine in the decoded fields' % (self.c.name, txt))

    def _root_element(self, term: str) -> str:
        """the element whose bytes the constructor argument is made of (conversions peeled off)"""
        if term in self.fields:
            return self.fields[term]
        best = None
        for ft, nm in self.fields.items():
            if ft in term and (best is None or len(ft) > len(best[0])):
                best = (ft, nm)
        if best is not None:
            return best[1]
        for nm, toks in self.loop_results.items():
            if any(t in term for t in toks):
                return nm
        return term

    # ------------------------------------------------------------------ loops
    loop_results: Dict[str, Set[str]] = {}

    def _loop_tokens(self, mark: Event, env, ctor: Event) -> Set[str]:
        """tokens standing for the collection this loop fills: the LIST it appends to, or the GEN call it runs in"""
        toks: Set[str] = set()
        for _k, _c, evs, _e in self._last_paths:
            for e in evs:
                if e.kind == 'append':
                    toks.add(e.callee.rsplit('.', 1)[0])
        if toks:
            return toks
        # a loop inside a generator: the GEN token of the innermost generator call whose function owns the loop
        for cl, node, _st in self.client.loops:
            if node.lineno == int(mark.callee[1:]) and cl.f.key == mark.fn and getattr(cl, 'gen_token', None):
                toks.add(cl.gen_token)
        return toks

    def _describe_loop(self, mark: Event, inner: List[Event], final: SymState, elems):
        from .layout import Affine, LoopDesc
        # the client, node and entry states registered at loop entry
        regs = [(cl, node, st) for cl, node, st in self.client.loops
                if node.lineno == int(mark.callee[1:]) and cl.f.key == mark.fn]
        if not regs:
            raise AnalysisError('%s: loop at line %s was not registered' % (self.f.loc(), mark.callee))
        cl, node, _ = regs[0]
        # loops that decode nothing (e.g. building a list from a generator's items) carry no layout
        flow = Flow(cl)
        starts = set()
        carried = set()
        for n in ast.walk(node):
            if isinstance(n, ast.AugAssign) and isinstance(n.target, ast.Name):
                carried.add(n.target.id)
        for _cl, _n, st in regs:
            st2 = SymState(st.env, st.heap, st.conds, (), None)
            for nm in carried:
                st2 = st2.set(nm, 'PRE_' + nm)
            starts.add((st2, tuple(sorted(st.env))))
        paths = []   # (kind, new conds, events, env)
        for st2, _k in starts:
            base_conds = set(st2.conds)
            if isinstance(node, ast.While):
                t, fset, exc = flow.cond(node.test, {st2})
                for sx in fset:
                    paths.append(('exit', [c_ for c_ in sx.conds if c_ not in base_conds], list(sx.trail), dict(sx.env)))
                o = flow.run(node.body, t)
            else:
                o = flow.run(node.body, set(cl.loop_bind(node, st2)))
            for sx in list(o.fall) + list(o.cont):
                paths.append(('next', [c_ for c_ in sx.conds if c_ not in base_conds], list(sx.trail), dict(sx.env)))
            for sx in list(o.brk) + [x for x, _r in o.ret]:
                paths.append(('exit', [c_ for c_ in sx.conds if c_ not in base_conds], list(sx.trail), dict(sx.env)))
            for sx, ex in o.exc:
                paths.append(('raise:' + ex, [c_ for c_ in sx.conds if c_ not in base_conds], list(sx.trail), dict(sx.env)))
        self._last_paths = paths
        nexts = [p for p in paths if p[0] == 'next']
        decoding = [p for p in nexts if any(e.kind == 'child' for e in p[2])]
        if not decoding:
            return None
        desc = LoopDesc('dispatch', node=node)
        entry_env = dict(regs[0][2].env)
        # a loop reading from BytesIO(<read of n bytes>) can consume exactly those n bytes
        for _k, _c, evs_, _e in paths:
            for e_ in list(evs_) + list(inner):
                for a_ in list(e_.args) + [e_.callee]:
                    m_ = re.search(r'(?:%s)\((RD_L\d+_\d+)\)' % '|'.join(re.escape(x) for x in STREAM_CTORS), a_)
                    if m_ and m_.group(1) in self.sub_bounds:
                        desc.bound = self.sub_bounds[m_.group(1)]
        # ---- counted loop: a test on a loop-carried counter
        counted = None
        for kind, conds, evs, env in paths:
            for cn in conds:
                ce = _parse(cn[1:]) if cn[:1] in '+-' else None
                if isinstance(ce, ast.Compare) and len(ce.ops) == 1:
                    l, r = norm(ce.left), norm(ce.comparators[0])
                    for side, other, flipped in ((l, r, False), (r, l, True)):
                        if side.startswith('PRE_') and side[4:] in carried:
                            counted = (side[4:], other, type(ce.ops[0]).__name__, cn[0], flipped, kind)
        tell = None
        for kind, conds, evs, env in paths:
            for cn in conds:
                ce = _parse(cn[1:]) if cn[:1] in '+-' else None
                if isinstance(ce, ast.Compare) and len(ce.ops) == 1 and norm(ce.left).endswith('.tell()'):
                    tell = (norm(ce.comparators[0]), type(ce.ops[0]).__name__, cn[0])
        if counted is not None:
            name, limit, op, pol, flipped, _k = counted
            desc.kind = 'counted'
            desc.bound = self._aff(limit)
            # the loop continues while counter != limit / counter < limit
            cont_ops = {('+', 'NotEq'), ('+', 'Lt'), ('-', 'Eq'), ('-', 'GtE')} if not flipped else \
                {('+', 'NotEq'), ('+', 'Gt'), ('-', 'Eq'), ('-', 'LtE')}
            stay = [(p, o_) for (n_, l_, o_, p, fl_, k_) in [counted]]
            # polarity seen on a 'next' path tells the continuing sense
            senses = set()
            for kind, conds, evs, env in nexts:
                for cn in conds:
                    ce = _parse(cn[1:]) if cn[:1] in '+-' else None
                    if isinstance(ce, ast.Compare) and ('PRE_' + name) in (norm(ce.left), norm(ce.comparators[0])):
                        senses.add((cn[0], type(ce.ops[0]).__name__))
            desc.counter_ok = bool(senses) and senses <= cont_ops
            inc_ok = True
            for kind, conds, evs, env in decoding:
                ch = [self._tok(e, 'CH') for e in evs if e.kind == 'child']
                want = ["AUG_%s(PRE_%s, 'Add', %s.total_length())" % (name, name, ch[-1]),
                        "AUG_%s(PRE_%s, 'Add', %s.total_length)" % (name, name, ch[-1])]
                if env.get(name) not in want:
                    inc_ok = False
            desc.counter_ok = desc.counter_ok and inc_ok
            desc.accepts = {'*': self._child_class([e for e in decoding[0][2] if e.kind == 'child'][-1])}
            desc.advances = True
            return desc
        if tell is not None:
            limit, op, pol = tell
            consumed = Affine.c(0)
            for el in elems:
                if el[0] == 'f':
                    consumed = consumed + Affine.c(el[2])
                elif el[1] == 'read':
                    consumed = consumed + el[2]
                else:
                    raise AnalysisError('%s: position-bounded loop on a stream whose start is not known' % self.f.loc())
            desc.kind = 'counted'
            desc.bound = self._aff(limit) - consumed
            desc.counter_ok = (pol, op) in {('+', 'Lt'), ('+', 'NotEq'), ('-', 'GtE'), ('-', 'Eq')}
            desc.accepts = {'*': self._child_class([e for e in decoding[0][2] if e.kind == 'child'][-1])}
            return desc
        # ---- type-driven loops
        def lit_of(conds) -> Tuple[Optional[Any], bool]:
            """(literal the peeked type is known to equal on this path, any type condition at all)"""
            lit, anyc = None, False
            for cn in conds:
                ce = _parse(cn[1:]) if cn[:1] in '+-' else None
                if ce is None:
                    continue
                if isinstance(ce, ast.Compare) and len(ce.ops) == 1:
                    l, r = ce.left, ce.comparators[0]
                    tk, other = (l, r) if is_tok(norm(l), 'PK') else (r, l) if is_tok(norm(r), 'PK') else (None, None)
                    if tk is None:
                        continue
                    anyc = True
                    v = self.repo.try_fold(other, self.f.module, self.c)
                    if (cn[0] == '+' and isinstance(ce.ops[0], ast.Eq)) or (cn[0] == '-' and isinstance(ce.ops[0], ast.NotEq)):
                        lit = v
                elif is_tok(norm(ce), 'PK'):
                    anyc = True
            return lit, anyc
        until_lits = set()
        table = None
        for kind, conds, evs, env in decoding:
            ch = [e for e in evs if e.kind == 'child'][-1]
            base = ch.callee.rsplit('.', 1)[0]
            be = _parse(base)
            cname = self._child_class(ch)
            lit, anyc = lit_of(conds)
            if cname is not None:
                if lit is not None:
                    desc.accepts[lit] = cname
                else:
                    desc.default = cname
                continue
            # table dispatch: TABLE.get(PK, Default) / TABLE[PK]
            if isinstance(be, ast.Call) and isinstance(be.func, ast.Attribute) and be.func.attr == 'get' and be.args \
                    and is_tok(norm(be.args[0]), 'PK'):
                tab = self.repo.try_fold(be.func.value, self.f.module, self.c)
                if isinstance(tab, dict):
                    desc.kind = 'table'
                    desc.table_name = norm(be.func.value)
                    desc.accepts.update({k: v.name for k, v in tab.items() if isinstance(v, ClassRef)})
                    if len(be.args) > 1:
                        try:
                            r = self.repo.resolve_expr(be.args[1], self.f.module, self.c)
                        except NotConst:
                            r = None
                        if isinstance(r, ClassRef):
                            desc.default = r.name
                    continue
            if isinstance(be, ast.Subscript) and is_tok(norm(be.slice), 'PK'):
                tab = self.repo.try_fold(be.value, self.f.module, self.c)
                if isinstance(tab, dict):
                    desc.kind = 'table'
                    desc.table_name = norm(be.value)
                    desc.accepts.update({k: v.name for k, v in tab.items() if isinstance(v, ClassRef)})
                    guarded = any(cn[1:].endswith(' in %s' % norm(be.value)) and cn[0] == '+' for cn in conds)
                    if not guarded:
                        desc.else_raises = True
                    continue
            raise AnalysisError('%s: child decoder %s in a loop is not a codec class or a table entry' % (self.f.loc(), ch.callee))
        for kind, conds, evs, env in paths:
            if kind.startswith('raise') and not any(e.kind == 'child' for e in evs):
                lit, anyc = lit_of(conds)
                if lit is None:
                    desc.else_raises = True
        # 'until': the loop goes on only while the peeked type equals the literal(s)
        exits = [p for p in paths if p[0] == 'exit' and not any(e.kind == 'child' for e in p[2])]
        all_lit = all(lit_of(p[1])[0] is not None for p in decoding) and desc.kind != 'table' and desc.default is None
        if all_lit and not desc.else_raises and exits and all(lit_of(p[1])[1] for p in exits) and len(desc.accepts) == 1:
            desc.kind = 'until'
        # does the loop look at the next type byte before the next iteration?
        desc.advances = True
        pk_names = [n_ for n_, t_ in entry_env.items() if is_tok(t_, 'PK')]
        test_peeks = isinstance(node, ast.While) and any(isinstance(n, ast.Call) and norm(n.func).endswith('_next_type')
                                                         for n in ast.walk(node.test))
        body_first_peek = False
        if not test_peeks and not pk_names:
            body_first_peek = True     # the type is peeked inside the body before it is used
        if not test_peeks and pk_names:
            for kind, conds, evs, env in decoding:
                for n_ in pk_names:
                    if env.get(n_) == entry_env.get(n_):
                        # same call site may re-peek: accept when a peek event follows the child decode
                        idx = max(k for k, e in enumerate(evs) if e.kind == 'child')
                        if not any(e.kind == 'peek' for e in evs[idx + 1:]):
                            desc.advances = False
        return desc
