"""C14 -- rejection, abort and release are reported faithfully to both sides.

Decided: field provenance along the refusal chain (exception -> reject() -> A-ASSOCIATE-RJ ->
exception), the mapping of received RJ / ABORT / RELEASE-RQ to library errors, no service on a
refused association, and the release/abort behaviour of the requesting context manager.
Wire positions of the fields are C02's.  Not decided: timing relative to DIMSE traffic."""
from __future__ import annotations

import ast

from ..fsm_model import exc_hierarchy
from ..srcmodel import AnalysisError, norm
from ..sym import SymClient, empty_state, is_token, token_class
from .c13 import assoc_event


def exc_ctor_map(repo, name):
    """parameter -> attribute for an exception class of exceptions.py: the attributes of ``self`` that hold a constructor
    parameter unchanged when ``__init__`` returns (direct assignments, helper methods, ``setattr`` over a table of pairs)"""
    from ..sym import SymClient, empty_state
    c = repo.cls('exceptions', name)
    init = c.find_method('__init__')
    out = {}
    if init is None:
        return [], out
    params = init.params[1:]
    cl = SymClient(repo, init, event_of=lambda *a: None, inline=lambda fi: fi.module.name == 'exceptions' and fi.name != '__init__')
    o = cl.run(empty_state())
    finals = [s for s, _r in o.ret] + list(o.fall)
    for p_ in params:
        attrs = None
        for s in finals:
            here = {f_ for t_, f_, v_ in s.heap if t_ == 'EXT:self' and v_ == p_}
            attrs = here if attrs is None else attrs & here
        if attrs:
            out[p_] = sorted(attrs)[0]
    return params, out


OCTET_SAMPLES = (0, 1, 2, 3, 7, 127, 128, 254, 255)


def _octet_domain(repo, hier, ev, fi, params, what):
    """the fields of A-ASSOCIATE-RJ / A-ABORT are one octet each (PS3.8 9.3.4, 9.3.8): with every parameter at a sample of 0..255
    (both ends included) the method raises nothing of its own and queues exactly one PDU carrying those values -- a validation
    added in front of the PDU must not refuse, clamp or replace a value the octet can carry"""
    out = []
    for v in OCTET_SAMPLES:
        c = SymClient(repo, fi, event_of=ev, hierarchy=hier, inline=repo.is_helper)
        fin = c.final_states(c.run(empty_state({p_: str(v) for p_ in params})))
        for s_, how in fin:
            if how.startswith('raise'):
                out.append('%s(%s) raises %s: %d is a value the octet can carry'
                           % (what, ', '.join(str(v) for _ in params), how.split(':', 1)[-1], v))
        for e_, s_ in c.log:
            if e_.kind == 'dul.send' and e_.args and is_token(e_.args[0]):
                fl = e_.fields(e_.args[0])
                got = [fl.get(k_) for k_ in ('@result', '@source', '@reason_diag') if k_ in fl]
                carried = [g_ for g_ in got if g_ is not None]
                if what == 'reject' and carried != [str(v)] * 3:
                    out.append('reject(%d, %d, %d) sends A-ASSOCIATE-RJ%s' % (v, v, v, tuple(carried)))
                if what == 'abort' and fl.get('@reason_diag') != str(v):
                    out.append('abort(%d) sends A-ABORT with reason %s' % (v, fl.get('@reason_diag')))
    return sorted(set(out))[:4]


def run(repo, rep):
    from ..pitfalls import memo_rule as _memo_rule
    _memo_rule(repo, rep, 'C14', 'C14.Z1')
    from ..pitfalls import log_rule as _log_rule
    _log_rule(repo, rep, 'C14', 'C14.Z2')
    from ..api_pitfalls import truth_rule as _truth_rule
    _truth_rule(repo, rep, 'C14', 'C14.Z4', extra_modules=('dulprovider',))
    from ..api_pitfalls import attribute_rule as _attribute_rule
    _attribute_rule(repo, rep, 'C14', 'C14.Z5')
    hier = exc_hierarchy(repo)
    acc = repo.cls('asceprovider', 'AssociationAcceptor')
    base = repo.cls('asceprovider', 'Association')
    rep.trust('C02 for the position of result / source / reason on the wire; CPython exception semantics')
    rep.rule('C14.J1', 'refusal chain: (result, source, diagnostic) of the application\'s AssociationRejectedError reach '
             'reject(), the A-ASSOCIATE-RJ constructor and the requestor\'s AssociationRejectedError position by position; '
             'a refused association is never accepted or served', 4)
    rep.rule('C14.J2', 'received A-RELEASE-RQ / A-ABORT / A-ASSOCIATE-RJ map to Released / Aborted(source, reason) / '
             'Rejected(result, source, reason); the acceptor answers a release with A-RELEASE-RP', 3)
    rep.rule('C14.J3', 'leaving a requested association normally releases it, leaving it through an exception aborts it; '
             'the exception is propagated', 1)

    rep.rule('C14.J4', 'a peer\'s final PDU (A-ABORT, A-ASSOCIATE-RJ, A-RELEASE-RP) that is already buffered is delivered before a '
             'transport close is turned into a synthetic provider abort: the reported source and reason are the peer\'s', 1)
    rep.rule('C14.J5', 'the cells of the state table through which a rejection, an abort or a release is carried out or reported -- '
             'events Evt4, Evt8, Evt11-Evt17 in every state, and every event in the release states Sta7-Sta12 -- have the '
             'effects and the next state of PS3.8 Table 9-10 (the C04 evaluation restricted to these cells): a release that '
             'is answered in the wrong state ends as an abort', 150)
    from ..fsm_model import FsmModel as _Fsm
    from .c04 import check_cells
    check_cells(_Fsm(repo), rep, rule_eff='C14.J5', rule_next='C14.J5',
                only=lambda e, s: e in (4, 8, 11, 12, 13, 14, 15, 16, 17) or 7 <= s <= 12)
    rep.rule('C14.J6', 'A-ASSOCIATE-RJ and A-ABORT carry result / source / reason in the bytes PS3.8 9.3.4 and 9.3.8 assign to them, in '
             'both directions (same analysis as C02.L1-L3 on these two classes): a peer that is not this library reads the triple '
             'the application gave', 2)
    from ..codec_rules import check_wire
    from ..layout import LayoutExtractor
    check_wire(LayoutExtractor(repo), rep, prefix='C14', only=('AAssociateRjPDU', 'AAbortPDU'),
               rule_map={'L1': 'J6', 'L2': 'J6', 'L3': 'J6', 'L5': 'J6', 'L6': 'J6'})
    from ..provider_model import ProviderModel
    from ..fsm_model import FsmModel
    from .c03 import buffer_anchor, drain_order_problems
    from ..srcmodel import AnalysisError as _AE
    pm_ = ProviderModel(repo, FsmModel(repo))
    rep.analysed(pm_.method('_check_network'))
    try:
        buffer_anchor(repo)
    except _AE as exc:
        rep.undecided('C14.J4', str(exc))
    else:
        probs_, n_app_ = drain_order_problems(pm_.paths('_check_network'))
        if n_app_ == 0:
            probs_.append('no path appends the received bytes to the buffer')
        rep.check(not probs_, 'C14.J4', 'dulprovider:DULServiceProvider._check_network:peer-pdu-before-close', pm_.method('_check_network').loc(),
                  'buffered PDUs are decoded before the socket is polled again', '; '.join(sorted(set(probs_))))

    # ---------------------------------------------------------------- J1a: _establish
    est = acc.find_method('_establish')
    if est is None:
        raise AnalysisError('AssociationAcceptor._establish not found')
    rep.analysed(est)

    def ev(call, callee, client, state):
        last = callee.rsplit('.', 1)[-1]
        if last in ('on_association_request', 'reject', 'accept', 'kill', '_establish', '_loop'):
            return last
        if callee.endswith('dul.send'):
            return 'dul.send'
        if callee.endswith('dul.receive'):
            return 'dul.receive'
        return None

    def est_raises(node, client, state):
        out = []
        for n in ast.walk(node):
            if isinstance(n, ast.Call):
                t = client.term(n.func, state, heap_ext=False)
                if t.endswith('on_association_request'):
                    out += ['AssociationRejectedError', 'Exception']
                if t.endswith('dul.receive'):
                    out += ['DCMTimeoutError']
        # bookkeeping on the way (statistics, audit records) that looks a peer- or application-given value up in a constant table
        # fails for every value outside the table -- before reject() is reached
        from ..excmodel import const_table_keyerror
        out += const_table_keyerror(node, client)
        return out
    c = SymClient(repo, est, event_of=ev, hierarchy=hier, raises_of=est_raises, store_event=lambda t: t == 'self.association_established')
    fin = c.final_states(c.run(empty_state()))
    probs = []
    n_rej = 0
    for s, how in fin:
        kinds = [e.kind for e in s.trail]
        rejected = any(cn.startswith('exc:AssociationRejectedError') for cn in s.conds)
        if rejected:
            n_rej += 1
            rj = [e for e in s.trail if e.kind == 'reject']
            if len(rj) != 1:
                probs.append('%d reject() calls on the refusal path%s' % (len(rj), ' (the path ends with %s: a look-up of the result in a '
                                                                            'constant table on the way fails for values outside it, so no '
                                                                            'A-ASSOCIATE-RJ is sent)' % how[6:] if how == 'raise:KeyError' else ''))
            else:
                hv = [cn for cn in s.conds if cn.startswith('exc:')]
                args = rj[0].args
                names = [a.split('.')[-1] for a in args]
                if len(args) != 3 or not all(a.startswith('EXC_') for a in args) or names != ['result', 'source', 'diagnostic']:
                    probs.append('reject() receives %s, expected the exception\'s (result, source, diagnostic)' % (args,))
            if 'accept' in kinds:
                probs.append('accept() is reachable after reject()')
            if not how.startswith('raise'):
                probs.append('the refusal is swallowed: _establish returns normally and the association is served')
            if any(e.kind == 'store' and e.args == ('True',) for e in s.trail):
                probs.append('association marked established on the refusal path')
        elif not how.startswith('raise'):
            acs = [e for e in s.trail if e.kind == 'accept']
            if len(acs) != 1 or acs[0].args != ('self.dul.receive(self.ae.timeout)',):
                probs.append('normal path does not accept the received request exactly once (%s)' % [e.args for e in acs])
            oar = [e for e in s.trail if e.kind == 'on_association_request']
            if not oar or oar[0].args != ('self', 'self.dul.receive(self.ae.timeout)'):
                probs.append('the application hook is not consulted with (association, request)')
            elif s.trail.index(oar[0]) > s.trail.index(acs[0]) if acs else False:
                probs.append('the application hook runs after accept()')
    if n_rej == 0:
        probs.append('a refusal by the application (AssociationRejectedError) is not handled')
    rep.check(not probs, 'C14.J1', 'asceprovider:AssociationAcceptor._establish:refusal', est.loc(),
              'hook consulted first; on refusal reject(result, source, diagnostic), re-raise, never accept (%d paths)' % len(fin),
              '; '.join(sorted(set(probs))))
    # J1b: reject -> PDU
    rj = acc.find_method('reject')
    rep.analysed(rj)
    c = SymClient(repo, rj, event_of=ev, hierarchy=hier)
    c.run(empty_state())
    probs = []
    sends = [(e, s) for e, s in c.log if e.kind == 'dul.send']
    p = rj.params[1:]
    if len(sends) != 1:
        probs.append('%d PDUs sent by reject()' % len(sends))
    else:
        tok = sends[0][0].args[0]
        fl = sends[0][0].fields(tok)
        if not (is_token(tok) and token_class(tok) == 'AAssociateRjPDU'):
            probs.append('reject() sends %s' % tok)
        elif [fl.get('@result'), fl.get('@source'), fl.get('@reason_diag')] != p[:3]:
            probs.append('A-ASSOCIATE-RJ built with result=%s source=%s reason=%s from parameters %s'
                         % (fl.get('@result'), fl.get('@source'), fl.get('@reason_diag'), p))
    probs += _octet_domain(repo, hier, ev, rj, p[:3], 'reject')
    rep.check(not probs, 'C14.J1', 'asceprovider:AssociationAcceptor.reject:pdu-fields', rj.loc(),
              'A-ASSOCIATE-RJ(result, source, reason) from the parameters in order, for every octet value', '; '.join(probs))
    # J1c / J2: _handle_errors
    he = base.find_method('_handle_errors')
    rep.analysed(he)
    mp = he.params[0] if he.kind == 'staticmethod' else he.params[1]
    c = SymClient(repo, he, event_of=lambda *a: None, hierarchy=hier)
    fin = c.final_states(c.run(empty_state()))
    want = {'AReleaseRqPDU': ('AssociationReleasedError', []),
            'AAbortPDU': ('AssociationAbortedError', ['source', 'reason_diag']),
            'AAssociateRjPDU': ('AssociationRejectedError', ['result', 'source', 'reason_diag'])}
    seen = {}
    probs = []
    for s, how in fin:
        if not how.startswith('raise:'):
            continue
        exc = how[6:]
        pos = [cn[1:] for cn in s.conds if cn.startswith('+')]
        cls_tested = None
        for t in pos:
            for k in want:
                if t in ('%s.pdu_type == pdu.%s.pdu_type' % (mp, k), 'pdu.%s.pdu_type == %s.pdu_type' % (k, mp),
                         'isinstance(%s, pdu.%s)' % (mp, k)):
                    cls_tested = k
        if cls_tested is None:
            probs.append('%s raised on an unrecognised condition %s' % (exc, s.conds))
            continue
        seen[cls_tested] = exc
        wexc, wfields = want[cls_tested]
        if exc != wexc:
            probs.append('a received %s is reported as %s, expected %s' % (cls_tested, exc, wexc))
            continue
        toks = [t for t, f_, v in s.heap if is_token(t) and token_class(t) == exc]
        fl = dict((f_, v) for t, f_, v in s.heap if toks and t == toks[0])
        params, amap = exc_ctor_map(repo, exc)
        got = [fl.get('@' + p_) for p_ in params]
        wantv = ['%s.%s' % (mp, f_) for f_ in wfields]
        if got[:len(wantv)] != wantv:
            probs.append('%s is built from %s, expected %s in the order of its parameters %s' % (exc, got, wantv, params))
        for p_ in params:
            if amap.get(p_) != p_ and not (p_ == 'diagnostic' and amap.get(p_) == 'diagnostic'):
                probs.append('%s.__init__ stores parameter %s into attribute %s' % (exc, p_, amap.get(p_)))
    for k, (wexc, _) in want.items():
        if k not in seen:
            probs.append('a received %s is not turned into %s' % (k, wexc))
    rep.check(not probs, 'C14.J2', 'asceprovider:Association._handle_errors:mapping', he.loc(),
              'RELEASE-RQ -> Released, ABORT -> Aborted(source, reason), RJ -> Rejected(result, source, reason)', '; '.join(sorted(set(probs))))
    rep.check(not [p_ for p_ in probs if 'Rejected' in p_ or 'AAssociateRjPDU' in p_], 'C14.J1',
              'asceprovider:Association._handle_errors:rejection-fields', he.loc(),
              'the requestor\'s AssociationRejectedError carries the PDU\'s result, source, reason in order',
              '; '.join(sorted(p_ for p_ in probs if 'Rejected' in p_ or 'AAssociateRjPDU' in p_)))
    # J2b: abort() of either side puts its source and the caller's reason into the A-ABORT
    for cname, src_want in (('AssociationAcceptor', '2'), ('AssociationRequester', '0')):
        af = repo.cls('asceprovider', cname).find_method('abort')
        if af is None:
            raise AnalysisError('%s.abort not found' % cname)
        rep.analysed(af)
        ca = SymClient(repo, af, event_of=ev, hierarchy=hier)
        ca.run(empty_state())
        pa = []
        snd = [(e, s) for e, s in ca.log if e.kind == 'dul.send']
        kl = [(e, s) for e, s in ca.log if e.kind == 'kill']
        if len(snd) != 1:
            pa.append('%d PDUs sent by abort()' % len(snd))
        else:
            tok = snd[0][0].args[0]
            fl = snd[0][0].fields(tok)
            if not (is_token(tok) and token_class(tok) == 'AAbortPDU'):
                pa.append('abort() sends %s' % tok)
            else:
                if fl.get('@reason_diag') != af.params[1]:
                    pa.append('A-ABORT reason is %s, not the reason given to abort()' % fl.get('@reason_diag'))
                if fl.get('@source') != src_want:
                    pa.append('A-ABORT source is %s, expected %s (%s)' % (fl.get('@source'), src_want,
                              'service-provider' if src_want == '2' else 'service-user'))
        pa += _octet_domain(repo, hier, ev, af, af.params[1:2], 'abort')
        if not kl:
            pa.append('abort() does not stop the association')
        elif snd and kl[0][0].line < snd[0][0].line:
            pa.append('the association is stopped before the A-ABORT is queued')
        rep.check(not pa, 'C14.J2', 'asceprovider:%s.abort:pdu-fields' % cname, af.loc(),
                  'A-ABORT(source %s, reason = argument) queued, then the association is stopped' % src_want, '; '.join(pa))
    # _get_dul_message: DIMSE tuples returned, PDUs mapped
    gm = base.find_method('_get_dul_message')
    rep.analysed(gm)
    # by paths: what is received is returned when it is a (DIMSE message, context) tuple, and handed to
    # _handle_errors otherwise, whatever the local is called
    from ..sym import SymClient as _SC, empty_state as _es
    gc_ = _SC(repo, gm, event_of=lambda call, callee, *_: 'handle' if callee.endswith('_handle_errors') else
              'receive' if callee.endswith('dul.receive') else None, hierarchy=hier,
              raises_of=lambda node, cl, st: ['NetDICOMError'] if False else [])
    go_ = gc_.run(_es())
    rcv = 'self.dul.receive(self.ae.timeout)'
    ok = True
    n_ret = n_err = 0
    for s_, how_ in gc_.final_states(go_):
        tuple_yes = ('+isinstance(%s, tuple)' % rcv) in s_.conds
        tuple_no = ('-isinstance(%s, tuple)' % rcv) in s_.conds
        handled = [e_ for e_ in s_.trail if e_.kind == 'handle']
        if how_ == 'return':
            n_ret += 1
            if not tuple_yes or s_.ret != rcv:
                ok = False
        else:
            n_err += 1
            if not tuple_no or not handled or handled[0].args[:1] != (rcv,):
                ok = False
    ok = ok and n_ret >= 1 and n_err >= 1
    rep.check(ok, 'C14.J2', 'asceprovider:Association._get_dul_message:dispatch', gm.loc(),
              'DIMSE messages are returned, anything else goes through _handle_errors', 'received PDUs are not passed to _handle_errors')
    # handle(): no service after refusal; release answered
    hf = acc.find_method('handle')
    rep.analysed(hf)

    def h_raises(node, client, state):
        out = []
        for n in ast.walk(node):
            if isinstance(n, ast.Call):
                t = client.term(n.func, state, heap_ext=False).rsplit('.', 1)[-1]
                if t == '_establish':
                    out += ['AssociationRejectedError', 'DCMTimeoutError', 'AssociationAbortedError', 'Exception']
                if t == '_loop':
                    out += ['AssociationReleasedError', 'AssociationAbortedError', 'DCMTimeoutError', 'Exception']
        return out
    c = SymClient(repo, hf, event_of=ev, hierarchy=hier, raises_of=h_raises)
    fin = c.final_states(c.run(empty_state()))
    probs = []
    rel_answered = False
    for s, how in fin:
        kinds = [e.kind for e in s.trail]
        if '_loop' in kinds and ('_establish' not in kinds or kinds.index('_loop') < kinds.index('_establish')):
            probs.append('_loop is reachable without a successful _establish')
        if any(cn.startswith('exc:') for cn in s.conds) and '_loop' in kinds and '_establish' in kinds:
            # the handler was entered after _establish: fine only if raised by _loop
            pass
        if any(cn.startswith('exc:AssociationReleasedError') for cn in s.conds):
            snd = [e for e in s.trail if e.kind == 'dul.send']
            if snd and is_token(snd[-1].args[0]) and token_class(snd[-1].args[0]) == 'AReleaseRpPDU':
                rel_answered = True
            else:
                probs.append('a release request is not answered with A-RELEASE-RP')
    # structural: _loop follows _establish in the same try body
    seq = [norm(n.value.func) for n in ast.walk(hf.node) if isinstance(n, ast.Expr) and isinstance(n.value, ast.Call)]
    if 'self._establish' not in seq or 'self._loop' not in seq or seq.index('self._establish') > seq.index('self._loop'):
        probs.append('handle() does not run _establish before _loop')
    if not rel_answered:
        probs.append('no path answers a release')
    rep.check(not probs, 'C14.J2', 'asceprovider:AssociationAcceptor.handle:release-and-order', hf.loc(),
              '_loop only after _establish returned; release answered with A-RELEASE-RP', '; '.join(sorted(set(probs))))
    rep.check(not [p_ for p_ in probs if '_loop' in p_ or '_establish' in p_], 'C14.J1', 'asceprovider:AssociationAcceptor.handle:no-service-after-refusal',
              hf.loc(), 'services run only after the association was accepted', '; '.join(p_ for p_ in probs if '_loop' in p_ or '_establish' in p_))

    # ---------------------------------------------------------------- J7
    from ..api_pitfalls import flag_after_reset_problems
    p7_, n7_ = flag_after_reset_problems(repo)
    rep.rule('C14.J7', 'how an association ended is decided on what it was: ``association_established`` is not tested after a call that '
             'clears it on the same object (kill(), and abort() / release() which end in it) -- such a test is always false, and what '
             'hangs on it (re-raise the body\'s exception as it is, or report a failed establishment) always goes one way', 1)
    rep.check(not p7_, 'C14.J7', 'package:association_established:read-after-clear', '',
              '%d function(s) examined, no read of the flag after it was cleared' % n7_, '; '.join(p7_))

    # ---------------------------------------------------------------- J3
    ra = repo.cls('applicationentity', 'AEBase').find_method('request_association')
    rep.analysed(ra)

    def ra_raises(node, client, state):
        out = []
        for n in ast.walk(node):
            if isinstance(n, ast.Yield):
                out.append('Exception')
            if isinstance(n, ast.Call):
                t = client.term(n.func, state, heap_ext=False)
                if t.rsplit('.', 1)[-1] in ('request',):
                    out.append('Exception')
        return out
    c = SymClient(repo, ra, event_of=assoc_event, hierarchy=hier, raises_of=ra_raises)
    fin = c.final_states(c.run(empty_state()))
    probs = []
    saw_normal = saw_exc = False
    for s, how in fin:
        kinds = [e.kind for e in s.trail]
        ys = [e for e in s.trail if e.kind == 'yield']
        est_pos = any(cn.endswith('.association_established') and cn.startswith('+') for cn in s.conds)
        est_neg = any(cn.endswith('.association_established') and cn.startswith('-') for cn in s.conds)
        in_exc = any(cn.startswith('exc:') for cn in s.conds)
        if ys and not in_exc:
            saw_normal = True
            if est_pos and 'release' not in kinds:
                probs.append('normal exit of an established association does not release it')
            if 'abort' in kinds:
                probs.append('normal exit aborts the association')
            if how.startswith('raise'):
                probs.append('normal exit raises %s' % how)
        if in_exc and 'request' in kinds:
            saw_exc = True
            if est_pos and 'abort' not in kinds:
                probs.append('exceptional exit of an established association does not abort it')
            if 'release' in kinds and ys and kinds.index('release') > kinds.index('yield') and est_pos and 'abort' not in kinds:
                probs.append('exceptional exit releases instead of aborting')
            if not how.startswith('raise'):
                probs.append('the exception of the body is swallowed')
            if est_neg and 'kill' not in kinds and 'abort' not in kinds:
                probs.append('a failed, not established association is neither aborted nor killed')
    if not saw_normal or not saw_exc:
        probs.append('normal / exceptional exit paths not both found (%s, %s)' % (saw_normal, saw_exc))
    rep.check(not probs, 'C14.J3', 'applicationentity:AEBase.request_association:release-or-abort', ra.loc(),
              'normal exit releases, exceptional exit aborts and re-raises (%d paths)' % len(fin), '; '.join(sorted(set(probs))))
