"""Rules over the codec layout terms shared by C01 (round trip) and C02 (wire format)."""
from __future__ import annotations

import ast
from typing import Dict, List, Optional, Tuple

from .layout import Affine, CodecLayout, LayoutExtractor, LoopDesc
from .oracles import ps3_8_layouts as OR
from .srcmodel import AnalysisError, ClassRef

PDU_CLASS_NAMES = ('AAssociateRqPDU', 'AAssociateAcPDU', 'AAssociateRjPDU', 'PDataTfPDU',
                   'AReleaseRqPDU', 'AReleaseRpPDU', 'AAbortPDU')


def key(lay: CodecLayout, what: str) -> str:
    return '%s:%s:%s' % (lay.cls.module.name, lay.cls.name, what)


def align(lay: CodecLayout) -> Tuple[List[Tuple[tuple, tuple]], List[str]]:
    """Pair encoder and decoder elements position by position."""
    problems = []
    pairs = []
    e, d = lay.enc, lay.dec
    n = min(len(e), len(d))
    for i in range(n):
        if e[i][0] != d[i][0]:
            problems.append('element %d: encoder writes a %s, decoder reads a %s'
                            % (i, 'fixed field' if e[i][0] == 'f' else 'variable part',
                               'fixed field' if d[i][0] == 'f' else 'variable part'))
            break
        pairs.append((e[i], d[i]))
    if len(e) != len(d) and not problems:
        problems.append('encoder writes %d elements, decoder reads %d' % (len(e), len(d)))
    return pairs, problems


def name_values(lay: CodecLayout, pairs) -> Dict[tuple, Affine]:
    """value (as affine over encoder symbols) of every decoder name bound to a fixed field"""
    out = {}
    for e, d in pairs:
        if e[0] != 'f':
            continue
        name = d[4]
        if name == '_':
            continue
        b = e[4]
        if b[0] == 'len':
            v = Affine.sym(('len', b[1]))
        elif b[0] == 'length':
            v = b[2]
        elif b[0] == 'const' and isinstance(b[1], int):
            v = Affine.c(b[1])
        elif b[0] == 'type' and isinstance(b[2], int):
            v = Affine.c(b[2])
        else:
            v = Affine.sym(('field', b[1] if len(b) > 1 else str(b)))
        out[('name', name)] = v
    return out


def attr_of_name(lay: CodecLayout, name: str) -> Optional[str]:
    """attribute that a decoder local ends up in via ``return cls(...)`` and ``__init__``"""
    base = name.split('[')[0]
    for p, n in lay.ret_map.items():
        if n == base:
            a = lay.ctor_map.get(p)
            if a is not None:
                return a + name[len(base):]
    return None


def enc_extent(lay: CodecLayout, pairs) -> Optional[Affine]:
    total = Affine.c(0)
    for i, e in enumerate(lay.enc):
        if e[0] == 'f':
            total = total + Affine.c(e[2])
        else:
            kind, attr = e[1], e[2]
            if kind == 'items':
                total = total + Affine.sym(('sum', attr))
            elif kind == 'bytes':
                total = total + Affine.sym(('len', attr))
            else:  # 'enc': text or child -- the decoder tells which
                d = lay.dec[i] if i < len(lay.dec) else None
                if d is not None and d[0] == 'v' and d[1] == 'child':
                    total = total + Affine.sym(('total', attr))
                else:
                    total = total + Affine.sym(('len', attr))
    return total


def check_roundtrip(lx: LayoutExtractor, rep, prefix='C01'):
    R = lambda r: '%s.%s' % (prefix, r)
    classes = lx.concrete_classes()
    w_ = lx.repo.table_writers('pdu', 'SUB_ITEM_TYPES')
    rep.check(not w_, R('O6'), 'pdu:SUB_ITEM_TYPES:constant-after-import', 'pynetdicom2/pdu.py',
              'no function re-binds or mutates the sub-item dispatch table', '; '.join(w_))
    p13, n13 = seek_target_problems(lx)
    rep.rule(R('O13'), 'a decoder that jumps to the end of its item by the declared length consumes exactly the item (same analysis as '
             'C02.L7): the jump target is start + header up to the length field + declared length', 1)
    rep.check(not p13, R('O13'), 'pdu+userdataitems:seek-targets', '', '%d end-of-item jump(s), each behind exactly the declared length' % n13,
              '; '.join(p13))
    p14, n14 = optional_child_problems(lx)
    rep.rule(R('O14'), 'an optional trailing sub-item is taken as present from its own header size on (a sub-item with an empty value is '
             'exactly its header): no presence test asks for more bytes than that', 1)
    rep.check(not p14, R('O14'), 'pdu+userdataitems:optional-children', '', '%d presence test(s) on remaining bytes, none stricter than the '
              'child\'s header' % n14, '; '.join(p14))
    p15, n15 = falsy_default_problems(lx)
    rep.rule(R('O15'), 'a numeric field keeps the value 0: no ``field or K`` with a non-zero constant K on a value that is packed into '
             'the item (0 is false, so it would be sent -- or kept after decoding -- as K; "missing" is ``is None``)', 1)
    rep.check(not p15, R('O15'), 'pdu+userdataitems:numeric-defaults', '', '%d packed field(s) examined, none defaulted by truth' % n15,
              '; '.join(p15))
    reachable = set()
    type_of = {}
    skipped_layouts = []
    for c in classes:
        # a codec class that was added after the rules were confirmed: its layout is read like the others' when the extractor
        # understands it; when not (element lists, nested length fields, seeks) the class is outside the model -- said once, as
        # undecided -- and only its type constant (a class attribute) takes part in the dispatch rule
        is_new = lx.repo.is_helper_class(c)
        if is_new:
            tconst = None
            for an_ in ('item_type', 'pdu_type'):
                hit_ = c.find_attr(an_)
                if hit_ is not None:
                    v_ = lx.repo.try_fold(hit_[1], hit_[0].module, hit_[0])
                    if isinstance(v_, int) and not isinstance(v_, bool):
                        tconst = v_
            try:
                lay_try = lx.layout(c)
                understood = lay_try.type_const is not None and lay_try.type_const == tconst
            except AnalysisError:
                understood = False
            if not understood:
                if tconst is not None:
                    type_of[c.name] = tconst
                skipped_layouts.append(c.name)
                rep.undecided(R('O1'), '%s: %s was added after the codec rules were confirmed and its encoder / decoder are not in a form '
                              'the layout extractor reads: its round trip is not decided' % (c.loc(), c.name))
                continue
        try:
            lay = lx.layout(c)
        except AnalysisError as exc_:
            # one class the extractor cannot read does not stop the others from being judged
            rep.undecided(R('O1'), str(exc_))
            skipped_layouts.append(c.name)
            for an_ in ('item_type', 'pdu_type'):
                hit_ = c.find_attr(an_)
                if hit_ is not None:
                    v_ = lx.repo.try_fold(hit_[1], hit_[0].module, hit_[0])
                    if isinstance(v_, int) and not isinstance(v_, bool):
                        type_of[c.name] = v_
            continue
        rep.analysed(lay.enc_f)
        rep.analysed(lay.dec_f)
        loc = c.loc()
        pairs, aprob = align(lay)
        # O1 ------------------------------------------------------------------
        p1 = list(aprob) + list(lx.size_problems.get(c.name, []))
        for k in c.mro()[1:]:
            p1 += lx.size_problems.get(k.name, [])
        # a special-case encoder path (taken for a stated number of items) must emit what the general path emits
        p1 += lx.special_path_problems(c)[1]
        for e, d in pairs:
            if e[0] == 'f':
                if (e[1], e[2], e[3]) != (d[1], d[2], d[3]):
                    p1.append('field %s: packed as %s%s (%d bytes), unpacked as %s%s (%d bytes)'
                              % (_bname(e[4]), '>' if e[3] else '<', e[1], e[2], '>' if d[3] else '<', d[1], d[2]))
        rep.check(not p1, R('O1'), key(lay, 'fixed-part'), loc,
                  '%d fixed fields: same struct layout on both sides, read sizes equal struct sizes' %
                  sum(1 for e in lay.enc if e[0] == 'f'), '; '.join(p1))
        # O2 ------------------------------------------------------------------
        p2 = []
        for e, d in pairs:
            if e[0] != 'f':
                continue
            b, name = e[4], d[4]
            if b[0] == 'attr':
                if name == '_':
                    p2.append('field %s is encoded but discarded by the decoder' % b[1])
                    continue
                a = attr_of_name(lay, name)
                if a != b[1]:
                    p2.append('encoder packs self.%s at this position, decoder stores it into %s'
                              % (b[1], 'self.' + a if a else 'nothing (local %s unused)' % name))
            elif b[0] in ('type', 'length', 'len', 'const'):
                if name != '_':
                    a = attr_of_name(lay, name)
                    ok_attr = (b[0] == 'type' and a == b[1]) or (b[0] == 'length' and a == b[1]) or a is None
                    if not ok_attr:
                        p2.append('%s field is stored by the decoder into self.%s' % (b[0], a))
            else:
                p2.append('packed expression %s not understood' % (b,))
        rep.check(not p2, R('O2'), key(lay, 'field-correspondence'), loc,
                  'every packed attribute is unpacked into the same attribute', '; '.join(p2))
        # O3 / O5 ---------------------------------------------------------------
        nv = name_values(lay, pairs)
        p3 = []
        n_var = 0
        for e, d in pairs:
            if e[0] != 'v':
                continue
            n_var += 1
            kind, attr = e[1], e[2]
            dk = d[1]
            a = attr_of_name(lay, d[3])
            if a != attr:
                p3.append('encoder writes self.%s here, decoder stores this part into %s' % (attr, 'self.' + a if a else 'nothing'))
            if kind == 'items':
                if dk != 'loop':
                    p3.append('self.%s is a sequence of items but is decoded by a single %s' % (attr, dk))
            elif kind == 'bytes' and dk != 'read':
                p3.append('raw bytes self.%s decoded by %s' % (attr, dk))
            elif kind == 'enc' and dk == 'loop':
                p3.append('single item self.%s decoded by a loop' % attr)
            if dk == 'read':
                ln = d[2].subst(nv)
                free = [k for k in ln.terms if k[0] == 'name']
                if free:
                    p3.append('length of %s depends on %s which is not a decoded field' % (attr, free))
                elif ln != Affine.sym(('len', attr)):
                    p3.append('decoder reads %s bytes for self.%s, encoder wrote len(%s) bytes' % (ln, attr, attr))
        rep.check(not p3, R('O3'), key(lay, 'variable-parts'), loc,
                  '%d variable part(s): same order, same attribute, bytes read = bytes written' % n_var, '; '.join(p3))
        # O4 ------------------------------------------------------------------
        p4 = []
        ext = enc_extent(lay, pairs)
        if lay.total is None:
            p4.append('no total_length')
        elif lay.total != ext:
            p4.append('total_length() = %s but encode() emits %s bytes' % (lay.total, ext))
        cons = Affine.c(0)
        for i, d in enumerate(lay.dec):
            if d[0] == 'f':
                cons = cons + Affine.c(d[2])
            elif d[1] == 'read':
                cons = cons + d[2].subst(nv)
            elif d[1] == 'child':
                a = attr_of_name(lay, d[3]) or d[3]
                cons = cons + Affine.sym(('total', a))
            else:
                ld: LoopDesc = d[2]
                a = attr_of_name(lay, d[3]) or d[3]
                if ld.bound is not None:
                    cons = cons + ld.bound.subst(nv)
                else:
                    cons = cons + Affine.sym(('sum', a))
        if cons != ext:
            p4.append('decode() consumes %s bytes of what encode() emitted as %s' % (cons, ext))
        rep.check(not p4, R('O4'), key(lay, 'extent'), loc,
                  'bytes emitted = total_length() = bytes consumed = %s' % ext, '; '.join(p4))
        # O9: value conversions are inverse of each other ----------------------------------
        # (a) decided by constant folding of the two extracted conversion terms at boundary values of the field: the
        #     attribute value goes through the encoder's expression, the fixed-width padding of the struct field, the
        #     decoder's expression and the constructor's, and must come back unchanged;  (b) where a term cannot be folded,
        #     the older shape rules below still apply.
        import ast as _ast
        from .srcmodel import norm as _norm
        p9a, undecided = conversion_round_trips(lx, lay)
        p9 = []
        dec_node = lay.dec_f.node
        enc_codecs, dec_codecs = set(), set()
        for fn_ in [lay.enc_f.node] + ([c.find_method('__init__').node] if c.find_method('__init__') else []) + \
                [m.node for m in c.methods.values() if m.kind == 'property']:
            for n in _ast.walk(fn_):
                if isinstance(n, _ast.Call) and isinstance(n.func, _ast.Attribute) and n.func.attr == 'encode' \
                        and (not n.args or isinstance(n.args[0], _ast.Constant) and isinstance(n.args[0].value, str)):
                    if fn_ is lay.enc_f.node and n.args == [] and isinstance(n.func.value, _ast.Attribute) and \
                            any(e_[0] == 'v' and e_[1] == 'enc' and e_[2] == n.func.value.attr and i_ < len(lay.dec) and lay.dec[i_][1] == 'child'
                                for i_, e_ in enumerate(lay.enc)):
                        continue  # child.encode()
                    enc_codecs.add((n.args[0].value if n.args else 'utf-8').lower().replace('utf8', 'utf-8'))
        fixed_s = any(e_[0] == 'f' and e_[1] == 's' for e_ in lay.enc)
        for n in _ast.walk(dec_node):
            if not isinstance(n, _ast.Call):
                continue
            fn_txt = _norm(n.func)
            last = fn_txt.rsplit('.', 1)[-1]
            if isinstance(n.func, _ast.Attribute) and last == 'decode':
                if n.args and isinstance(n.args[0], _ast.Name):
                    continue  # Child.decode(stream)
                if not n.args or (isinstance(n.args[0], _ast.Constant) and isinstance(n.args[0].value, str)):
                    dec_codecs.add((n.args[0].value if n.args else 'utf-8').lower().replace('utf8', 'utf-8'))
                    continue
            if isinstance(n.func, _ast.Attribute) and last in ('strip', 'rstrip', 'lstrip'):
                arg = n.args[0].value if n.args and isinstance(n.args[0], _ast.Constant) else None
                if arg != b'\0' or last == 'lstrip' or not fixed_s:
                    p9.append('%s(%s) on a decoded value removes characters the encoder may have written' %
                              (last, _norm(n.args[0]) if n.args else ''))
                continue
            if isinstance(n.func, _ast.Attribute) and last in ('lower', 'upper', 'replace', 'title', 'swapcase', 'zfill', 'ljust',
                                                                'rjust', 'center', 'split', 'rsplit', 'partition', 'translate'):
                p9.append('%s() on a decoded value is not undone by the encoder' % last)
        for n in _ast.walk(dec_node):
            if isinstance(n, _ast.Subscript) and isinstance(n.slice, _ast.Slice) and isinstance(n.value, _ast.Call) and \
                    'read' in _norm(n.value.func):
                p9.append('a value read from the stream is sliced (%s): bytes are dropped' % _norm(n))
        if enc_codecs and dec_codecs and enc_codecs != dec_codecs and not (enc_codecs <= {'utf-8', 'ascii'} and dec_codecs <= {'utf-8', 'ascii'}
                                                                           and ('utf-8' in enc_codecs) == ('utf-8' in dec_codecs)):
            p9.append('text is encoded with %s but decoded with %s' % (sorted(enc_codecs), sorted(dec_codecs)))
        if not undecided:
            p9 = [x for x in p9 if 'removes characters' not in x and 'is not undone' not in x and 'is sliced' not in x]
        p9 = p9a + p9
        rep.check(not p9, R('O9'), key(lay, 'value-conversions'), loc,
                  'decoder conversions (%s) are the inverse of the encoder\'s' % (', '.join(sorted(dec_codecs)) or 'none'), '; '.join(sorted(set(p9))))
        # loops: O6 / O7 / O8 -------------------------------------------------
        if lay.type_const is not None:
            type_of[c.name] = lay.type_const
        for d in lay.dec:
            if d[0] == 'v' and d[1] == 'child':
                reachable.add(d[2])
            if d[0] == 'v' and d[1] == 'loop':
                ld = d[2]
                attr = attr_of_name(lay, d[3]) or d[3]
                lkey = key(lay, 'loop(%s)' % attr)
                for lit, cname in ld.accepts.items():
                    reachable.add(cname)
                if ld.default:
                    reachable.add(ld.default)
                # O6 per dispatch entry (evaluated after all classes are known) -> collect
                rep.notes.setdefault('_dispatch', []).append((lay.cls.name, attr, dict(ld.accepts), ld.default, lkey, loc))
                # O7
                p7 = []
                is_pdu = c.name in PDU_CLASS_NAMES
                if ld.kind == 'counted':
                    if not ld.counter_ok:
                        p7.append('counted loop does not add each child\'s total_length to the counter / compare it with the declared length')
                elif ld.bound is not None:
                    pass
                elif ld.kind == 'until':
                    fol = OR.FOLLOWERS.get('%s.%s' % (c.name, attr))
                    if fol is None:
                        p7.append('loop ends on the first other type byte, and nothing is known about what may follow this container')
                    elif set(ld.accepts) & fol:
                        p7.append('accepted types %s overlap the types that may follow the container %s'
                                  % (sorted(ld.accepts), sorted(fol)))
                elif is_pdu and ld.kind in ('dispatch', 'table') and ld.default is None:
                    pass  # bounded by the end of the PDU buffer (C03.B2: the buffer is exactly one PDU)
                elif ld.default is not None or not ld.else_raises:
                    p7.append('sub-items are parsed with an open-ended dispatch (any type byte is accepted%s) until the end '
                              'of the stream and the item\'s own length field is ignored: items that follow the container '
                              'are swallowed as its children' % (', default %s' % ld.default if ld.default else ''))
                else:
                    p7.append('closed dispatch inside a nested item without a length bound')
                rep.check(not p7, R('O7'), lkey + ':bound', loc, '%s loop is bounded (%s)' %
                          (ld.kind, 'declared length' if (ld.bound is not None or ld.kind == 'counted') else
                           'closed type set' if ld.kind == 'until' else 'end of PDU buffer'), '; '.join(p7))
                rep.check(ld.advances, R('O8'), lkey + ':advance', loc,
                          'every iteration decodes one child (>= 4 header bytes) and re-reads the type',
                          'loop does not re-read the next type / decode a child on every iteration: it may spin forever')
    # O6: dispatch agreement
    for cname, attr, accepts, default, lkey, loc in rep.notes.pop('_dispatch', []):
        probs = []
        for lit, sel in accepts.items():
            if lit == '*':
                continue
            t = type_of.get(sel)
            if t != lit:
                probs.append('type byte 0x%02X selects %s whose item_type is %s' % (lit, sel, '0x%02X' % t if isinstance(t, int) else t))
        rep.check(not probs, R('O6'), lkey + ':dispatch', loc,
                  '%d dispatch literal(s) equal the item_type of the selected class' % len([k for k in accepts if k != '*']),
                  '; '.join(probs))
    # PDUs are reached through dulprovider.PDU_TYPES
    try:
        types = lx.repo.module_const('dulprovider', 'PDU_TYPES')
        for v in types.values():
            if isinstance(v, tuple) and v and isinstance(v[0], ClassRef):
                reachable.add(v[0].name)
    except Exception:
        pass
    for c in classes:
        if c.name not in reachable and skipped_layouts:
            continue      # (a container whose decoder was not read may be the one that dispatches to it: said above, as undecided)
        rep.check(c.name in reachable, R('O6'), '%s:%s:reachable' % (c.module.name, c.name), c.loc(),
                  'decoder is reachable from a dispatch / as a fixed child',
                  'no decoder dispatches to %s: it can be encoded but never decoded' % c.name)


def _bname(b) -> str:
    if b[0] in ('attr', 'len'):
        return ('len(%s)' if b[0] == 'len' else '%s') % b[1]
    return b[0]


# --------------------------------------------------------------------------- C02

def check_wire(lx: LayoutExtractor, rep, prefix='C02', only=None, rule_map=None):
    """``only``: restrict to these classes (and skip the converse-direction part); ``rule_map``: rename rule suffixes"""
    R = lambda r: '%s.%s' % (prefix, (rule_map or {}).get(r, r))
    classes = {c.name: c for c in lx.concrete_classes()}
    if only is None:
        for name, c in sorted(classes.items()):
            if name not in OR.LAYOUTS and lx.repo.is_helper_class(c):
                rep.undecided(R('L1'), '%s: %s is a codec class added after the layout table was transcribed: the standard\'s layout of '
                              'this item is not in the oracle, what it puts on the wire is not decided' % (c.loc(), name))
        # L7: a decoder that repositions the stream by the declared length lands behind the item
        p7, n7 = seek_target_problems(lx)
        rep.rule(R('L7'), 'a decoder that jumps to the end of its item (``stream.seek(end)`` with ``end`` computed from ``stream.tell()`` and '
                 'the declared length) lands on start + header-up-to-the-length-field + declared length: the bytes of the header that '
                 'were read after the length field are part of what the length counts', 1)
        rep.check(not p7, R('L7'), 'pdu+userdataitems:seek-targets', '', '%d end-of-item jump(s), each behind exactly the declared length' % n7,
                  '; '.join(p7))
        p8, n8 = falsy_default_problems(lx)
        rep.rule(R('L8'), 'a numeric field is sent as it is given, 0 included: no ``field or K`` (K a non-zero constant) on a value that is '
                 'packed into the item (same analysis as C01.O15)', 1)
        rep.check(not p8, R('L8'), 'pdu+userdataitems:numeric-defaults', '', '%d packed field(s) examined, none defaulted by truth' % n8,
                  '; '.join(p8))
    for name, spec in OR.LAYOUTS.items():
        if only is not None and name not in only:
            continue
        if name not in classes:
            rep.bad(R('L1'), 'pdu:%s:type' % name, '', 'codec class %s required by the standard layout table is missing' % name)
            continue
        c = classes[name]
        try:
            lay = lx.layout(c)
        except AnalysisError as exc_:
            rep.undecided(R('L1'), str(exc_))
            continue
        loc = c.loc()
        rep.analysed(lay.enc_f)
        # L1
        want = spec['type']
        if want == 'any':
            ok = lay.type_const is None and lay.type_attr == 'item_type'
            rep.check(ok, R('L1'), key(lay, 'type'), loc, 'type byte is the instance\'s own (generic sub-item)',
                      'generic sub-item must carry the type byte it was decoded with')
        elif want is None:
            rep.check(lay.type_const is None or lay.type_attr is None, R('L1'), key(lay, 'type'), loc,
                      'structure has no type byte', 'structure has no type byte in the standard')
        else:
            rep.check(lay.type_const == want, R('L1'), key(lay, 'type'), loc, 'type code %02XH' % want,
                      'type code is %s, standard: %02XH (%s)' % ('%02XH' % lay.type_const if isinstance(lay.type_const, int) else lay.type_const, want, spec['clause']))
        # L5: converse direction (values): a conformant encoding of a text field -- the value NUL-padded to the field
        # width, or exactly as long as its length field says -- decodes to that value
        p5, _und = conversion_round_trips(lx, lay)
        rep.check(not p5, R('L5'), key(lay, 'text-values'), loc, 'text fields decode to the value that was encoded',
                  '; '.join(p5))
        # L2
        p2 = []
        enc = list(lay.enc)
        i = 0
        after_len_offset = None
        offset = 0
        const_len = None
        for el in spec['fields']:
            if el[0] == 'f':
                _, fname, width, binding = el
                got = 0
                first = None
                while got < width and i < len(enc) and enc[i][0] == 'f':
                    if first is None:
                        first = enc[i]
                    if enc[i][2] > 1 and enc[i][1] != 's' and not enc[i][3]:
                        p2.append('%s: multi-byte field packed without big-endian byte order' % fname)
                    if enc[i][1] in 'bhilq':
                        p2.append('%s: packed with the signed code %r: the fields of PS3.8 / PS3.7 Annex D are unsigned binary numbers '
                                  '(values from 2^%d up decode as negative numbers and cannot be encoded)' % (fname, enc[i][1], 8 * enc[i][2] - 1))
                    got += enc[i][2]
                    i += 1
                    if binding != OR.R:
                        break
                if first is None:
                    p2.append('%s (%d bytes): encoder has no field here' % (fname, width))
                    continue
                if got != width:
                    p2.append('%s: %d byte(s) on the wire, standard: %d' % (fname, got, width))
                b = first[4]
                if binding == OR.L and b[0] == 'const' and type(b[1]) is int:
                    # a literal in the length position is a length field of that value (a structure without variable part)
                    b = ('length', None, Affine.c(b[1]))
                    const_len = b
                if binding == OR.T and b[0] != 'type':
                    p2.append('%s: encoder packs %s, standard: the type code' % (fname, _bname(b)))
                elif binding == OR.L and b[0] != 'length':
                    p2.append('%s: encoder packs %s, standard: the length field' % (fname, _bname(b)))
                elif binding == OR.R and b[0] not in ('attr', 'const'):
                    p2.append('%s: encoder packs %s into a reserved field' % (fname, _bname(b)))
                elif isinstance(binding, tuple) and binding[0] == 'attr' and b != ('attr', binding[1]):
                    p2.append('%s: encoder packs %s, standard field is carried by self.%s' % (fname, _bname(b), binding[1]))
                elif isinstance(binding, tuple) and binding[0] == 'len' and b != ('len', binding[1]):
                    p2.append('%s: encoder packs %s, standard: length of %s' % (fname, _bname(b), binding[1]))
                offset += got
                if binding == OR.L:
                    after_len_offset = offset
            else:
                _, kind, attr = el
                if i >= len(enc) or enc[i][0] != 'v':
                    p2.append('variable part %s: encoder has %s here' % (attr, 'a fixed field' if i < len(enc) else 'nothing'))
                    continue
                ek, ea = enc[i][1], enc[i][2]
                i += 1
                want_kind = {'text': 'enc', 'bytes': 'bytes', 'child': 'enc', 'items': 'items'}[kind]
                if ea != attr or ek != want_kind:
                    p2.append('variable part: encoder writes %s self.%s, standard: %s %s' % (ek, ea, kind, attr))
        if i != len(enc):
            p2.append('encoder emits %d more element(s) than the standard layout' % (len(enc) - i))
        n_sp, sp = lx.special_path_problems(c)
        p2.extend(sp)
        if n_sp:
            rep.notes.setdefault('special_encoder_paths', []).append('%s: %d' % (c.name, n_sp))
        rep.check(not p2, R('L2'), key(lay, 'field-order-width'), loc,
                  'order, widths, byte order and carried attribute of %d elements as in %s' % (len(spec['fields']), spec['clause']),
                  '; '.join(p2))
        # L3
        p3 = []
        pairs, _ = align(lay)
        ext = enc_extent(lay, pairs)
        lens = [e[4] for e in lay.enc if e[0] == 'f' and e[4][0] == 'length']
        if const_len is not None:
            lens.append(const_len)
        if len(lens) != 1:
            p3.append('%d length fields packed' % len(lens))
        elif after_len_offset is not None:
            want_len = ext - Affine.c(after_len_offset)
            if lens[0][2] != want_len:
                p3.append('length field = %s but %s bytes follow it' % (lens[0][2], want_len))
            if 'fixed_length' in spec and lens[0][2] != Affine.c(spec['fixed_length']):
                p3.append('length is %s, standard fixes it to %d' % (lens[0][2], spec['fixed_length']))
        if lay.total != ext:
            p3.append('total_length() = %s, bytes emitted = %s' % (lay.total, ext))
        rep.check(not p3, R('L3'), key(lay, 'length-field'), loc,
                  'length field governs exactly the bytes after it (%s); total_length() = bytes emitted' %
                  (lens[0][2] if lens else '-'), '; '.join(p3))
        # L6: a conformant value is never refused -- guards in front of the packer and in the constructor the decoder uses
        gp, n_raise = guard_problems(lx, c)
        rep.check(not gp, R('L6'), key(lay, 'guards'), loc, '%d raise path(s) in __init__ / encode, none for a value the field can carry' % n_raise,
                  '; '.join(gp))
    if only is not None:
        return
    # L4: converse direction, structural part
    ui = lx.layout(classes['UserInformationItem'])
    loops = [d for d in ui.dec if d[0] == 'v' and d[1] == 'loop']
    p = []
    if len(loops) != 1:
        p.append('user information sub-items are not parsed by one loop')
    else:
        ld = loops[0][2]
        if ld.kind != 'table':
            p.append('sub-items are not dispatched through a type table (fixed order expected)')
        if ld.default != 'GenericUserDataSubItem':
            p.append('unknown sub-item types do not fall back to the generic sub-item (default %s)' % ld.default)
        for code, cname in OR.SUB_ITEM_TYPES.items():
            if ld.accepts.get(code) != cname:
                p.append('sub-item type %02XH is decoded by %s, standard: %s' % (code, ld.accepts.get(code), cname))
        if ld.bound is None:
            p.append('the item length of the user information item does not delimit its sub-items')
    rep.check(not p, R('L4'), key(ui, 'sub-items-any-order'), ui.cls.loc(),
              'sub-items in any order, unknown types kept as generic, delimited by the item length', '; '.join(p))
    for pdu in ('AAssociateRqPDU', 'AAssociateAcPDU'):
        lay = lx.layout(classes[pdu])
        loops = [d for d in lay.dec if d[0] == 'v' and d[1] == 'loop']
        p = []
        if len(loops) != 1:
            p.append('variable items are not parsed by one loop')
        else:
            ld = loops[0][2]
            for code, cname in OR.VARIABLE_ITEM_TYPES.items():
                if ld.accepts.get(code) != cname:
                    p.append('item type %02XH is decoded by %s, standard: %s' % (code, ld.accepts.get(code), cname))
        rep.check(not p, R('L4'), key(lay, 'variable-items-any-order'), lay.cls.loc(),
                  'variable items dispatched by type in any order', '; '.join(p))
    rq = lx.layout(classes['PresentationContextItemRQ'])
    loops = [d for d in rq.dec if d[0] == 'v' and d[1] == 'loop']
    rep.check(len(loops) == 1 and loops[0][2].accepts == {0x40: 'TransferSyntaxSubItem'}, R('L4'),
              key(rq, 'several-transfer-syntaxes'), rq.cls.loc(), 'any number of transfer syntax sub-items is accepted',
              'transfer syntax sub-items are not looped over')
    pd = lx.layout(classes['PDataTfPDU'])
    loops = [d for d in pd.dec if d[0] == 'v' and d[1] == 'loop']
    okpd = len(loops) == 1 and loops[0][2].kind == 'counted' and loops[0][2].counter_ok
    why = 'PDV items are not looped over up to the PDU length'
    if okpd:
        # the bytes the loop may consume are exactly the value of the PDU-length field (PS3.8 9.3.5: the length counts
        # the PDV items, not the 6 header bytes)
        lenfields = [d[4] for d in pd.dec if d[0] == 'f' and d[1] in 'IL' and d[4] != '_']
        bnd = loops[0][2].bound
        if not lenfields or bnd != Affine.sym(('name', lenfields[-1])):
            okpd = False
            why = 'the PDV loop consumes %s bytes, the PDU-length field %s delimits exactly its own value' % (bnd, lenfields[-1:] or '?')
    rep.check(okpd, R('L4'), key(pd, 'several-pdvs'), pd.cls.loc(), 'any number of PDVs, delimited by the PDU length', why)


_TEXT_SAMPLES = ['', 'A', 'AB ', ' AB', 'a.b', '1.2.840.10008.1.1', 'ABCDEFGHIJKLMNO', 'ABCDEFGHIJKLMNOP', 'ABCDEFGHIJKLMNOPQRSTUVWXYZ0123456',
                 'jos\u00e9']


def conversion_round_trips(lx: LayoutExtractor, lay: CodecLayout):
    """-> (problems, undecided): for every attribute that is converted on its way to / from the wire, fold
    constructor(decoder(pad(encoder(value)))) at sample values and compare with the value."""
    import ast as _ast
    from .arith import CannotEvaluate, eval_value
    from .srcmodel import norm as _norm
    c = lay.cls
    problems: List[str] = []
    undecided = False
    encc = dict(lx.enc_conv.get(c.name, {}))
    for k in c.mro()[1:]:
        for a_, t_ in lx.enc_conv.get(k.name, {}).items():
            encc.setdefault(a_, t_)
    decc = lx.dec_conv.get(c.name, {})
    # attributes and the width of the fixed field that carries them
    carried: Dict[str, Optional[int]] = {}
    for e in lay.enc:
        if e[0] == 'f' and e[4][0] == 'attr' and e[1] == 's':
            carried[e[4][1]] = e[2]
        elif e[0] == 'v' and e[1] in ('enc', 'bytes') and not any(d[0] == 'v' and d[1] in ('child', 'loop') and
                                                                   attr_of_name(lay, d[3]) == e[2] for d in lay.dec):
            carried.setdefault(e[2], None)
            if e[1] == 'enc':
                encc.setdefault(e[2], 'self.%s.encode()' % e[2])
    init = c.find_method('__init__')
    inv = {a_: p_ for p_, a_ in lay.ctor_map.items()}
    for attr, width in sorted(carried.items()):
        E = encc.get(attr, 'self.%s' % attr)
        param = inv.get(attr)
        if param is None or param not in decc:
            continue
        term, root = decc[param]
        if root is None:
            continue
        D = term.replace(root, 'RAW')
        S = param
        if init is not None:
            for n in _ast.walk(init.node):
                if isinstance(n, _ast.Assign) and len(n.targets) == 1 and _norm(n.targets[0]) == 'self.%s' % attr:
                    S = _norm(n.value)
        try:
            Ee, De, Se = (_ast.parse(x, mode='eval') for x in (E, D, S))
        except SyntaxError:
            undecided = True
            continue
        # the attribute holds text or bytes: whichever the encoder's expression accepts
        kinds = []
        for conv in (lambda x: x, lambda x: x.encode('utf-8')):
            try:
                eval_value(Ee, {'self.%s' % attr: conv('A')})
                kinds.append(conv)
            except CannotEvaluate:
                continue
            except Exception:
                continue
        if not kinds:
            undecided = True
            continue
        conv = kinds[0]
        for sample in _TEXT_SAMPLES:
            A = conv(sample)
            if width is not None and len(sample.encode('utf-8')) > width:
                continue       # longer than the field: out of range for this attribute
            try:
                B = eval_value(Ee, {'self.%s' % attr: A})
            except CannotEvaluate:
                undecided = True
                break
            except (UnicodeError, ValueError):
                continue       # not a value this field can carry
            if not isinstance(B, bytes):
                undecided = True
                break
            if width is not None:
                if len(B) > width:
                    continue   # longer than the field: out of range
                B = B.ljust(width, b'\0')
            try:
                P = eval_value(De, {'RAW': B})
                A2 = eval_value(Se, {param: P})
            except CannotEvaluate:
                undecided = True
                break
            except Exception as exc:
                problems.append('self.%s = %r: the decoder\'s conversion %s raises %s on the bytes the encoder wrote'
                                % (attr, A, D, type(exc).__name__))
                continue
            if A2 != A or type(A2) is not type(A) and not (isinstance(A2, str) and isinstance(A, str)):
                problems.append('self.%s = %r comes back as %r (encoder %s%s, decoder %s)'
                                % (attr, A, A2, E, ', %d-byte field' % width if width else '', D))
                break
    return problems, undecided


def peek_problems(repo) -> Tuple[List[str], int, str]:
    """The look-ahead the container decoders rely on (``_next_type``): on every path through it the stream position is
    where it was -- a byte that was read is stepped back over with ``seek(-1, 1)`` (the end-of-stream path read nothing) --
    and the value returned is the integer value of the byte read, ``None`` only on the path whose read returned ``b''``."""
    from .sym import SymClient, empty_state
    fi = repo.func('pdu', '_next_type')
    if len(fi.params) != 1:
        raise AnalysisError('%s: the look-ahead takes %d parameters' % (fi.loc(), len(fi.params)))
    p = fi.params[0]

    def event_of(call, callee, client, state):
        if callee == p + '.read':
            return 'read'
        if callee == p + '.seek':
            return 'seek'
        if callee.startswith(p + '.'):
            return 'other'
        return None

    def fresh_of(call, callee, client, state):
        return 'RD' if callee == p + '.read' else None

    cl = SymClient(repo, fi, event_of=event_of, inline=lambda f: repo.is_helper(f), fresh_of=fresh_of)
    o = cl.run(empty_state({p: p}))
    probs: List[str] = []
    n = 0
    for s, how in cl.final_states(o):
        if how.startswith('raise'):
            continue
        n += 1
        evs = [e for e in s.trail if e.kind in ('read', 'seek', 'other')]
        reads = [e for e in evs if e.kind == 'read']
        if [e for e in evs if e.kind == 'other']:
            probs.append('line %d: the stream is also used through %s' % (evs[0].line, [e.callee for e in evs if e.kind == 'other'][0]))
            continue
        if len(reads) != 1 or reads[0].args != ('1',):
            probs.append('a path reads %s, not exactly one byte' % ([('read(%s)' % ','.join(e.args)) for e in reads] or 'nothing'))
            continue
        tok = None
        for e in s.trail:
            pass
        # the token of the read: the RD_ term bound at that line
        toks = sorted({t for t in _tokens_in(s, 'RD_')})
        tok = toks[0] if len(toks) == 1 else None
        empty = tok is not None and any(c.replace(' ', '') in (
            "+%s==b''" % tok, "-%s!=b''" % tok, "-%s" % tok, "+not%s" % tok, "+len(%s)==0" % tok, "-len(%s)" % tok,
            "-len(%s)==1" % tok, "+len(%s)!=1" % tok, "+len(%s)<1" % tok) for c in s.conds)
        seeks = [e for e in evs if e.kind == 'seek']
        ret = s.ret if how == 'return' else 'None'
        if empty:
            if seeks:
                probs.append('line %d: the end-of-stream path (nothing was read) moves the stream' % seeks[0].line)
            if ret not in (None, 'None'):
                probs.append('the end-of-stream path returns %s, the container loops stop on None' % ret)
            continue
        back = [e for e in seeks if tuple(a.replace(' ', '') for a in e.args) in (('-1', '1'), ('-1', 'os.SEEK_CUR'), ('-1', 'io.SEEK_CUR'))]
        if len(seeks) != 1 or len(back) != 1 or evs.index(back[0]) < evs.index(reads[0]):
            probs.append('line %d: a path that read a byte returns without stepping back over exactly that byte (%s)'
                         % (reads[0].line, ', '.join('seek(%s)' % ','.join(e.args) for e in seeks) or 'no seek'))
            continue
        r = (ret or 'None').replace(' ', '')
        ok = tok is not None and r in ("struct.unpack('B',%s)[0]" % tok, "struct.unpack('>B',%s)[0]" % tok, "struct.unpack('!B',%s)[0]" % tok,
                                       "struct.unpack('<B',%s)[0]" % tok, 'six.indexbytes(%s,0)' % tok, 'ord(%s)' % tok,
                                       'six.byte2int(%s)' % tok, "int.from_bytes(%s,'big')" % tok, "int.from_bytes(%s,'little')" % tok,
                                       'bytearray(%s)[0]' % tok, '%s[0]' % tok, '%s[-1]' % tok)   # (indexing bytes gives the integer: Python 3)
        if not ok and tok is not None:
            # ``S.unpack(tok)[0]`` / ``struct.unpack(FMT, tok)[0]`` with a struct constant of one unsigned byte
            try:
                re_ = ast.parse(ret or 'None', mode='eval').body
            except SyntaxError:
                re_ = None
            if isinstance(re_, ast.Subscript) and isinstance(re_.slice, ast.Constant) and re_.slice.value == 0 \
                    and isinstance(re_.value, ast.Call) and isinstance(re_.value.func, ast.Attribute) and re_.value.func.attr == 'unpack' \
                    and re_.value.args and ast.unparse(re_.value.args[-1]) == tok:
                from .srcmodel import StructVal
                fmt = None
                if ast.unparse(re_.value.func.value) == 'struct' and len(re_.value.args) == 2:
                    fmt = repo.try_fold(re_.value.args[0], fi.module, fi.cls)
                elif len(re_.value.args) == 1:
                    sv = repo.try_fold(re_.value.func.value, fi.module, fi.cls)
                    fmt = sv.fmt if isinstance(sv, StructVal) else None
                if isinstance(fmt, str) and fmt.replace(' ', '').lstrip('<>!=@') == 'B':
                    ok = True
        if not ok:
            probs.append('the value returned for a byte that was read is %s, not the integer value of that byte' % ret)
    if n == 0:
        raise AnalysisError('%s: no path through the look-ahead returns' % fi.loc())
    return probs, n, fi.loc()


def _tokens_in(s, prefix: str):
    import re as _re
    for _n, v in s.env:
        for m in _re.finditer(r'\b%s\w+' % prefix, v):
            yield m.group(0)
    for c in s.conds:
        for m in _re.finditer(r'\b%s\w+' % prefix, c):
            yield m.group(0)
    if s.ret:
        for m in _re.finditer(r'\b%s\w+' % prefix, s.ret):
            yield m.group(0)


_CODE_MAX = {'B': 0xFF, 'H': 0xFFFF, 'I': 0xFFFFFFFF, 'L': 0xFFFFFFFF, 'Q': 0xFFFFFFFFFFFFFFFF,
             'b': 0x7F, 'h': 0x7FFF, 'i': 0x7FFFFFFF, 'l': 0x7FFFFFFF, 'q': 0x7FFFFFFFFFFFFFFF}


def guard_problems(lx: LayoutExtractor, c) -> Tuple[List[str], int]:
    """Range guards in front of the packer: a ``raise`` the constructor or ``encode()`` of a codec class (with the helpers it
    calls) can reach must not be reachable for a value its field can carry.  For every path that ends in an explicit raise, every
    condition on a packed value -- an attribute, the constructor parameter stored into it, a length property -- is folded at the
    two ends of the field's range (0 and the largest value of its struct code); a path whose conditions on that value all hold
    at one of them rejects a legal value.  -> (problems, number of raise paths examined)"""
    from .arith import CannotEvaluate, eval_value
    from .fsm_model import exc_hierarchy
    from .provider_model import parse_cond
    from .srcmodel import FuncInfo
    from .sym import SymClient, empty_state
    repo = lx.repo
    lay = lx.layout(c)
    fields: Dict[str, Tuple[str, str]] = {}       # term -> (struct code, what it is)
    for e in lay.enc:
        if e[0] != 'f':
            continue
        code, b = e[1], e[4]
        if code not in _CODE_MAX:
            continue
        if b[0] == 'attr':
            fields['self.%s' % b[1]] = (code, b[1])
        elif b[0] == 'length' and b[1]:
            fields['self.%s' % b[1]] = (code, b[1])
    cmap = lx.ctor_map(c)
    for p_, a_ in cmap.items():
        if 'self.%s' % a_ in fields:
            fields[p_] = (fields['self.%s' % a_][0], a_)
    probs: List[str] = []
    n_paths = 0
    hier = exc_hierarchy(repo)
    for mname in ('__init__', 'encode'):
        f = c.find_method(mname)
        if f is None:
            continue
        fb = FuncInfo(f.module, c, f.name, f.node, f.kind, f.parent)
        cl = SymClient(repo, fb, event_of=lambda *a: None, hierarchy=hier, inline=repo.is_helper)
        o = cl.run(empty_state())
        for s, exc in o.exc:
            n_paths += 1
            parsed = [(pol, e_) for pol, e_ in (parse_cond(x) for x in s.conds) if e_ is not None]
            for term, (code, what) in fields.items():
                if mname == 'encode' and not term.startswith('self.'):
                    continue
                te = ast.parse(term, mode='eval').body
                key = ast.dump(te)
                rel = [(pol, e_) for pol, e_ in parsed if any(ast.dump(y) == key for y in ast.walk(e_)
                                                                 if isinstance(y, (ast.Name, ast.Attribute)))]
                if not rel:
                    continue
                # the test that guards this raise is the last one of the path: only then is the value what is being rejected
                if not parsed or not any(ast.dump(y) == key for y in ast.walk(parsed[-1][1]) if isinstance(y, (ast.Name, ast.Attribute))):
                    continue
                for v in (_CODE_MAX[code], 0):
                    holds = True
                    for pol, e_ in rel:

                        class S(ast.NodeTransformer):
                            def generic_visit(self_, n):
                                if isinstance(n, (ast.Name, ast.Attribute)) and ast.dump(n) == key:
                                    return ast.Constant(value=v)
                                if isinstance(n, (ast.Name, ast.Attribute, ast.Subscript)) and isinstance(getattr(n, 'ctx', None), ast.Load):
                                    # named limits and limit tables of the module
                                    cv = repo.try_fold(n, f.module, c)
                                    if cv is None:
                                        # (the condition may come from a helper of another module, inlined by the analysis)
                                        hits = [x for x in (repo.try_fold(n, m_, None) for m_ in repo.modules.values() if m_ is not f.module)
                                                if type(x) in (int, float, str, bytes) and not isinstance(x, bool)]
                                        cv = hits[0] if len(set(hits)) == 1 else None
                                    if type(cv) in (int, float, str, bytes) and not isinstance(cv, bool):
                                        return ast.Constant(value=cv)
                                return super().generic_visit(n)
                        import copy as _copy
                        try:
                            val = eval_value(S().visit(_copy.deepcopy(e_)), {})
                        except (CannotEvaluate, Exception):
                            holds = None
                            break
                        if bool(val) != pol:
                            holds = False
                            break
                    if holds:
                        probs.append('%s.%s raises %s for %s = %d (conditions %s): the field is packed as %r and carries every value up to %d'
                                     % (c.name, mname, exc, what, v, ' and '.join(x for x in s.conds if term.split('.')[-1] in x)[:160],
                                        code, _CODE_MAX[code]))
                        break
    return sorted(set(probs)), n_paths



def seek_target_problems(lx: LayoutExtractor) -> Tuple[List[str], int]:
    """Straight-line position arithmetic in the decoders of all codec classes: from the entry of ``decode(cls, stream)`` every
    ``stream.read(n)`` with a constant / struct-size n advances the position; the field unpacked from header bytes 2.. (2 bytes
    in items, 4 in PDUs) is the declared length L, which counts what follows it.  A local bound to ``stream.tell() + E`` at
    position q is q + E; a later ``stream.seek(local)`` must go to (offset where L's field ends) + L.
    -> (problems, number of such jumps examined)"""
    import struct as _st
    probs: List[str] = []
    n = 0
    repo = lx.repo
    for c in lx.classes.values():
        f = c.methods.get('decode')
        if f is None or len(f.params) < 2:
            continue
        sp = f.params[1]
        if not any(isinstance(x, ast.Call) and isinstance(x.func, ast.Attribute) and x.func.attr == 'seek'
                   and isinstance(x.func.value, ast.Name) and x.func.value.id == sp for x in ast.walk(f.node)):
            continue
        pos = 0                      # bytes read so far (None once it is no longer a constant)
        length_name = None
        length_end = None
        ends: Dict[str, Tuple[Optional[int], ast.expr, int]] = {}

        def const(e):
            v = repo.try_fold(e, f.module, c)
            return v if isinstance(v, int) and not isinstance(v, bool) else None
        for st in f.node.body:
            if isinstance(st, (ast.FunctionDef, ast.ClassDef)) or (isinstance(st, ast.Expr) and isinstance(st.value, ast.Constant)):
                continue
            if isinstance(st, (ast.For, ast.While, ast.If, ast.Try, ast.With)):
                break
            # bind: names = S.unpack(stream.read(N))
            if isinstance(st, ast.Assign) and len(st.targets) == 1 and isinstance(st.targets[0], ast.Tuple) and isinstance(st.value, ast.Call) \
                    and isinstance(st.value.func, ast.Attribute) and st.value.func.attr == 'unpack' and length_name is None and pos == 0:
                sv = lx.struct_of(st.value.func.value, c)
                if sv is not None:
                    from .layout import parse_fmt
                    try:
                        order, fields = parse_fmt(sv.fmt)
                    except Exception:
                        fields = []
                    off = 0
                    idx = 0
                    for ch, w in fields:
                        if ch != 'x':
                            if off == 2 and idx < len(st.targets[0].elts) and isinstance(st.targets[0].elts[idx], ast.Name):
                                length_name = st.targets[0].elts[idx].id
                                length_end = off + w
                            idx += 1
                        off += w
            # a local bound to tell() + E, evaluated at the current position
            if isinstance(st, ast.Assign) and len(st.targets) == 1 and isinstance(st.targets[0], ast.Name) \
                    and any(isinstance(x, ast.Call) and isinstance(x.func, ast.Attribute) and x.func.attr == 'tell' for x in ast.walk(st.value)):
                ends[st.targets[0].id] = (pos, st.value, st.lineno)
            # advance over the reads of this statement
            for x in ast.walk(st):
                if isinstance(x, ast.Call) and isinstance(x.func, ast.Attribute) and x.func.attr == 'read' and isinstance(x.func.value, ast.Name) \
                        and x.func.value.id == sp and pos is not None:
                    k = const(x.args[0]) if x.args else None
                    pos = pos + k if k is not None else None
        if length_name is None:
            continue
        for x in ast.walk(f.node):
            if isinstance(x, ast.Call) and isinstance(x.func, ast.Attribute) and x.func.attr == 'seek' and isinstance(x.func.value, ast.Name) \
                    and x.func.value.id == sp and len(x.args) == 1 and isinstance(x.args[0], ast.Name) and x.args[0].id in ends:
                q, expr, line = ends[x.args[0].id]
                if q is None:
                    continue
                n += 1
                from .arith import CannotEvaluate, eval_term

                class T(ast.NodeTransformer):
                    def visit_Call(self_, node):
                        if isinstance(node.func, ast.Attribute) and node.func.attr == 'tell':
                            return ast.Constant(value=q)
                        return self_.generic_visit(node)
                import copy as _copy
                e2 = T().visit(_copy.deepcopy(expr))
                vals = []
                try:
                    for L in (0, 10, 300):
                        vals.append(eval_term(e2, {length_name: L}) - L)
                except (CannotEvaluate, TypeError):
                    continue
                if len(set(vals)) != 1:
                    continue
                if vals[0] != length_end:
                    probs.append('%s.decode line %d: %s = %s is computed after %d header byte(s) were read, so the jump goes to start + %d + %s; '
                                 'the length field ends at offset %d and counts everything behind it: the target is %d byte(s) %s'
                                 % (c.name, line, x.args[0].id, ast.unparse(expr), q, vals[0], length_name, length_end,
                                    abs(vals[0] - length_end), 'too far (the next item is entered in its middle)' if vals[0] > length_end else 'short'))
    return sorted(set(probs)), n


def falsy_default_problems(lx: LayoutExtractor) -> Tuple[List[str], int]:
    """``x or K`` (K a non-zero integer constant) applied to a value a codec class packs with ``struct``: the legal value 0 is
    replaced by K -- in the constructor (what decode() returns then differs from the bytes), or on the way into pack() (what is
    sent differs from the field).  -> (problems, number of packed names examined)"""
    probs: List[str] = []
    n = 0
    for c in lx.classes.values():
        packed = set()
        for fn in c.methods.values():
            for x in ast.walk(fn.node):
                if isinstance(x, ast.Call) and isinstance(x.func, ast.Attribute) and x.func.attr in ('pack', 'pack_into'):
                    for a in x.args:
                        for y in ast.walk(a):
                            if isinstance(y, ast.Attribute) and isinstance(y.value, ast.Name) and y.value.id == 'self':
                                packed.add(y.attr)
        n += len(packed)
        if not packed:
            continue
        for fn in c.methods.values():
            for x in ast.walk(fn.node):
                if isinstance(x, ast.BoolOp) and isinstance(x.op, ast.Or) and len(x.values) == 2 \
                        and isinstance(x.values[1], ast.Constant) and type(x.values[1].value) is int and x.values[1].value != 0:
                    v0 = x.values[0]
                    nm = v0.attr if isinstance(v0, ast.Attribute) else v0.id if isinstance(v0, ast.Name) else None
                    if nm in packed:
                        probs.append('%s: ``%s`` -- %s is packed as a number and 0 is a value it may have (%s.%s line %d)'
                                     % (fn.loc(x), ast.unparse(x), nm, c.name, fn.name, x.lineno))
    return sorted(set(probs)), n


def optional_child_problems(lx: LayoutExtractor) -> Tuple[List[str], int]:
    """An optional trailing sub-item is present exactly when the bytes the declared length leaves are at least the sub-item's own
    header: a sub-item with an empty value *is* its header (the library sends ``TransferSyntaxSubItem('')`` in refused contexts).
    A presence test ``len(rest) > Child.header.size`` (or ``>= size + 1``) drops such a child; ``>=`` the header size, ``> 0`` and
    plain truth are right.  -> (problems, number of presence tests examined)"""
    probs: List[str] = []
    n = 0
    repo = lx.repo
    for c in lx.classes.values():
        f = c.methods.get('decode')
        if f is None:
            continue
        for x in ast.walk(f.node):
            if not (isinstance(x, ast.If) and isinstance(x.test, ast.Compare) and len(x.test.ops) == 1):
                continue
            l, r, op = x.test.left, x.test.comparators[0], x.test.ops[0]
            if not (isinstance(l, ast.Call) and isinstance(l.func, ast.Name) and l.func.id == 'len' and len(l.args) == 1):
                continue
            decoded = [y for b in x.body for y in ast.walk(b) if isinstance(y, ast.Call) and isinstance(y.func, ast.Attribute)
                       and y.func.attr == 'decode' and isinstance(y.func.value, ast.Name) and y.func.value.id in lx.classes]
            if not decoded:
                continue
            child = lx.classes[decoded[0].func.value.id]
            k = repo.try_fold(r, f.module, c)
            hdr = None
            hit = child.find_attr('header')
            if hit is not None:
                sv = repo.try_fold(hit[1], hit[0].module, hit[0])
                hdr = getattr(sv, 'size', None)
                if hdr is None and hasattr(sv, 'fmt'):
                    import struct as _st
                    try:
                        hdr = _st.calcsize(sv.fmt)
                    except Exception:
                        hdr = None
            if not isinstance(k, int) or not isinstance(hdr, int):
                continue
            n += 1
            least = k + 1 if isinstance(op, ast.Gt) else k if isinstance(op, ast.GtE) else None
            if least is not None and least > hdr:
                probs.append('%s.decode line %d: the optional %s is decoded only when %s, i.e. from %d bytes on; a %s with an empty value is '
                             'its %d-byte header alone (the library sends such items itself): it is read and thrown away, the item does '
                             'not come back as it was sent' % (c.name, x.lineno, child.name, ast.unparse(x.test), least, child.name, hdr))
    return sorted(set(probs)), n
