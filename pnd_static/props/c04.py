"""C04 -- the state machine performs the PS3.8 Table 9-10 action and transition in every cell."""
from __future__ import annotations

import ast
from typing import List

from ..flow import Client, Flow, attr_chain, calls_in
from ..fsm_model import (FsmModel, NONE, TOP, cell_context, summarize_outcome)
from ..oracles import ps3_8
from ..srcmodel import AnalysisError, body_without_docstring, norm

TABLE_KEY = 'fsm:StateMachine.transition_table[%s,%s]'


def cell_key(e: int, s: int) -> str:
    return TABLE_KEY % ('EVT_%d' % e, 'STA_%d' % s)


def describe(summary, nxt) -> str:
    parts = []
    if summary['send']:
        parts.append('sends %s' % '+'.join(sorted(summary['send'])))
    if summary['indicate']:
        parts.append('indicates %s' % '+'.join(sorted(summary['indicate'])))
    if summary['close'] or summary['unset']:
        parts.append('close()x%d, socket=None x%d' % (summary['close'], summary['unset']))
    if summary['connect'] or summary['newsock']:
        parts.append('connects')
    if summary['timer']:
        parts.append('timer->%s' % summary['timer'])
    parts.append('next %s' % nxt)
    return ', '.join(parts)


def describe_alt(alt) -> str:
    parts = []
    if alt['send']:
        parts.append('send %s' % '+'.join(sorted(alt['send'])))
    if alt['indicate']:
        parts.append('indicate %s' % '+'.join(sorted(alt['indicate'])))
    if alt['close']:
        parts.append('close transport')
    if alt['connect']:
        parts.append('connect')
    if alt['timer']:
        parts.append('ARTIM->%s' % alt['timer'])
    parts.append('next Sta%d' % alt['next'])
    if alt['when']:
        parts.append('when ' + alt['when'])
    return ', '.join(parts)


def effects_match(summary, alt, action_id) -> List[str]:
    """-> list of differences (empty = the effects are those of the alternative)."""
    diffs = []
    if summary['send'] != alt['send']:
        diffs.append('sends %s, standard: %s' % (sorted(summary['send']) or 'nothing', sorted(alt['send']) or 'nothing'))
    elif alt['send'] and summary['n_send'] != 1:
        diffs.append('sends %d PDUs, standard: one' % summary['n_send'])
    ind_ok = summary['indicate'] == alt['indicate']
    if alt['indicate'] == frozenset(['P-DATA']) and not summary['indicate']:
        ind_ok = True  # P-DATA is indicated only once the DIMSE message is complete (C07.D4)
    if not ind_ok:
        diffs.append('indicates %s, standard: %s' % (sorted(summary['indicate']) or 'nothing',
                                                      sorted(alt['indicate']) or 'nothing'))
    elif alt['indicate'] and summary['n_indicate'] > 1:
        diffs.append('gives %d indications, standard: one' % summary['n_indicate'])
    if alt['close']:
        if summary['close'] < 1 or summary['unset'] < 1:
            diffs.append('transport not closed and released (close() x%d, dul_socket=None x%d)'
                         % (summary['close'], summary['unset']))
        elif 'close' in summary['order'] and 'unset' in summary['order'] and \
                summary['order'].index('unset') < summary['order'].index('close'):
            diffs.append('dul_socket dropped before close()')
    else:
        if summary['close'] or summary['unset']:
            diffs.append('closes/releases the transport, standard does not')
    if alt['connect'] != bool(summary['connect'] and summary['newsock']):
        diffs.append('transport connect %s, standard: %s' % (bool(summary['connect']), alt['connect']))
    if summary['timer'] != alt['timer']:
        diffs.append('ARTIM net effect %s, standard: %s' % (summary['timer'], alt['timer']))
    want_src = ps3_8.ABORT_SOURCE.get(action_id)
    if want_src is not None and summary['send_src'] and summary['send_src'] != frozenset([want_src]):
        diffs.append('A-ABORT source %s, standard: %d' % (sorted(summary['send_src']), want_src))
    return diffs


def check_cells(model: FsmModel, rep, rule_eff='C04.T3', rule_next='C04.T4', only=None):
    """Evaluate every defined cell (``only``: a predicate on (event, state) selecting a subset); returns
    {(e,s): [(outcome, summary)]} for reuse."""
    results = {}
    for (e, s), action_id in sorted(ps3_8.TABLE.items()):
        if only is not None and not only(e, s):
            continue
        en, sn = 'EVT_%d' % e, 'STA_%d' % s
        meth = model.table.get((en, sn))
        if meth is None:
            if only is not None:
                rep.bad(rule_eff, cell_key(e, s), model.sm.loc(), 'cell (Evt%d, Sta%d) of Table 9-10 is not in the transition table' % (e, s))
            continue
        prim, sock = cell_context(e, s)
        f = model.sm.find_method(meth)
        rep.analysed(f)
        outs = model.summarize(meth, prim, sock)
        alts = ps3_8.ACTIONS[action_id]
        cause = ps3_8.EVENTS[e]
        exc_alts = []
        if cause[0] == 'pdu' and (19, s) in ps3_8.TABLE:
            exc_alts = ps3_8.ACTIONS[ps3_8.TABLE[(19, s)]]
        key = cell_key(e, s)
        loc = f.loc()
        cell_res = []
        bad_eff = []
        bad_next = []
        n_ret = 0
        held_ = []
        for o in outs:
            if o.kind != 'return':
                continue
            n_ret += 1
            summ = summarize_outcome(o)
            cell_res.append((o, summ))
            nxt = o.next
            cand = [a for a in alts if a['when'] in (None, o.role)]
            if o.exc_path:
                cand = cand + list(exc_alts)
            best = None
            for a in cand:
                d = effects_match(summ, a, action_id)
                nd = [] if nxt == 'STA_%d' % a['next'] else ['returns %s, standard: Sta%d' % (nxt, a['next'])]
                if best is None or len(d) + len(nd) < len(best[0]) + len(best[1]):
                    best = (d, nd, a)
            d, nd, a = best
            if o.exc_path and d and all(x_.startswith('sends nothing') or x_.startswith('closes/releases the transport') for x_ in d) \
                    and any(x_.startswith('sends nothing') for x_ in d) and not nd \
                    and any(cn_ == 'exc:OSError' for cn_ in o.conds) \
                    and not any(cn_.startswith('exc:') and cn_ != 'exc:OSError' and not (cn_ == 'exc:Exception' and any(a is x_ for x_ in exc_alts))
                                for cn_ in o.conds):
                # the prescribed transmission was attempted and failed (the handler around sendall() was entered): on a broken
                # transport nothing can be sent; the sibling path on which the send succeeds is judged on its own
                held_.append((o, d, a))
                continue
            ctx = ' [role %s]' % o.role if any(x['when'] for x in alts) else ''
            if o.conds:
                ctx += ' [path %s]' % ' '.join(o.conds)
            if d:
                bad_eff.append('%s(): %s%s -- %s requires: %s' % (meth, '; '.join(d), ctx, action_id, describe_alt(a)))
            if nd:
                bad_next.append('%s(): %s%s (%s)' % (meth, '; '.join(nd), ctx, action_id))
        if held_ and not any(not o_.exc_path for o_, _s in cell_res):
            for o_, d_, a_ in held_:
                bad_eff.append('%s(): %s -- %s requires: %s' % (meth, '; '.join(d_), action_id, describe_alt(a_)))
        if n_ret == 0:
            bad_eff.append('%s(): no path returns normally in this cell (primitive %s)' % (meth, sorted(prim)))
        # a cell whose action transmits nothing and connects nothing has no transport operation that may fail: whatever the
        # action raises there (say, shutdown() of a connection the peer has already reset) ends it before the prescribed close /
        # next state and costs the user a second, spurious indication from the provider's last-resort handler
        if not any(a['send'] or a['connect'] for a in alts):
            for o in outs:
                if o.kind == 'raise' and not (o.exc_path and any(a['send'] for a in exc_alts)):
                    bad_eff.append('%s(): may raise %s in a cell that puts nothing on the wire: the action ends without %s'
                                   % (meth, o.exc, describe_alt(alts[0])))
        results[(e, s)] = cell_res
        what_ok = '%s -> %s(): effects equal %s on %d path(s)' % (key, meth, action_id, n_ret)
        rep.check(not bad_eff, rule_eff, key, loc, what_ok, ' | '.join(sorted(set(bad_eff))))
        rep.check(not bad_next, rule_next, key, loc,
                  '%s(): next state as %s prescribes' % (meth, action_id), ' | '.join(sorted(set(bad_next))))
    return results


# --------------------------------------------------------------------------- T5

class _LookupState(tuple):
    pass


class LookupClient(Client):
    """Abstract interpretation of StateMachine.action: what happens when the
    (event, state) key is *not* in the table.  State = (world, var values, effects)."""

    def __init__(self, model: FsmModel, f):
        self.model = model
        self.f = f
        self.hierarchy = model.hier
        self._pending_exc = set()

    # state: (world, frozenset((var, 'action'|'none'|'default:<txt>')), effects tuple)
    @staticmethod
    def init():
        return ('unknown', frozenset(), ())

    def _is_table(self, e) -> bool:
        return attr_chain(e) in (('self', 'transition_table'),)

    def _lookup_in(self, node):
        """-> ('sub', node) | ('get', call) | None for the first table lookup in node."""
        for n in ast.walk(node):
            if isinstance(n, ast.Subscript) and self._is_table(n.value) and isinstance(n.ctx, ast.Load):
                return ('sub', n)
            if isinstance(n, ast.Call) and isinstance(n.func, ast.Attribute) and n.func.attr == 'get' \
                    and self._is_table(n.func.value):
                return ('get', n)
        return None

    def _effects(self, node, state):
        world, vars_, eff = state
        for call in calls_in(node):
            fn = call.func
            txt = norm(fn)
            if isinstance(fn, ast.Name) and any(v == fn.id for v, _ in vars_):
                val = dict(vars_)[fn.id]
                eff = eff + (('act', val),)
                continue
            if isinstance(fn, ast.Subscript) and self._is_table(fn.value):
                eff = eff + (('act', 'action'),)
                continue
            if isinstance(fn, ast.Attribute) and fn.attr == 'get' and self._is_table(fn.value):
                continue
            if isinstance(fn, ast.Call):
                # self.transition_table.get(k, default)()
                eff = eff + (('act', 'action'),)
                continue
            if txt.split('.')[0] in ('logging', 'logger', 'log', 'warnings', 'print', 'isinstance', 'len', 'repr', 'str') \
                    or self.model.repo.is_logging_call(call, self.model.mod):
                continue
            if txt.endswith('.format') or txt in ('tuple', 'int'):
                continue
            # a function of the module that only computes a value (a display name for the log record)
            g_ = self.model.mod.functions.get(fn.id) if isinstance(fn, ast.Name) else None
            if g_ is None and isinstance(fn, ast.Attribute) and isinstance(fn.value, ast.Name) and fn.value.id in ('self', 'cls'):
                g_ = self.model.sm.find_method(fn.attr)
                if g_ is not None and g_.kind not in ('staticmethod',):
                    g_ = None
            if g_ is not None and self.model.repo.is_pure_function(g_):
                continue
            eff = eff + (('call', txt),)
        return (world, vars_, eff)

    def stmt(self, st, state):
        world, vars_, eff = state
        lk = self._lookup_in(st)
        outs = []
        if lk is not None and world == 'unknown':
            kind, node = lk
            if kind == 'sub':
                # hit continues; miss raises KeyError here
                self._pending_exc.add((('miss', vars_, eff), 'KeyError'))
                outs.append(self._bind(st, ('hit', vars_, eff), 'action'))
            else:
                default = 'none'
                if len(node.args) > 1:
                    default = 'default:' + norm(node.args[1])
                outs.append(self._bind(st, ('hit', vars_, eff), 'action'))
                outs.append(self._bind(st, ('miss', vars_, eff), default))
            return [self._after(st, o) for o in outs]
        return [self._after(st, self._bind(st, state, None))]

    def _bind(self, st, state, val):
        world, vars_, eff = state
        if isinstance(st, ast.Assign) and val is None and isinstance(st.value, ast.Name) and st.value.id in dict(vars_):
            val = dict(vars_)[st.value.id]        # a plain copy of what the look-up gave
        if isinstance(st, ast.Assign) and val is not None:
            for t in st.targets:
                if isinstance(t, ast.Name):
                    vars_ = frozenset([(v, x) for v, x in vars_ if v != t.id] + [(t.id, val)])
        return (world, vars_, eff)

    def _after(self, st, state):
        state = self._effects(st, state)
        world, vars_, eff = state
        if isinstance(st, ast.Assign):
            for t in st.targets:
                if attr_chain(t) == ('self', 'current_state'):
                    if attr_chain(st.value) != ('self', 'current_state'):
                        eff = eff + (('setstate', norm(st.value)),)
        return (world, vars_, eff)

    def expr(self, e, state):
        return [self._effects(e, state)]

    def atom_branch(self, test, state):
        world, vars_, eff = state
        # ``key in self.transition_table``
        if isinstance(test, ast.Compare) and len(test.ops) == 1 and isinstance(test.ops[0], (ast.In, ast.NotIn)) \
                and self._is_table(test.comparators[0]) and world == 'unknown':
            hit = ('hit', vars_, eff)
            miss = ('miss', vars_, eff)
            return ([hit], [miss]) if isinstance(test.ops[0], ast.In) else ([miss], [hit])
        # tests on a variable bound by the lookup
        var = None
        positive = None
        if isinstance(test, ast.Name):
            var, positive = test.id, True
        elif isinstance(test, ast.Compare) and len(test.ops) == 1 and isinstance(test.left, ast.Name) \
                and isinstance(test.comparators[0], ast.Constant) and test.comparators[0].value is None:
            var = test.left.id
            positive = isinstance(test.ops[0], (ast.IsNot, ast.NotEq))
        if var is not None and var in dict(vars_):
            val = dict(vars_)[var]
            truthy = val != 'none'
            res = truthy if positive else not truthy
            return ([state], []) if res else ([], [state])
        st = self._effects(test, state)
        return [st], [st]

    def raises(self, node, state):
        world, vars_, eff = state
        out = []
        for call in calls_in(node):
            if isinstance(call.func, ast.Name) and dict(vars_).get(call.func.id) == 'none':
                out.append('TypeError')
        return out


def run_handles_quietly(model: FsmModel, exc: str):
    """Does DULServiceProvider.run catch ``exc`` raised by state_machine.action()
    inside the loop, without any effect, and go on?"""
    run = model.provider_cls.find_method('run')
    if run is None:
        raise AnalysisError('DULServiceProvider.run not found')
    parents = {}
    for n in ast.walk(run.node):
        for ch in ast.iter_child_nodes(n):
            parents[ch] = n
    target = None
    for n in ast.walk(run.node):
        if isinstance(n, ast.Call) and isinstance(n.func, ast.Attribute) and n.func.attr == 'action':
            target = n
    if target is None:
        raise AnalysisError('call of state_machine.action() not found in DULServiceProvider.run')
    n = target
    inside_loop = False
    while n in parents:
        p = parents[n]
        if isinstance(p, (ast.While, ast.For)):
            inside_loop = True
            break
        if isinstance(p, ast.Try) and n in p.body:
            for h in p.handlers:
                names = [None] if h.type is None else \
                    [Client().exc_name(x) for x in (h.type.elts if isinstance(h.type, ast.Tuple) else [h.type])]
                if any(model.hier.catches(nm, exc) == 'yes' for nm in names):
                    quiet = all(isinstance(b, (ast.Pass, ast.Continue)) or
                                (isinstance(b, ast.Expr) and isinstance(b.value, ast.Call) and
                                 (norm(b.value.func).split('.')[0] in ('logging', 'logger', 'log', 'warnings')
                                  or model.repo.is_logging_call(b.value, model.mod)))
                                for b in h.body)
                    return quiet
        n = p
    return False


def check_undefined(model: FsmModel, rep):
    f = model.sm.find_method('action')
    if f is None:
        raise AnalysisError('StateMachine.action not found')
    rep.analysed(f)
    client = LookupClient(model, f)
    flow = Flow(client)
    o = flow.run(body_without_docstring(f.node), [client.init()])
    problems = []
    n_miss = 0
    finals = [(s, 'return') for s, _ in o.ret] + [(s, 'fall') for s in o.fall] + [(s, 'raise:' + e) for s, e in o.exc]
    worlds = {s[0] for s, _ in finals}
    if 'unknown' in worlds and not ({'hit', 'miss'} & worlds):
        raise AnalysisError('%s: no lookup of self.transition_table recognised in action()' % f.loc())
    for (world, vars_, eff), how in finals:
        if world != 'miss':
            continue
        n_miss += 1
        acts = [e for e in eff if e[0] in ('act', 'setstate', 'call')]
        for e in acts:
            if e[0] == 'act' and e[1].startswith('default:'):
                problems.append('undefined cell runs the default %s' % e[1][8:])
            elif e[0] == 'act':
                problems.append('undefined cell still calls the looked-up action')
            elif e[0] == 'setstate':
                problems.append('undefined cell assigns current_state = %s' % e[1])
            else:
                problems.append('undefined cell calls %s' % e[1])
        if how.startswith('raise:'):
            exc = how[6:]
            if not run_handles_quietly(model, exc):
                problems.append('undefined (event, state) raises %s out of action(); the provider loop does not '
                                'absorb it (its handler indicates an abort to the user and the thread ends)' % exc)
    if n_miss == 0:
        raise AnalysisError('%s: the miss path of the table lookup was not found' % f.loc())
    n_undef = 13 * 19 - len(ps3_8.TABLE)
    rep.check(not problems, 'C04.T5', 'fsm:StateMachine.action:undefined-cells', f.loc(),
              'lookup of a key outside the table has no effect (%d undefined cells, %d miss path(s))' % (n_undef, n_miss),
              ' | '.join(sorted(set(problems))))
    rep.notes['undefined_cells'] = n_undef


def run(repo, rep):
    from ..pitfalls import memo_rule as _memo_rule
    _memo_rule(repo, rep, 'C04', 'C04.Z1')
    from ..pitfalls import log_rule as _log_rule
    _log_rule(repo, rep, 'C04', 'C04.Z2')
    from ..api_pitfalls import truth_rule as _truth_rule
    _truth_rule(repo, rep, 'C04', 'C04.Z4')
    from ..api_pitfalls import attribute_rule as _attribute_rule
    _attribute_rule(repo, rep, 'C04', 'C04.Z5')
    model = FsmModel(repo)
    rep.trust('PS3.8 Table 9-10 / Tables 9-6..9-9 as transcribed in pnd_static/oracles/ps3_8.py '
              '(cross-checked by row totals)')
    rep.trust('CPython semantics of dict lookup, queue.put, socket.sendall/close')
    rep.assume('an action\'s observable behaviour is its list of recognised effect calls; any other '
               'call on the provider inside an action is an ANALYSIS-ERROR, not a pass')
    rep.assume('context of a cell: primitive = PDU of the kind the standard names for the event; '
               'transport absent after Evt17 and for Evt1/Sta1, present otherwise (C05.G5 shows this inductive)')
    rep.rule('C04.T1', 'the key set of transition_table equals the 123 defined cells of Table 9-10', 123)
    rep.rule('C04.T3', 'for each defined cell the effects of the bound action (PDU sent, indication, '
             'transport close, connect, net ARTIM effect, A-ABORT source) on every normal path equal '
             'those of the standard\'s action for that cell, with the triggering primitive type in force', 100)
    rep.rule('C04.T4', 'for each defined cell every normal path returns the standard\'s next state '
             '(AR-8: by role, decided from an attribute that is actually defined)', 100)
    rep.rule('C04.T5', 'a key outside the table has no effect on wire, user, transport or state', 1)
    rep.rule('C04.T0', 'every action method is summarised without unknown effects', 28)
    rep.rule('C04.T6', 'the transition table is written by the constructor only: nothing else assigns, updates or removes '
             'entries after construction (the table the analysis read is the table that is used)', 1)

    # T1
    for (e, s), action_id in sorted(ps3_8.TABLE.items()):
        en, sn = 'EVT_%d' % e, 'STA_%d' % s
        rep.check((en, sn) in model.table, 'C04.T1', cell_key(e, s), model.sm.loc(),
                  'cell defined (%s)' % action_id,
                  'cell (%s, %s) is defined by the standard (%s) but missing from transition_table' % (en, sn, action_id))
    for (en, sn), meth in sorted(model.table.items()):
        e, s = int(en[4:]), int(sn[4:])
        if (e, s) not in ps3_8.TABLE:
            rep.bad('C04.T1', cell_key(e, s), model.sm.loc(),
                    'cell (%s, %s) -> %s is not defined by Table 9-10' % (en, sn, meth))
    for en, sn in model.table_dupes:
        rep.bad('C04.T1', TABLE_KEY % (en, sn) + ':duplicate', model.sm.loc(),
                'key (%s, %s) occurs twice in the dict literal; the later entry wins silently' % (en, sn))

    # T6: who may write the table
    init_f = model.sm.find_method('__init__')
    allowed = {hf.key for hf in repo.helper_closure(init_f)} if init_f is not None else set()
    writers = []
    for f2 in repo.all_functions():
        if f2.key in allowed:
            continue
        for n in ast.walk(f2.node):
            tgt = None
            if isinstance(n, (ast.Assign, ast.AugAssign, ast.Delete)):
                tgts = n.targets if isinstance(n, (ast.Assign, ast.Delete)) else [n.target]
                for t in tgts:
                    base = t.value if isinstance(t, ast.Subscript) else t
                    if isinstance(base, ast.Attribute) and base.attr == 'transition_table':
                        tgt = norm(t)
            elif isinstance(n, ast.Call) and isinstance(n.func, ast.Attribute) and n.func.attr in (
                    'update', 'pop', 'popitem', 'clear', 'setdefault', '__setitem__', '__delitem__') \
                    and isinstance(n.func.value, ast.Attribute) and n.func.value.attr == 'transition_table':
                tgt = norm(n.func)
            if tgt:
                writers.append('%s writes %s (line %d)' % (f2.key, tgt, n.lineno))
    rep.check(not writers, 'C04.T6', 'fsm:StateMachine.transition_table:writers', model.sm.loc(),
              'only the constructor writes the table', '; '.join(writers))

    rep.rule('C04.T7', 'AE-6 chooses between its two alternatives (indicate the request / answer A-ASSOCIATE-RJ and wait in Sta13) as PS3.8 9.3.2 '
             'says: on bit 0 of the protocol-version field only -- no test in the package compares the whole field with a constant', 1)
    from ..api_pitfalls import protocol_version_problems as _pvp
    _pv, _pn = _pvp(repo)
    rep.check(not _pv, 'C04.T7', 'package:protocol-version-tests', '', '%d test(s) of the protocol version, all on single bits' % _pn, '; '.join(_pv[:3]))
    # T0: all action methods summarised
    import re as _re
    used = sorted(set(model.table.values()) | {m for m in model.sm.methods if _re.match(r'^(ae|dt|ar|aa)_\d+$', m)})
    for meth in used:
        f = model.sm.find_method(meth)
        rep.analysed(f)
        model.summarize(meth, frozenset([TOP]), 'present')  # raises AnalysisError on unknown effects
        rep.ok('C04.T0', 'fsm:StateMachine.%s' % meth, f.loc(), 'effect summary extracted')

    # T3/T4
    check_cells(model, rep)

    # T4b: role attribute
    seen = getattr(model, 'role_attr_seen', {})
    ar8_cells = [k for k, v in ps3_8.TABLE.items() if v == 'AR-8']
    for (e, s) in ar8_cells:
        meth = model.table.get(('EVT_%d' % e, 'STA_%d' % s))
        if not meth:
            continue
        f = model.sm.find_method(meth)
        attrs = set()
        for n in ast.walk(f.node):
            ch = attr_chain(n) if isinstance(n, ast.Attribute) else None
            if ch and ch[:2] == ('self', 'provider') and len(ch) == 3 and ch[2] not in (
                    'primitive', 'dul_socket', 'to_service_user', 'timer'):
                attrs.add(ch[2])
        for a in sorted(attrs):
            worlds = model.role_worlds(a)
            rep.check(worlds is not None and set(worlds) >= {'requestor', 'acceptor'},
                      'C04.T4', 'fsm:StateMachine.%s:role-attribute' % meth, f.loc(),
                      'role attribute provider.%s is defined for both roles: %s' % (a, worlds),
                      '%s() branches on self.provider.%s, which is assigned nowhere for both roles '
                      '(AttributeError at run time; the release-collision branch cannot be taken correctly)' % (meth, a))

    # T5
    check_undefined(model, rep)
    rep.notes['cells_defined'] = len(model.table)
    rep.notes['cells_total'] = 13 * 19
