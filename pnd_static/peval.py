"""Constant propagation through table initialisers.

The protocol knowledge of the package lives in tables (transition table, PDU / message / status
dispatch tables).  When such a table is written as one literal the constant folder of srcmodel.py reads
it; when it is *computed* -- a comprehension over a tuple of rows, ``dict(a); .update(b)`` at module
level, a loop in the constructor with ``getattr(self, name)``, ``Base.__subclasses__()`` -- this module
propagates the constants through that initialiser code: a small evaluator for the pure subset of Python
such code is written in (literals, comprehensions, loops over constant sequences, dict / list building,
calls of package functions with constant arguments).  Values that do not matter (sockets, queues,
timers, anything not constant) are the token UNKNOWN and are never inspected; needing one is
CannotEval.  Only initialisers and table look-ups are evaluated, never protocol behaviour; no module of
the package is imported and no input is supplied other than constants found in the source.
"""
from __future__ import annotations

import ast
from typing import Any, Dict, List, Optional, Tuple

from .srcmodel import (AnalysisError, BoundMethod, ClassInfo, ClassRef, ExtRef, FuncInfo, FuncRef, ModRef, Module,
                       NotConst, Repo, StructVal, body_without_docstring)


class CannotEval(Exception):
    pass


class Raised(Exception):
    """the evaluated code raises (``raise X(...)`` or a failing look-up)"""

    def __init__(self, exc: str, detail: str = ''):
        Exception.__init__(self, exc, detail)
        self.exc = exc
        self.detail = detail


class _Unknown:
    def __repr__(self):
        return 'UNKNOWN'


UNKNOWN = _Unknown()


class Tagged(int):
    """an integer constant that remembers the enumeration member it was read from (``Events.EVT_3``)"""
    def __new__(cls, v, owner, name):
        o = int.__new__(cls, v)
        o.owner, o.member = owner, name
        return o


class SelfObj:
    def __init__(self, cls: ClassInfo):
        self.cls = cls
        self.attrs: Dict[str, Any] = {}


class FuncVal:
    def __init__(self, fi: Optional[FuncInfo], node, module: Module, cls, closure: Dict[str, Any]):
        self.fi, self.node, self.module, self.cls, self.closure = fi, node, module, cls, closure


class _Return(Exception):
    def __init__(self, v):
        self.v = v


class _Break(Exception):
    pass


class _Continue(Exception):
    pass


MUTATORS = ('update', 'append', 'extend', 'setdefault', 'add', 'insert')


class Scope:
    def __init__(self, module: Module, cls: Optional[ClassInfo], env: Dict[str, Any], self_obj: Optional[SelfObj] = None):
        self.module, self.cls, self.env, self.self_obj = module, cls, env, self_obj


class PEval:
    def __init__(self, repo: Repo, max_steps: int = 200000):
        self.repo = repo
        self.steps = 0
        self.max_steps = max_steps
        self._modcache: Dict[Tuple[str, str], Any] = {}
        self.dupes: List[Any] = []      # keys that occur twice within one dict literal

    def _tick(self):
        self.steps += 1
        if self.steps > self.max_steps:
            raise CannotEval('initialiser evaluation does not terminate within %d steps' % self.max_steps)

    # ------------------------------------------------------------------ module-level names
    def module_value(self, m: Module, name: str) -> Any:
        key = (m.name, name)
        if key in self._modcache:
            v = self._modcache[key]
            if v is _IN_PROGRESS:
                raise CannotEval('cyclic initialiser %s.%s' % key)
            return v
        self._modcache[key] = _IN_PROGRESS
        try:
            v = self._module_value(m, name)
        except Exception:
            del self._modcache[key]
            raise
        self._modcache[key] = v
        return v

    def _module_value(self, m: Module, name: str) -> Any:
        if name in m.classes:
            return ClassRef(m.name, name)
        if name in m.functions:
            return FuncRef(m.name, name)
        scope = Scope(m, None, {})
        found = False
        val: Any = UNKNOWN
        for st in self._toplevel(m.tree.body):
            binds = False
            if isinstance(st, (ast.Assign, ast.AnnAssign, ast.AugAssign)):
                tgts = st.targets if isinstance(st, ast.Assign) else [st.target]
                for t in tgts:
                    for n in ast.walk(t):
                        if isinstance(n, ast.Name) and n.id == name:
                            binds = True
            elif isinstance(st, ast.Expr) and isinstance(st.value, ast.Call) and isinstance(st.value.func, ast.Attribute) \
                    and isinstance(st.value.func.value, ast.Name) and st.value.func.value.id == name \
                    and st.value.func.attr in MUTATORS:
                binds = True
            elif isinstance(st, ast.For) and any(isinstance(n, ast.Name) and n.id == name and isinstance(n.ctx, ast.Store)
                                                 for n in ast.walk(st)):
                binds = True
            elif isinstance(st, ast.For) and any(isinstance(n, ast.Call) and isinstance(n.func, ast.Attribute) and
                                                 isinstance(n.func.value, ast.Name) and n.func.value.id == name and
                                                 n.func.attr in MUTATORS for n in ast.walk(st)):
                binds = True
            elif isinstance(st, ast.For) and any(isinstance(n, ast.Subscript) and isinstance(n.ctx, ast.Store) and
                                                 isinstance(n.value, ast.Name) and n.value.id == name for n in ast.walk(st)):
                binds = True
            if not binds:
                continue
            found = True
            if found and name in scope.env:
                pass
            self.exec_stmt(st, scope)
            val = scope.env.get(name, val)
        if found:
            return val
        if name in m.imports:
            imp = m.imports[name]
            if isinstance(imp, tuple):
                _, mod, attr = imp
                if mod in self.repo.modules:
                    return self.module_value(self.repo.modules[mod], attr)
                return ExtRef('%s.%s' % (mod, attr))
            if isinstance(imp, ModRef):
                return imp if imp.name in self.repo.modules else ExtRef(imp.name)
            return imp
        for star in m.star_imports:
            sm = self.repo.modules.get(star)
            if sm is not None and (name in sm.classes or name in sm.functions or name in sm.assigns):
                return self.module_value(sm, name)
        raise CannotEval('name %s is not defined in %s' % (name, m.name))

    @staticmethod
    def _toplevel(body):
        for st in body:
            if isinstance(st, (ast.If, ast.Try)):
                # ``if six.PY3:`` / ``try: import`` blocks: both arms are looked at for bindings
                for sub in ast.iter_child_nodes(st):
                    if isinstance(sub, ast.stmt):
                        yield sub
                    elif isinstance(sub, ast.ExceptHandler):
                        for x in sub.body:
                            yield x
            else:
                yield st

    # ------------------------------------------------------------------ statements
    def exec_block(self, body, scope: Scope):
        for st in body:
            self.exec_stmt(st, scope)

    def exec_stmt(self, st, scope: Scope):
        self._tick()
        if isinstance(st, ast.Expr):
            if isinstance(st.value, ast.Constant):
                return
            self.expr(st.value, scope, stmt=True)
            return
        if isinstance(st, (ast.Assign, ast.AnnAssign)):
            if isinstance(st, ast.AnnAssign) and st.value is None:
                return
            v = self.expr(st.value, scope)
            for t in (st.targets if isinstance(st, ast.Assign) else [st.target]):
                self.assign(t, v, scope)
            return
        if isinstance(st, ast.AugAssign):
            cur = self.expr(_load(st.target), scope)
            rhs = self.expr(st.value, scope)
            self.assign(st.target, self.binop(st.op, cur, rhs), scope)
            return
        if isinstance(st, ast.If):
            c = self.expr(st.test, scope)
            if c is UNKNOWN:
                raise CannotEval('condition %s is not constant' % ast.unparse(st.test))
            self.exec_block(st.body if c else st.orelse, scope)
            return
        if isinstance(st, ast.For):
            it = self.expr(st.iter, scope)
            if it is UNKNOWN:
                raise CannotEval('loop over non-constant %s' % ast.unparse(st.iter))
            broke = False
            for item in self._iterate(it):
                self._tick()
                self.assign(st.target, item, scope)
                try:
                    self.exec_block(st.body, scope)
                except _Break:
                    broke = True
                    break
                except _Continue:
                    continue
            if not broke:
                self.exec_block(st.orelse, scope)
            return
        if isinstance(st, ast.While):
            n = 0
            while True:
                self._tick()
                c = self.expr(st.test, scope)
                if c is UNKNOWN:
                    raise CannotEval('loop condition %s is not constant' % ast.unparse(st.test))
                if not c:
                    break
                try:
                    self.exec_block(st.body, scope)
                except _Break:
                    break
                except _Continue:
                    pass
            return
        if isinstance(st, ast.Return):
            raise _Return(self.expr(st.value, scope) if st.value is not None else None)
        if isinstance(st, ast.Break):
            raise _Break()
        if isinstance(st, ast.Continue):
            raise _Continue()
        if isinstance(st, (ast.Pass, ast.Import, ast.ImportFrom, ast.Global, ast.Nonlocal)):
            return
        if isinstance(st, (ast.FunctionDef, ast.AsyncFunctionDef)):
            scope.env[st.name] = FuncVal(None, st, scope.module, scope.cls, scope.env)
            return
        if isinstance(st, ast.Raise):
            name = 'Exception'
            if st.exc is not None:
                e = st.exc.func if isinstance(st.exc, ast.Call) else st.exc
                name = ast.unparse(e).split('.')[-1]
            raise Raised(name, ast.unparse(st.exc) if st.exc is not None else '')
        if isinstance(st, ast.Try):
            try:
                self.exec_block(st.body, scope)
            except Raised as r:
                for h in st.handlers:
                    names = [None] if h.type is None else \
                        [ast.unparse(x).split('.')[-1] for x in (h.type.elts if isinstance(h.type, ast.Tuple) else [h.type])]
                    if None in names or r.exc in names or 'Exception' in names or \
                            (r.exc in ('KeyError', 'IndexError') and 'LookupError' in names):
                        if h.name:
                            scope.env[h.name] = UNKNOWN
                        self.exec_block(h.body, scope)
                        break
                else:
                    self.exec_block(st.finalbody, scope)
                    raise
            else:
                self.exec_block(st.orelse, scope)
            self.exec_block(st.finalbody, scope)
            return
        if isinstance(st, ast.Assert):
            return
        if isinstance(st, ast.With):
            for item in st.items:
                if item.optional_vars is not None:
                    self.assign(item.optional_vars, UNKNOWN, scope)
            self.exec_block(st.body, scope)
            return
        if isinstance(st, ast.Delete):
            return
        raise CannotEval('statement %s in an initialiser' % type(st).__name__)

    def assign(self, t, v, scope: Scope):
        if isinstance(t, ast.Name):
            scope.env[t.id] = v
            return
        if isinstance(t, (ast.Tuple, ast.List)):
            if v is UNKNOWN:
                for x in t.elts:
                    self.assign(x, UNKNOWN, scope)
                return
            vals = list(self._iterate(v))
            if len(vals) != len(t.elts):
                raise Raised('ValueError', 'unpack %d values into %d targets' % (len(vals), len(t.elts)))
            for x, y in zip(t.elts, vals):
                self.assign(x, y, scope)
            return
        if isinstance(t, ast.Attribute):
            base = self.expr(t.value, scope)
            if isinstance(base, SelfObj):
                base.attrs[t.attr] = v
            return
        if isinstance(t, ast.Subscript):
            base = self.expr(t.value, scope)
            if base is UNKNOWN:
                return
            k = self.expr(t.slice, scope)
            if isinstance(base, dict):
                if k is UNKNOWN:
                    raise CannotEval('store under a non-constant key')
                # (a later store to a key that exists is the ordinary way to override a default entry: not a duplicate)
                base[_hashable(k)] = v
                return
            if isinstance(base, list) and isinstance(k, int):
                base[k] = v
                return
            raise CannotEval('subscript store on %s' % type(base).__name__)
        raise CannotEval('assignment target %s' % type(t).__name__)

    @staticmethod
    def _iterate(v):
        if isinstance(v, dict):
            return list(v.keys())
        if isinstance(v, (list, tuple, set, frozenset, range, str, bytes)):
            return list(v)
        if isinstance(v, _Items):
            return v.items
        raise CannotEval('iteration over %s' % type(v).__name__)

    # ------------------------------------------------------------------ expressions
    def expr(self, e, scope: Scope, stmt: bool = False) -> Any:
        self._tick()
        if e is None:
            return None
        if isinstance(e, ast.Constant):
            return e.value
        if isinstance(e, ast.Name):
            if e.id in scope.env:
                return scope.env[e.id]
            if e.id == 'self' and scope.self_obj is not None:
                return scope.self_obj
            if e.id in ('True', 'False', 'None'):
                return {'True': True, 'False': False, 'None': None}[e.id]
            if getattr(scope, 'class_body', False) and scope.cls is not None and e.id in scope.cls.attrs:
                return self.class_attr(scope.cls, e.id)
            if e.id in _BUILTINS:
                return _Builtin(e.id)
            try:
                return self.module_value(scope.module, e.id)
            except CannotEval:
                return UNKNOWN
        if isinstance(e, ast.Tuple):
            return tuple(self.expr(x, scope) for x in e.elts)
        if isinstance(e, ast.List):
            return [self.expr(x, scope) for x in e.elts]
        if isinstance(e, ast.Set):
            return set(_hashable(self.expr(x, scope)) for x in e.elts)
        if isinstance(e, ast.Dict):
            out: Dict[Any, Any] = {}
            for k, v in zip(e.keys, e.values):
                if k is None:
                    sub = self.expr(v, scope)
                    if not isinstance(sub, dict):
                        raise CannotEval('** of a non-constant mapping')
                    out.update(sub)
                    continue
                kk = self.expr(k, scope)
                if kk is UNKNOWN:
                    raise CannotEval('dict key %s is not constant' % ast.unparse(k))
                kk = _hashable(kk)
                if kk in out:
                    self.dupes.append(kk)
                out[kk] = self.expr(v, scope)
            return out
        if isinstance(e, ast.Attribute):
            return self.attribute(e, scope)
        if isinstance(e, ast.Subscript):
            base = self.expr(e.value, scope)
            if base is UNKNOWN:
                return UNKNOWN
            if isinstance(e.slice, ast.Slice):
                lo = self.expr(e.slice.lower, scope) if e.slice.lower is not None else None
                hi = self.expr(e.slice.upper, scope) if e.slice.upper is not None else None
                stp = self.expr(e.slice.step, scope) if e.slice.step is not None else None
                if UNKNOWN in (lo, hi, stp):
                    return UNKNOWN
                return base[lo:hi:stp]
            k = self.expr(e.slice, scope)
            if k is UNKNOWN:
                return UNKNOWN
            try:
                return base[_hashable(k)] if isinstance(base, dict) else base[k]
            except KeyError:
                raise Raised('KeyError', repr(k))
            except IndexError:
                raise Raised('IndexError', repr(k))
            except TypeError:
                raise CannotEval('subscript of %s' % type(base).__name__)
        if isinstance(e, ast.BinOp):
            return self.binop(e.op, self.expr(e.left, scope), self.expr(e.right, scope))
        if isinstance(e, ast.UnaryOp):
            v = self.expr(e.operand, scope)
            if v is UNKNOWN:
                return UNKNOWN
            if isinstance(e.op, ast.Not):
                return not v
            if isinstance(e.op, ast.USub):
                return -v
            if isinstance(e.op, ast.Invert):
                return ~v
            return +v
        if isinstance(e, ast.BoolOp):
            r = None
            for x in e.values:
                r = self.expr(x, scope)
                if r is UNKNOWN:
                    return UNKNOWN
                if isinstance(e.op, ast.Or) and r:
                    return r
                if isinstance(e.op, ast.And) and not r:
                    return r
            return r
        if isinstance(e, ast.IfExp):
            c = self.expr(e.test, scope)
            if c is UNKNOWN:
                return UNKNOWN
            return self.expr(e.body if c else e.orelse, scope)
        if isinstance(e, ast.Compare):
            left = self.expr(e.left, scope)
            for op, right_e in zip(e.ops, e.comparators):
                right = self.expr(right_e, scope)
                if left is UNKNOWN or right is UNKNOWN:
                    return UNKNOWN
                ok = self.compare(op, left, right)
                if not ok:
                    return False
                left = right
            return True
        if isinstance(e, (ast.ListComp, ast.SetComp, ast.GeneratorExp, ast.DictComp)):
            return self.comprehension(e, scope)
        if isinstance(e, ast.Call):
            return self.call(e, scope, stmt)
        if isinstance(e, ast.Lambda):
            return FuncVal(None, e, scope.module, scope.cls, scope.env)
        if isinstance(e, ast.JoinedStr):
            return UNKNOWN
        if isinstance(e, ast.Starred):
            return self.expr(e.value, scope)
        return UNKNOWN

    def binop(self, op, a, b):
        if a is UNKNOWN or b is UNKNOWN:
            return UNKNOWN
        try:
            if isinstance(op, ast.Add):
                return a + b
            if isinstance(op, ast.Sub):
                return a - b
            if isinstance(op, ast.Mult):
                return a * b
            if isinstance(op, ast.FloorDiv):
                return a // b
            if isinstance(op, ast.Mod):
                return a % b if isinstance(a, int) else UNKNOWN
            if isinstance(op, ast.BitAnd):
                return a & b
            if isinstance(op, ast.BitOr):
                return a | b
            if isinstance(op, ast.BitXor):
                return a ^ b
            if isinstance(op, ast.LShift):
                return a << b
            if isinstance(op, ast.RShift):
                return a >> b
        except Exception:
            raise CannotEval('operator on %s / %s' % (type(a).__name__, type(b).__name__))
        return UNKNOWN

    @staticmethod
    def compare(op, a, b) -> bool:
        try:
            if isinstance(op, ast.Eq):
                return a == b
            if isinstance(op, ast.NotEq):
                return a != b
            if isinstance(op, ast.Lt):
                return a < b
            if isinstance(op, ast.LtE):
                return a <= b
            if isinstance(op, ast.Gt):
                return a > b
            if isinstance(op, ast.GtE):
                return a >= b
            if isinstance(op, ast.Is):
                return a is b or (a is None and b is None) or (isinstance(a, (bool, ClassRef)) and a == b)
            if isinstance(op, ast.IsNot):
                return not (a is b or (a is None and b is None) or (isinstance(a, (bool, ClassRef)) and a == b))
            if isinstance(op, ast.In):
                return _hashable(a) in b
            if isinstance(op, ast.NotIn):
                return _hashable(a) not in b
        except TypeError:
            raise CannotEval('comparison')
        raise CannotEval('comparison operator')

    def comprehension(self, e, scope: Scope):
        results: List[Any] = []

        def rec(i, env):
            if i == len(e.generators):
                sc = Scope(scope.module, scope.cls, env, scope.self_obj)
                if isinstance(e, ast.DictComp):
                    results.append((self.expr(e.key, sc), self.expr(e.value, sc)))
                else:
                    results.append(self.expr(e.elt, sc))
                return
            g = e.generators[i]
            sc = Scope(scope.module, scope.cls, env, scope.self_obj)
            it = self.expr(g.iter, sc)
            if it is UNKNOWN:
                raise CannotEval('comprehension over non-constant %s' % ast.unparse(g.iter))
            for item in self._iterate(it):
                self._tick()
                env2 = dict(env)
                sc2 = Scope(scope.module, scope.cls, env2, scope.self_obj)
                self.assign(g.target, item, sc2)
                ok = True
                for cond in g.ifs:
                    c = self.expr(cond, sc2)
                    if c is UNKNOWN:
                        raise CannotEval('comprehension filter is not constant')
                    if not c:
                        ok = False
                        break
                if ok:
                    rec(i + 1, env2)
        rec(0, dict(scope.env))
        if isinstance(e, ast.DictComp):
            out = {}
            for k, v in results:
                if k is UNKNOWN:
                    raise CannotEval('dict comprehension key is not constant')
                # (rows of a generating table may overlap on purpose, "the later, more specific rule wins": only a key written
                # twice in one dict *literal* is reported as a duplicate)
                out[_hashable(k)] = v
            return out
        if isinstance(e, ast.SetComp):
            return set(_hashable(x) for x in results)
        return results

    def attribute(self, e: ast.Attribute, scope: Scope):
        base = self.expr(e.value, scope)
        a = e.attr
        if base is UNKNOWN:
            return UNKNOWN
        if isinstance(base, SelfObj):
            if a in base.attrs:
                return base.attrs[a]
            hit = base.cls.find_attr(a)
            if hit is not None:
                return self.class_attr(hit[0], a)
            m = base.cls.find_method(a)
            if m is not None:
                return _Bound(base, m)
            return UNKNOWN
        if isinstance(base, ClassRef):
            c = self.repo.cls(base.module, base.name)
            hit = c.find_attr(a)
            if hit is not None:
                return self.class_attr(hit[0], a)
            m = c.find_method(a)
            if m is not None:
                return FuncRef(m.module.name, m.qualname)
            if a == '__name__':
                return c.name
            if a == '__subclasses__':
                return _Subclasses(c)
            return UNKNOWN
        if isinstance(base, ModRef):
            if base.name in self.repo.modules:
                try:
                    return self.module_value(self.repo.modules[base.name], a)
                except CannotEval:
                    return UNKNOWN
            return ExtRef(base.name + '.' + a)
        if isinstance(base, ExtRef):
            return ExtRef(base.path + '.' + a)
        if isinstance(base, StructVal) and a == 'size':
            return base.size
        if isinstance(base, NTuple) and a in base.fields:
            return base.get(a)
        if isinstance(base, _NTClass) and a == '_fields':
            return tuple(base.fields)
        if isinstance(base, (dict, list, tuple, set, str, bytes)):
            return _Method(base, a)
        if isinstance(base, (_Row, Record)):
            return base.get(a)
        return UNKNOWN

    def class_attr(self, c: ClassInfo, name: str):
        expr = c.attrs[name]
        busy = self.__dict__.setdefault('_class_attr_busy', set())
        if (c.key, name) in busy:
            raise CannotEval('class attribute %s.%s depends on itself' % (c.name, name))
        busy.add((c.key, name))
        try:
            sc = Scope(c.module, c, {})
            sc.class_body = True        # names of the class body are visible to the initialiser
            v = self.expr(expr, sc)
        finally:
            busy.discard((c.key, name))
        if isinstance(v, int) and not isinstance(v, bool) and isinstance(expr, ast.Constant):
            return Tagged(v, c.name, name)
        return v

    # ------------------------------------------------------------------ calls
    def call(self, e: ast.Call, scope: Scope, stmt: bool = False):
        fn = self.expr(e.func, scope)
        args: List[Any] = []
        for a in e.args:
            if isinstance(a, ast.Starred):
                v = self.expr(a.value, scope)
                if v is UNKNOWN:
                    return UNKNOWN
                args.extend(self._iterate(v))
            else:
                args.append(self.expr(a, scope))
        kwargs: Dict[str, Any] = {}
        for k in e.keywords:
            v = self.expr(k.value, scope)
            if k.arg is None:
                if isinstance(v, dict):
                    kwargs.update(v)
                else:
                    return UNKNOWN
            else:
                kwargs[k.arg] = v
        if fn is UNKNOWN:
            return UNKNOWN
        if isinstance(fn, _Builtin):
            return self.builtin(fn.name, args, kwargs, scope)
        if isinstance(fn, _Method):
            return self.method(fn.obj, fn.name, args, kwargs)
        if isinstance(fn, _Subclasses):
            return [ClassRef(x.module.name, x.name) for x in self.repo.all_classes()
                    if any(b.key == fn.cls.key for b in x.bases)]
        if isinstance(fn, _Bound):
            return self.call_function(fn.fi, args, kwargs, fn.obj)
        if isinstance(fn, FuncRef):
            fi = self.repo.func(fn.module, fn.qualname)
            return self.call_function(fi, args, kwargs, None)
        if isinstance(fn, FuncVal):
            return self.call_funcval(fn, args, kwargs)
        if isinstance(fn, _NTClass):
            return fn.make(args, kwargs)
        if isinstance(fn, ClassRef):
            c = self.repo.cls(fn.module, fn.name)
            if self.repo.is_value_class(c):
                # typing.NamedTuple / behaviour-free dataclass: fields in declaration order, class-level defaults
                fields, defaults = [], {}
                for st in c.node.body:
                    if isinstance(st, ast.AnnAssign) and isinstance(st.target, ast.Name):
                        fields.append(st.target.id)
                        if st.value is not None:
                            defaults[st.target.id] = self.expr(st.value, Scope(c.module, c, {}))
                if fields:
                    return _NTClass(c.name, fields, defaults).make(args, kwargs)
            # namedtuple-like rows and plain data holders are not modelled; an instance is only a bag of its arguments
            return _Row(c, args, kwargs, self)
        if isinstance(fn, ExtRef):
            if fn.path == 'struct.Struct' and len(args) == 1 and isinstance(args[0], str):
                return StructVal(args[0])
            if fn.path.endswith('uid.UID') and len(args) == 1:
                return args[0]
            if fn.path in ('collections.namedtuple', 'namedtuple') and len(args) >= 2 and isinstance(args[0], str):
                f = args[1]
                if isinstance(f, str):
                    f = f.replace(',', ' ').split()
                if isinstance(f, (list, tuple)) and all(isinstance(x, str) for x in f):
                    d = kwargs.get('defaults')
                    dmap = dict(zip(list(f)[len(f) - len(d):], d)) if isinstance(d, (list, tuple)) else {}
                    return _NTClass(args[0], list(f), dmap)
                return UNKNOWN
            if fn.path in ('functools.partial',) and args:
                return UNKNOWN
            if fn.path in ('itertools.chain',):
                out: List[Any] = []
                for a in args:
                    if a is UNKNOWN:
                        return UNKNOWN
                    out.extend(self._iterate(a))
                return out
            if fn.path in ('itertools.chain.from_iterable',) and len(args) == 1:
                if args[0] is UNKNOWN:
                    return UNKNOWN
                out = []
                for a in self._iterate(args[0]):
                    if a is UNKNOWN:
                        return UNKNOWN
                    out.extend(self._iterate(a))
                return out
            if fn.path in ('itertools.product',) and args and not kwargs:
                import itertools as _it
                if any(a is UNKNOWN for a in args):
                    return UNKNOWN
                return [tuple(x) for x in _it.product(*[self._iterate(a) for a in args])]
            if fn.path in ('itertools.repeat',) and len(args) == 2 and isinstance(args[1], int) and args[1] <= 4096:
                return [args[0]] * args[1]
            if fn.path in ('itertools.islice',) and 2 <= len(args) <= 4 and all(isinstance(a, int) or a is None for a in args[1:]):
                import itertools as _it
                if args[0] is UNKNOWN:
                    return UNKNOWN
                return list(_it.islice(self._iterate(args[0]), *args[1:]))
            return UNKNOWN
        return UNKNOWN

    def bind_params(self, node, args, kwargs, first=None) -> Dict[str, Any]:
        a = node.args
        names = [x.arg for x in a.posonlyargs + a.args]
        env: Dict[str, Any] = {}
        pos = list(args)
        if first is not None and names:
            env[names[0]] = first
            names = names[1:]
        defaults = list(a.defaults)
        dnames = ([x.arg for x in a.posonlyargs + a.args])[-len(defaults):] if defaults else []
        for n, v in zip(names, pos):
            env[n] = v
        if len(pos) > len(names):
            if a.vararg:
                env[a.vararg.arg] = tuple(pos[len(names):])
            else:
                raise Raised('TypeError', 'too many arguments')
        elif a.vararg:
            env[a.vararg.arg] = ()
        for k, v in kwargs.items():
            env[k] = v
        for n, d in zip(dnames, defaults):
            if n not in env:
                env[n] = self.expr(d, Scope(self._cur_module, None, {}))
        for k, d in zip(a.kwonlyargs, a.kw_defaults):
            if k.arg not in env and d is not None:
                env[k.arg] = self.expr(d, Scope(self._cur_module, None, {}))
        for n in names:
            if n not in env:
                raise Raised('TypeError', 'missing argument %s' % n)
        return env

    def call_function(self, fi: FuncInfo, args, kwargs, self_obj: Optional[SelfObj]):
        if any(isinstance(n, (ast.Yield, ast.YieldFrom)) for n in ast.walk(fi.node)):
            return UNKNOWN
        self._cur_module = fi.module
        first = None
        if fi.kind == 'method':
            first = self_obj if self_obj is not None else UNKNOWN
        elif fi.kind == 'classmethod':
            first = ClassRef(fi.cls.module.name, fi.cls.name) if fi.cls else UNKNOWN
        env = self.bind_params(fi.node, args, kwargs, first)
        scope = Scope(fi.module, fi.cls, env, self_obj if fi.kind == 'method' else None)
        try:
            self.exec_block(body_without_docstring(fi.node), scope)
        except _Return as r:
            return r.v
        return None

    def call_funcval(self, fv: FuncVal, args, kwargs):
        self._cur_module = fv.module
        env = dict(fv.closure)
        env.update(self.bind_params(fv.node, args, kwargs))
        scope = Scope(fv.module, fv.cls, env)
        if isinstance(fv.node, ast.Lambda):
            return self.expr(fv.node.body, scope)
        try:
            self.exec_block(body_without_docstring(fv.node), scope)
        except _Return as r:
            return r.v
        return None

    def builtin(self, name, args, kwargs, scope: Scope):
        if name == 'getattr' and len(args) >= 2 and isinstance(args[0], SelfObj) and isinstance(args[1], str):
            obj = args[0]
            if args[1] in obj.attrs:
                return obj.attrs[args[1]]
            m = obj.cls.find_method(args[1])
            if m is not None:
                return _Bound(obj, m)
            hit = obj.cls.find_attr(args[1])
            if hit is not None:
                return self.class_attr(hit[0], args[1])
            if len(args) == 3:
                return args[2]
            raise Raised('AttributeError', args[1])
        if name == 'getattr' and len(args) >= 2 and isinstance(args[0], ClassRef) and isinstance(args[1], str):
            c = self.repo.cls(args[0].module, args[0].name)
            hit = c.find_attr(args[1])
            if hit is not None:
                return self.class_attr(hit[0], args[1])
            m = c.find_method(args[1])
            if m is not None:
                return FuncRef(m.module.name, m.qualname)
            if len(args) == 3:
                return args[2]
            raise Raised('AttributeError', args[1])
        if name in ('isinstance', 'hasattr', 'callable', 'issubclass'):
            if name == 'isinstance' and len(args) == 2 and args[0] is not UNKNOWN and isinstance(args[1], _Builtin):
                t = {'tuple': tuple, 'list': list, 'dict': dict, 'int': int, 'str': str, 'bytes': bytes}.get(args[1].name)
                if t is not None:
                    return isinstance(args[0], t)
            return UNKNOWN
        if any(a is UNKNOWN for a in args):
            return UNKNOWN
        try:
            if name == 'dict':
                out: Dict[Any, Any] = {}
                if args:
                    src = args[0]
                    if isinstance(src, dict):
                        out.update(src)
                    else:
                        for pair in self._iterate(src):
                            k, v = pair
                            out[_hashable(k)] = v
                out.update(kwargs)
                return out
            if name in ('list', 'tuple', 'set', 'frozenset', 'sorted', 'reversed'):
                seq = list(self._iterate(args[0])) if args else []
                if name == 'sorted':
                    keyf = kwargs.get('key')
                    rev = bool(kwargs.get('reverse', False))
                    if keyf is None:
                        return sorted(seq, reverse=rev)
                    keys = []
                    for x in seq:
                        if isinstance(keyf, FuncVal):
                            k = self.call_funcval(keyf, [x], {})
                        elif isinstance(keyf, FuncRef):
                            k = self.call_function(self.repo.func(keyf.module, keyf.qualname), [x], {}, None)
                        else:
                            return UNKNOWN
                        if k is UNKNOWN:
                            return UNKNOWN
                        keys.append(k)
                    order = sorted(range(len(seq)), key=lambda i: keys[i], reverse=rev)     # stable, like sorted()
                    return [seq[i] for i in order]
                if name == 'reversed':
                    return list(reversed(seq))
                if name in ('set', 'frozenset'):
                    return set(_hashable(x) for x in seq)
                return tuple(seq) if name == 'tuple' else seq
            if name == 'range':
                return list(range(*[int(a) for a in args]))
            if name == 'len':
                return len(args[0])
            if name == 'zip':
                return [tuple(x) for x in zip(*[self._iterate(a) for a in args])]
            if name == 'enumerate':
                start = args[1] if len(args) > 1 else kwargs.get('start', 0)
                return [(i, x) for i, x in enumerate(self._iterate(args[0]), start)]
            if name in ('int', 'str', 'bool', 'abs', 'min', 'max', 'sum', 'hex', 'ord', 'chr', 'bytes'):
                if name in ('min', 'max', 'sum') and len(args) == 1:
                    args = [list(self._iterate(args[0]))]
                return {'int': int, 'str': str, 'bool': bool, 'abs': abs, 'min': min, 'max': max, 'sum': sum, 'hex': hex,
                        'ord': ord, 'chr': chr, 'bytes': bytes}[name](*args)
            if name == 'type' and len(args) == 1 and isinstance(args[0], SelfObj):
                return ClassRef(args[0].cls.module.name, args[0].cls.name)
            if name == 'super':
                return UNKNOWN
        except (Raised, CannotEval):
            raise
        except Exception as exc:
            raise CannotEval('%s(...) on constants: %s' % (name, exc))
        return UNKNOWN

    def method(self, obj, name, args, kwargs):
        if any(a is UNKNOWN for a in args) and name not in ('append', 'extend', 'update', 'setdefault', 'get'):
            return UNKNOWN
        try:
            if isinstance(obj, dict):
                if name == 'get':
                    if args[0] is UNKNOWN:
                        return UNKNOWN
                    return obj.get(_hashable(args[0]), args[1] if len(args) > 1 else None)
                if name == 'items':
                    return _Items([(k, v) for k, v in obj.items()])
                if name == 'keys':
                    return list(obj.keys())
                if name == 'values':
                    return list(obj.values())
                if name == 'copy':
                    return dict(obj)
                if name == 'update':
                    for a in args:
                        if isinstance(a, dict):
                            src = list(a.items())
                        elif a is UNKNOWN:
                            raise CannotEval('update with a non-constant mapping')
                        else:
                            src = [tuple(x) for x in self._iterate(a)]
                        for k, v in src:
                            obj[_hashable(k)] = v
                    obj.update(kwargs)
                    return None
                if name == 'setdefault':
                    return obj.setdefault(_hashable(args[0]), args[1] if len(args) > 1 else None)
                if name == 'fromkeys':
                    return dict.fromkeys([_hashable(x) for x in self._iterate(args[0])], args[1] if len(args) > 1 else None)
                if name == 'pop':
                    return obj.pop(_hashable(args[0]), *args[1:])
            if isinstance(obj, list):
                if name == 'append':
                    obj.append(args[0])
                    return None
                if name == 'extend':
                    obj.extend(self._iterate(args[0]))
                    return None
                if name == 'insert':
                    obj.insert(args[0], args[1])
                    return None
                if name in ('index', 'count', 'copy'):
                    return getattr(obj, name)(*args)
            if isinstance(obj, set) and name == 'add':
                obj.add(_hashable(args[0]))
                return None
            if isinstance(obj, (str, bytes)) and name in ('lower', 'upper', 'replace', 'split', 'strip', 'format', 'join',
                                                            'startswith', 'endswith', 'encode', 'decode'):
                return getattr(obj, name)(*args, **kwargs)
            if isinstance(obj, tuple) and name in ('index', 'count'):
                return getattr(obj, name)(*args)
        except (Raised, CannotEval):
            raise
        except Exception as exc:
            raise CannotEval('%s.%s on constants: %s' % (type(obj).__name__, name, exc))
        return UNKNOWN

    # ------------------------------------------------------------------ instances
    def constructed(self, c: ClassInfo) -> SelfObj:
        """the attribute values an instance of ``c`` has after ``__init__`` ran with unknown arguments"""
        obj = SelfObj(c)
        init = c.find_method('__init__')
        if init is None:
            return obj
        n = len(init.params) - 1
        self._cur_module = init.module
        env = {p: UNKNOWN for p in init.params[1:]}
        env[init.params[0]] = obj
        if init.node.args.vararg:
            env[init.node.args.vararg.arg] = UNKNOWN
        if init.node.args.kwarg:
            env[init.node.args.kwarg.arg] = UNKNOWN
        scope = Scope(init.module, c, env, obj)
        try:
            self.exec_block(body_without_docstring(init.node), scope)
        except _Return:
            pass
        return obj


class _Builtin:
    def __init__(self, name):
        self.name = name


class _Method:
    def __init__(self, obj, name):
        self.obj, self.name = obj, name


class _Bound:
    def __init__(self, obj: SelfObj, fi: FuncInfo):
        self.obj, self.fi = obj, fi

    @property
    def name(self):
        return self.fi.name


class _Subclasses:
    def __init__(self, cls: ClassInfo):
        self.cls = cls


class _Items:
    def __init__(self, items):
        self.items = items


class Record:
    """a constant record supplied by a rule (``Record(value=0x8020)``): attribute access reads its fields"""

    def __init__(self, **kw):
        self.vals = dict(kw)

    def get(self, a):
        return self.vals.get(a, UNKNOWN)


class NTuple(tuple):
    """an instance of a ``collections.namedtuple`` / ``typing.NamedTuple`` type built from constants: a tuple whose items can
    also be read by field name"""

    def __new__(cls, fields, values):
        obj = tuple.__new__(cls, values)
        obj.fields = tuple(fields)
        return obj

    def get(self, a):
        return self[self.fields.index(a)] if a in self.fields else UNKNOWN


class _NTClass:
    def __init__(self, name, fields, defaults=None):
        self.name, self.fields, self.defaults = name, list(fields), dict(defaults or {})

    def make(self, args, kwargs):
        if len(args) > len(self.fields) or any(k not in self.fields for k in kwargs):
            raise Raised('TypeError', 'bad arguments for %s' % self.name)
        vals = dict(zip(self.fields, args))
        for k, v in kwargs.items():
            if k in vals:
                raise Raised('TypeError', 'duplicate argument %s' % k)
            vals[k] = v
        for f in self.fields:
            if f not in vals:
                if f not in self.defaults:
                    raise Raised('TypeError', 'missing argument %s' % f)
                vals[f] = self.defaults[f]
        return NTuple(self.fields, [vals[f] for f in self.fields])


class _Row:
    """an instance of a package class built with constant arguments: its constructor parameters by name"""

    def __init__(self, c: ClassInfo, args, kwargs, pe: 'PEval'):
        self.cls = c
        init = c.find_method('__init__')
        names = init.params[1:] if init is not None else []
        self.vals = dict(zip(names, args))
        self.vals.update(kwargs)
        self.args = tuple(args)

    def get(self, a):
        return self.vals.get(a, UNKNOWN)


_BUILTINS = {'dict', 'list', 'tuple', 'set', 'frozenset', 'sorted', 'reversed', 'range', 'len', 'zip', 'enumerate', 'int', 'str',
             'bool', 'abs', 'min', 'max', 'sum', 'hex', 'ord', 'chr', 'bytes', 'getattr', 'isinstance', 'hasattr', 'callable',
             'issubclass', 'type', 'super'}
_IN_PROGRESS = object()


def _hashable(k):
    if isinstance(k, list):
        return tuple(_hashable(x) for x in k)
    if isinstance(k, tuple):
        return tuple(_hashable(x) for x in k)
    return k


def _load(t):
    import copy
    t2 = copy.deepcopy(t)
    for n in ast.walk(t2):
        if hasattr(n, 'ctx'):
            n.ctx = ast.Load()
    return t2
