#!/bin/bash
# with_patch.sh <patch.diff> <command...>: run a command with VERIF_REPO pointing at a scratch copy of /repo's package with the patch applied
p=$(realpath $1); shift
tmp=$(mktemp -d /tmp/wp_XXXX)
cp -r /repo/pynetdicom2 $tmp/
(cd $tmp && patch -p1 -s --no-backup-if-mismatch -i $p) || { echo "PATCH FAILED"; rm -rf $tmp; exit 9; }
VERIF_REPO=$tmp VERIF_EVIDENCE_DIR=$tmp/ev "$@"
rc=$?
rm -rf $tmp
exit $rc
