"""C03 -- PDU framing is independent of how TCP segments the byte stream.

Decided: buffer discipline (single buffer, header arithmetic derived from the PDU
header layout, drain order) and the event-slot/queue pairing of the provider loop.
Not decided: equality of observable behaviour over concrete partitions."""
from __future__ import annotations

import ast
import struct as _struct
from typing import Optional

from ..flow import attr_chain
from ..fsm_model import FsmModel
from ..provider_model import ProviderModel, PRODUCERS, parse_cond
from ..srcmodel import AnalysisError, StructVal
from ..sym import empty_state

BUF = 'self.raw_pdu'


def header_layout(repo):
    """(offset of the length field, its size, header size, big-endian?) derived from the PDU
    classes' header structs: type(1) reserved(1) length(4) ..."""
    facts = set()
    for name in ('AAssociatePDUBase', 'PDataTfPDU', 'AAssociateRjPDU', 'AReleasePDUBase', 'AAbortPDU'):
        c = repo.cls('pdu', name)
        sv = None
        for attr in ('header', 'format'):
            hit = c.find_attr(attr)
            if hit:
                sv = repo.try_fold(ast.Attribute(value=ast.Name(id='cls', ctx=ast.Load()), attr=attr, ctx=ast.Load()), c.module, c)
        if not isinstance(sv, StructVal):
            raise AnalysisError('pdu.%s has no header struct' % name)
        fmt = sv.fmt.replace(' ', '')
        order = fmt[0] if fmt[0] in '<>!=@' else '@'
        codes = fmt[1:] if fmt[0] in '<>!=@' else fmt
        # first three fields
        import re
        toks = re.findall(r'(\d*)([a-zA-Z])', codes)
        flat = []
        for n, ch in toks:
            if ch == 's':
                flat.append(n + 's')
            else:
                flat.extend([ch] * (int(n) if n else 1))
        off = _struct.calcsize(order + ''.join(flat[:2]))
        size = _struct.calcsize(order + flat[2])
        facts.add((off, size, off + size, order in '>!'))
    if len(facts) != 1:
        raise AnalysisError('PDU classes disagree on the header layout: %s' % sorted(facts))
    return facts.pop()


def _len_buf_bound(c: str, buf: Optional[str] = None) -> Optional[tuple]:
    """If the condition is a comparison of len(buffer) with an expression E, return
    (E text, slack) meaning the path guarantees len(buffer) >= E + slack."""
    pol, e = parse_cond(c)
    if e is None or not isinstance(e, ast.Compare) or len(e.ops) != 1:
        return None
    l, r, op = e.left, e.comparators[0], e.ops[0]

    def is_len(x):
        return isinstance(x, ast.Call) and isinstance(x.func, ast.Name) and x.func.id == 'len' \
            and x.args and ast.unparse(x.args[0]) == (buf or BUF)
    if is_len(l):
        other, flip = r, False
    elif is_len(r):
        other, flip = l, True
    else:
        return None
    name = type(op).__name__
    if flip:
        name = {'Lt': 'Gt', 'Gt': 'Lt', 'LtE': 'GtE', 'GtE': 'LtE'}.get(name, name)
    # len OP other, with polarity
    if name == 'Lt':
        return (ast.unparse(other), 0) if pol is False else None
    if name == 'LtE':
        return (ast.unparse(other), 1) if pol is False else None
    if name == 'GtE':
        return (ast.unparse(other), 0) if pol is True else None
    if name == 'Gt':
        return (ast.unparse(other), 1) if pol is True else None
    return None


def _parse_full_length(term: str, repo=None, buf: Optional[str] = None):
    """X = <big-endian unsigned read of buf[a:b]> + k  ->  (fmt, a, b, k) or None.  Understood readers:
    struct.unpack(fmt, buf[a:b])[0], S.unpack(buf[a:b])[0], struct.unpack_from(fmt, buf, a)[0], S.unpack_from(buf, a)[0]
    (S a struct.Struct constant), int.from_bytes(buf[a:b], 'big')."""
    import struct as _st
    from ..srcmodel import StructVal
    try:
        e = ast.parse(term, mode='eval').body
    except SyntaxError:
        return None
    if not (isinstance(e, ast.BinOp) and isinstance(e.op, ast.Add)):
        return None
    a, b = e.left, e.right

    def const_of(x):
        if isinstance(x, ast.Constant) and isinstance(x.value, int) and not isinstance(x.value, bool):
            return x.value
        if repo is not None and not isinstance(x, ast.Constant):
            v = repo.try_fold(x, repo.module('dulprovider'), repo.cls('dulprovider', 'DULServiceProvider'))
            if isinstance(v, int) and not isinstance(v, bool):
                return v       # ``S.size`` of a struct.Struct constant, a named constant
        return None
    if const_of(a) is not None:
        a, b = b, a
    k = const_of(b)
    if k is None:
        return None

    def buf_slice(sl):
        if not (isinstance(sl, ast.Subscript) and ast.unparse(sl.value) == (buf or BUF) and isinstance(sl.slice, ast.Slice)):
            return None
        lo = sl.slice.lower.value if isinstance(sl.slice.lower, ast.Constant) else (0 if sl.slice.lower is None else None)
        hi = sl.slice.upper.value if isinstance(sl.slice.upper, ast.Constant) else None
        return lo, hi
    # int.from_bytes(buf[a:b], 'big')
    if isinstance(a, ast.Call) and ast.unparse(a.func) == 'int.from_bytes' and a.args:
        bs = buf_slice(a.args[0])
        order = a.args[1].value if len(a.args) > 1 and isinstance(a.args[1], ast.Constant) else \
            next((kw.value.value for kw in a.keywords if kw.arg == 'byteorder' and isinstance(kw.value, ast.Constant)), None)
        if bs is None or bs[0] is None or bs[1] is None:
            return None
        fmt = {('big', 4): '>L', ('little', 4): '<L', ('big', 2): '>H', ('little', 2): '<H'}.get((order, bs[1] - bs[0]), '?%s%d' % (order, bs[1] - bs[0]))
        return fmt, bs[0], bs[1], k
    if not (isinstance(a, ast.Subscript) and isinstance(a.slice, ast.Constant) and isinstance(a.slice.value, int)
            and not isinstance(a.slice.value, bool)):
        return None
    field_index = a.slice.value
    call = a.value
    if not (isinstance(call, ast.Call) and isinstance(call.func, ast.Attribute)):
        return None
    meth = call.func.attr
    recv = call.func.value
    args = list(call.args)
    fmt = None
    if ast.unparse(recv) == 'struct' and args and isinstance(args[0], ast.Constant) and isinstance(args[0].value, str):
        fmt = args[0].value
        args = args[1:]
    elif repo is not None:
        v = repo.try_fold(recv, repo.module('dulprovider'), repo.cls('dulprovider', 'DULServiceProvider'))
        if isinstance(v, StructVal):
            fmt = v.fmt
    if fmt is None:
        return None
    # the selected field of the struct: its own format and its byte range inside the struct (pad bytes ``x`` take room
    # but yield no value)
    from ..layout import parse_fmt
    try:
        order, fields = parse_fmt(fmt)
        if order not in '<>!=':
            return None       # native alignment: layout depends on the platform
        total = _st.calcsize(fmt)
    except (_st.error, Exception):
        return None
    pos, vals = 0, []
    for ch, w in fields:
        if ch != 'x':
            vals.append((ch, pos, w))
        pos += w
    if pos != total or not (-len(vals) <= field_index < len(vals)):
        return None
    ch, fo, fw = vals[field_index]
    ffmt = order + ch
    if meth == 'unpack' and len(args) == 1:
        bs = buf_slice(args[0])
        if bs is None or bs[0] is None or bs[1] is None or bs[1] - bs[0] != total:
            return (ffmt, bs[0], bs[1], k) if bs is not None and len(vals) == 1 else None
        return ffmt, bs[0] + fo, bs[0] + fo + fw, k
    if meth == 'unpack_from' and args and ast.unparse(args[0]) == (buf or BUF):
        off = args[1].value if len(args) > 1 and isinstance(args[1], ast.Constant) else 0 if len(args) == 1 else None
        if off is None:
            return None
        return ffmt, off + fo, off + fo + fw, k
    return None


def window_needed(ev, repo, buf: Optional[str] = None) -> Optional[int]:
    """Number of buffered bytes the fixed-window read of the receive buffer in this event relies on: ``unpack(fmt, buf[a:b])`` /
    ``S.unpack(buf[a:b])`` / ``int.from_bytes(buf[a:b], ..)`` need b, ``unpack_from(fmt, buf, a)`` needs a + calcsize(fmt),
    ``indexbytes(buf, i)`` needs i + 1.  None when the event does not read a window of the buffer with literal bounds
    (prefix and remainder slices with a computed bound are B2's own subject)."""
    import struct as _st
    from ..srcmodel import StructVal
    buf = buf or BUF
    callee = ev.callee
    last = callee.rsplit('.', 1)[-1]

    def window(term):
        try:
            x = ast.parse(term, mode='eval').body
        except SyntaxError:
            return None
        lo, hi = 0, None
        chain = []
        while isinstance(x, ast.Subscript) and isinstance(x.slice, ast.Slice) and x.slice.step is None:
            chain.append(x.slice)
            x = x.value
        if ast.unparse(x) != buf or not chain:
            return None
        for sl in reversed(chain):
            l_ = 0 if sl.lower is None else (sl.lower.value if isinstance(sl.lower, ast.Constant) and isinstance(sl.lower.value, int) else None)
            h_ = None if sl.upper is None else (sl.upper.value if isinstance(sl.upper, ast.Constant) and isinstance(sl.upper.value, int) else 'x')
            if l_ is None or l_ < 0 or h_ == 'x' or (h_ is not None and h_ < 0):
                return None
            nhi = None if h_ is None else lo + h_
            hi = nhi if hi is None else (hi if nhi is None else min(hi, nhi))
            lo = lo + l_
        return lo, hi

    def width_of(fmt_term, recv_term):
        fmt = None
        try:
            e = ast.parse(fmt_term, mode='eval').body if fmt_term is not None else None
        except SyntaxError:
            e = None
        if isinstance(e, ast.Constant) and isinstance(e.value, (str, bytes)):
            fmt = e.value
        elif recv_term is not None:
            try:
                v = repo.try_fold(ast.parse(recv_term, mode='eval').body, repo.module('dulprovider'), repo.cls('dulprovider', 'DULServiceProvider'))
            except SyntaxError:
                v = None
            if isinstance(v, StructVal):
                fmt = v.fmt
        if fmt is None:
            return None
        try:
            return _st.calcsize(fmt)
        except _st.error:
            return None
    args = list(ev.args)
    if last == 'unpack':
        data = args[-1] if args else None
        w = window(data) if data else None
        return w[1] if w and w[1] is not None else None
    if last == 'from_bytes':
        w = window(args[0]) if args else None
        return w[1] if w and w[1] is not None else None
    if last == 'unpack_from':
        if callee == 'struct.unpack_from':
            fmt_t, rest, recv_t = (args[0] if args else None), args[1:], None
        else:
            fmt_t, rest, recv_t = None, args, callee.rsplit('.', 1)[0]
        if not rest or rest[0] != buf:
            return None
        off_ = 0
        if len(rest) > 1:
            if not rest[1].isdigit():
                return None
            off_ = int(rest[1])
        wd = width_of(fmt_t, recv_t)
        return None if wd is None else off_ + wd
    if last == 'indexbytes':
        if len(args) == 2 and args[0] == buf and args[1].isdigit():
            return int(args[1]) + 1
        w = window(args[0]) if args else None
        if w and len(args) == 2 and args[1].isdigit():
            return w[0] + int(args[1]) + 1
    return None


def buffer_anchor(repo):
    """The rules about the receive buffer read it as the bytes-valued attribute ``raw_pdu`` of the provider, written by plain
    assignments.  When it is not that any more (kept in an object of its own, behind a property) what the rules would say
    about it is not a verdict: the analysis stops."""
    c = repo.cls('dulprovider', 'DULServiceProvider')
    if 'raw_pdu' in c.setters or (c.find_method('raw_pdu') is not None):
        raise AnalysisError('%s: the receive buffer raw_pdu is a computed property; its representation (%s) is not modelled'
                            % (c.loc(), 'an object of a helper class' if any(repo.is_helper_class(k) for k in repo.all_classes()
                                                                              if k.module.name == 'dulprovider') else 'not a bytes attribute'))
    n = 0
    for f in list(c.methods.values()):
        for x in ast.walk(f.node):
            tg = x.targets if isinstance(x, ast.Assign) else [x.target] if isinstance(x, (ast.AugAssign, ast.AnnAssign)) else []
            for t in tg:
                ch = attr_chain(t)
                if ch and list(ch) == ['self', 'raw_pdu']:
                    n += 1
    if n == 0:
        raise AnalysisError('%s: nothing assigns self.raw_pdu: the receive buffer is not the bytes attribute the rules read' % c.loc())
    return n


def drain_order_problems(finals):
    """B3 core (shared with C05.G7 and C14.J4): on every path through _check_network the bytes just received are
    offered to the framer before returning, and the socket is only read when the buffer was offered to the framer first
    (or is empty) -- otherwise a close or further data overtakes complete PDUs already buffered."""
    problems = []
    n_app = 0
    for s, how in finals:
        tr = list(s.trail)
        for i, ev in enumerate(tr):
            if ev.kind == 'store' and ev.callee == BUF and ev.args[0].startswith('AUG('):
                n_app += 1
                if not any(e.kind == 'call:_process_incoming' or e.kind == 'decode' for e in tr[i + 1:]):
                    problems.append('path appends received bytes (line %d) and returns without trying to frame a PDU' % ev.line)
            if ev.kind == 'recv' and '.recv' in ev.callee:
                if any(c.startswith('+') and 'States.STA_13' in c and 'current_state' in c for c in ev.conds):
                    continue   # Sta13: waiting for the peer's close, whatever arrives is discarded (AA-6)
                tried = any(e.kind == 'call:_process_incoming' for e in tr[:i])
                empty = any(c in ('-' + BUF, '+not ' + BUF, '+len(%s) == 0' % BUF, '-len(%s)' % BUF) for c in ev.conds)
                if not tried and not empty:
                    problems.append('the socket is read (line %d) on a path where the buffer may hold bytes that were not '
                                    'offered to the framer first: a close or further data overtakes complete PDUs already '
                                    'buffered' % ev.line)
    return problems, n_app


def run(repo, rep):
    from ..pitfalls import memo_rule as _memo_rule
    _memo_rule(repo, rep, 'C03', 'C03.Z1')
    from ..pitfalls import log_rule as _log_rule
    _log_rule(repo, rep, 'C03', 'C03.Z2')
    from ..api_pitfalls import truth_rule as _truth_rule
    _truth_rule(repo, rep, 'C03', 'C03.Z4')
    from ..api_pitfalls import attribute_rule as _attribute_rule
    _attribute_rule(repo, rep, 'C03', 'C03.Z5')
    model = FsmModel(repo)
    pm = ProviderModel(repo, model)
    off, size, hdr, big = header_layout(repo)
    rep.trust('CPython semantics of bytes slicing/concatenation, struct.unpack, socket.recv, collections.deque')
    rep.assume('C01/C02 establish that every PDU class has the header type(1) reserved(1) length(4, big-endian); '
               'derived here from the header structs: length field at [%d:%d], header size %d' % (off, off + size, hdr))
    rep.rule('C03.B1', 'the receive buffer has exactly three kinds of writers: initialisation to empty, append of the '
             'bytes just received, removal of the consumed prefix; received bytes flow nowhere else', 3)
    rep.rule('C03.B2', 'header arithmetic is derived from the PDU header layout: guards, length slice, unpack format, '
             'full length, PDU slice and remainder agree; guards are strict', 1)
    rep.rule('C03.B3', 'after appending to the buffer every path tries to frame a PDU before returning; buffered data is '
             'tried before the socket is read again', 1)
    rep.rule('C03.B4', 'each producer appends exactly one event on every path returning true and none on paths returning false', 3)
    rep.rule('C03.B5', 'the event popped in an iteration is the one belonging to the primitive slot written in that '
             'iteration: the queue is empty whenever a slot-writing producer may run', 1)

    # ---------------------------------------------------------------- B1
    buffer_anchor(repo)
    writers = []
    for c in repo.all_classes():
        for f in list(c.methods.values()) + list(c.setters.values()):
            for n in ast.walk(f.node):
                tgts = []
                if isinstance(n, ast.Assign):
                    tgts = n.targets
                elif isinstance(n, (ast.AugAssign, ast.AnnAssign)):
                    tgts = [n.target]
                for t in tgts:
                    ch = attr_chain(t)
                    if ch and len(ch) >= 2 and ch[-1] == 'raw_pdu':
                        writers.append((f, n))
    init_ok = False
    for f, n in writers:
        rep.analysed(f)
    finals = pm.paths('_check_network')
    rep.analysed(pm.method('_check_network'))
    for h in ('_check_incoming_pdu', '_process_incoming', '_close'):
        rep.analysed(pm.method(h))
    kinds = {}
    recv_terms = set()
    for s, how in finals:
        for ev in s.trail:
            if ev.kind == 'recv':
                recv_terms.add('%s(%s)' % (ev.callee, ', '.join(ev.args)))
    # each writer function on its own, so that the buffer is the opaque term self.raw_pdu
    local_finals = []
    for fname in sorted({f.name for f, n in writers if f.cls is not None and f.cls.key == pm.cls.key and f.name != '__init__'}):
        local_finals.extend(pm.paths(fname, inline_helpers=False))
    for s, how in local_finals:
        for ev in s.trail:
            if ev.kind == 'store' and ev.callee == BUF:
                term = ev.args[0]
                kind = 'other'
                if term.startswith('AUG(%s, ' % BUF) or term.startswith(BUF + ' + '):
                    rhs = term[len('AUG(%s, ' % BUF):-1].split(', ', 1)[1] if term.startswith('AUG(') else term[len(BUF) + 3:]
                    op_ok = term.startswith(BUF + ' + ') or "'Add'" in term
                    kind = 'append' if (rhs in recv_terms and op_ok) else 'append-foreign'
                else:
                    try:
                        e = ast.parse(term, mode='eval').body
                    except SyntaxError:
                        e = None
                    if isinstance(e, ast.Subscript) and ast.unparse(e.value) == BUF and isinstance(e.slice, ast.Slice) \
                            and e.slice.upper is None and e.slice.step is None and e.slice.lower is not None:
                        kind = 'consume'
                kinds.setdefault((ev.line, kind), term)
    for f, n in writers:
        if f.name == '__init__':
            v = n.value if hasattr(n, 'value') else None
            ok = isinstance(n, ast.Assign) and isinstance(v, ast.Constant) and v.value == b''
            rep.check(ok, 'C03.B1', 'dulprovider:%s:raw_pdu-writer:init' % f.qualname, f.loc(n),
                      'buffer initialised empty', 'buffer initialised to %s' % (ast.unparse(v) if v is not None else '?'))
            init_ok = True
            continue
        ks = sorted(k for (line, k) in kinds if line == n.lineno)
        if not ks:
            if repo.is_helper(f) and any(h_[1] == f.key for h_ in repo.normalized_helpers):
                continue        # judged where the helper is inlined
            # a reset of the buffer by the state machine: only where nothing that was received can be pending -- on entering
            # Sta1 (no transport), Sta2 / Sta4 (a new transport, nothing read from it), Sta13 (input is discarded)
            v_ = getattr(n, 'value', None)
            if isinstance(n, ast.Assign) and isinstance(v_, ast.Constant) and v_.value == b'':
                from ..fsm_model import NO_PENDING_INPUT_STATES, entered_states
                from ..sym import SymClient as _SC, empty_state as _es
                cl_ = _SC(repo, f, event_of=lambda *a: None, hierarchy=pm.hier, inline=repo.is_helper,
                          store_event=lambda t: t.endswith('.raw_pdu'))
                cl_.run(_es())
                sts_ = [(e_, s_) for e_, s_ in cl_.log if e_.kind == 'store' and e_.callee.endswith('.raw_pdu')]
                bad_ = []
                for e_, s_ in sts_:
                    ent = entered_states(e_.conds, repo)
                    if ent is None:
                        bad_.append('the buffer is emptied at line %d on a path that is not tied to the state being entered' % e_.line)
                    elif not ent <= set(NO_PENDING_INPUT_STATES):
                        bad_.append('the buffer is emptied when the machine enters %s: in %s bytes that arrived behind the PDU that caused the '
                                    'transition (same segment) are still to be framed' % (sorted(ent), sorted(ent - set(NO_PENDING_INPUT_STATES))))
                rep.check(bool(sts_) and not bad_, 'C03.B1', 'dulprovider:%s:raw_pdu-writer:reset' % f.qualname, f.loc(n),
                          'buffer emptied only on entering a state without pending input (%d paths)' % len(sts_),
                          '; '.join(sorted(set(bad_))) or 'reset site not reached by the analysis')
                continue
            rep.bad('C03.B1', 'dulprovider:%s:raw_pdu-writer:L-unreached' % f.qualname, f.loc(n),
                    'write to the receive buffer outside the analysed receive path: %s' % ast.unparse(n))
            continue
        for k in ks:
            what = {'append': 'appends exactly the bytes returned by recv()',
                    'consume': 'removes a prefix of the buffer',
                    'append-foreign': 'appends something that is not the result of recv(): %s' % kinds[(n.lineno, k)],
                    'other': 'overwrites the buffer with %s' % kinds[(n.lineno, k)]}[k]
            rep.check(k in ('append', 'consume'), 'C03.B1', 'dulprovider:%s:raw_pdu-writer:%s' % (f.qualname, k),
                      f.loc(n), what, what)
    if not init_ok:
        rep.bad('C03.B1', 'dulprovider:DULServiceProvider.__init__:raw_pdu-writer:init', pm.cls.loc(), 'buffer never initialised')
    # received bytes flow nowhere else: the recv term may only occur in the buffer append and in tests
    leaks = set()

    def whole_pdu_shortcut(conds, rt) -> bool:
        """do the path conditions say that nothing is buffered and that the bytes just received are exactly one PDU
        (header complete, 6 + big-endian length at [2:6] == their length)?  Then decoding them directly is what appending
        them to the empty buffer and framing would do, and nothing is left over."""
        empty = any(c in ('-' + BUF, '+not ' + BUF, '+len(%s) == 0' % BUF, '+0 == len(%s)' % BUF, '-len(%s)' % BUF) for c in conds)
        if not empty:
            return False
        whole = False
        for c in conds:
            pol, e = parse_cond(c)
            if e is None or not isinstance(e, ast.Compare) or len(e.ops) != 1:
                continue
            op = e.ops[0]
            if not ((isinstance(op, ast.Eq) and pol) or (isinstance(op, ast.NotEq) and pol is False)):
                continue
            for a_, b_ in ((e.left, e.comparators[0]), (e.comparators[0], e.left)):
                if ast.unparse(a_) == 'len(%s)' % rt:
                    parsed = _parse_full_length(ast.unparse(b_), repo, buf=rt)
                    if parsed is not None and parsed[0].replace(' ', '') in ('>L', '>I', '!L', '!I') \
                            and (parsed[1], parsed[2], parsed[3]) == (off, off + size, hdr):
                        whole = True
        bounds = [b for b in (_len_buf_bound(c, rt) for c in conds) if b]

        def as_int0(t):
            try:
                v = repo.try_fold(ast.parse(t, mode='eval').body, repo.module('dulprovider'), repo.cls('dulprovider', 'DULServiceProvider'))
            except SyntaxError:
                return None
            return v if isinstance(v, int) and not isinstance(v, bool) else None
        header_ok = any(as_int0(t) is not None and as_int0(t) + sl >= hdr for t, sl in bounds)
        return whole and header_ok
    def infeasible(conds, rt) -> bool:
        """non-empty and of length 0 at once: bytes are truthy exactly when their length is not 0"""
        truthy = ('+' + rt) in conds
        falsy = ('-' + rt) in conds
        zero = any(c in conds for c in ('+0 == len(%s)' % rt, '+len(%s) == 0' % rt, '-len(%s)' % rt, '-len(%s) != 0' % rt))
        nonzero = any(c in conds for c in ('-0 == len(%s)' % rt, '-len(%s) == 0' % rt, '+len(%s)' % rt, '+len(%s) != 0' % rt))
        return (truthy and zero) or (falsy and nonzero)
    for s, how in finals:
        for ev in s.trail:
            if ev.kind in ('store', 'append', 'indicate', 'decode') and not (ev.kind == 'store' and ev.callee == BUF):
                for a in ev.args:
                    for rt in recv_terms:
                        if rt in a and BUF not in a.replace(rt, ''):
                            if infeasible(ev.conds, rt):
                                continue
                            if whole_pdu_shortcut(ev.conds, rt):
                                rep.notes['whole_pdu_shortcut'] = 'recv() bytes decoded directly on a path where the buffer is empty and they are exactly one PDU'
                                continue
                            leaks.add('%s at line %d receives recv() bytes directly' % (ev.kind, ev.line))
    rep.check(not leaks, 'C03.B1', 'dulprovider:DULServiceProvider._check_network:recv-flow', pm.method('_check_network').loc(),
              'bytes returned by recv() flow only into the buffer append', '; '.join(sorted(leaks)))

    # ---------------------------------------------------------------- B2
    problems = []
    n_decode = 0

    def as_int(t):
        """the bound as an integer: a literal, or an expression that folds to one (``S.size``, a named constant)"""
        if t.isdigit():
            return int(t)
        try:
            v = repo.try_fold(ast.parse(t, mode='eval').body, repo.module('dulprovider'), repo.cls('dulprovider', 'DULServiceProvider'))
        except SyntaxError:
            return None
        return v if isinstance(v, int) and not isinstance(v, bool) else None
    for s, how in pm.paths('_process_incoming', inline_helpers=False):
        decs = [e for e in s.trail if e.kind == 'decode' and 'PDU_TYPES' in e.callee or (e.kind == 'decode' and e.args and BUF in e.args[0])]
        if not decs:
            continue
        n_decode += 1
        dec = decs[-1]
        arg = dec.args[0]
        try:
            ae = ast.parse(arg, mode='eval').body
        except SyntaxError:
            ae = None
        if not (isinstance(ae, ast.Subscript) and ast.unparse(ae.value) == BUF and isinstance(ae.slice, ast.Slice)
                and ae.slice.lower is None and ae.slice.upper is not None):
            problems.append('decode() does not receive a prefix slice of the buffer: %s' % arg)
            continue
        X = ast.unparse(ae.slice.upper)
        parsed = _parse_full_length(X, repo)
        if parsed is None:
            problems.append('PDU length expression not recognised: %s' % X)
            continue
        fmt, lo, hi, k = parsed
        f2 = fmt.replace(' ', '')
        if f2 not in ('>L', '>I', '!L', '!I'):
            problems.append('length unpacked with %r, header layout says 4 bytes big-endian unsigned' % fmt)
        if (lo, hi) != (off, off + size):
            problems.append('length taken from buffer[%s:%s], header layout says [%d:%d]' % (lo, hi, off, off + size))
        if k != hdr:
            problems.append('full length = length + %d, header size is %d' % (k, hdr))
        # remainder uses the same bound
        rem = [e for e in s.trail if e.kind == 'store' and e.callee == BUF and not e.args[0].startswith('AUG(')]
        # the remainder term was computed before the store, on the old buffer
        if not rem:
            problems.append('the consumed PDU is not removed from the buffer')
        else:
            r = rem[-1].args[0]
            if r != '%s[%s:]' % (BUF, X):
                problems.append('remainder is %s, PDU slice is [:%s]' % (r, X))
            if s.trail.index(rem[-1]) < s.trail.index(dec):
                pass  # order irrelevant: the slice was taken from the old buffer value (terms are values)
        # guards on the path, at the time of the decode
        bounds = [b for b in (_len_buf_bound(c) for c in dec.conds) if b]
        g1v = [as_int(t) + sl for (t, sl) in bounds if as_int(t) is not None]
        if not g1v:
            problems.append('no guard ensures the header is complete before the length field is read')
        elif max(g1v) != hdr:
            problems.append('header guard guarantees %d buffered bytes, header size is %d' % (max(g1v), hdr))
        g2 = [sl for (t, sl) in bounds if t == X]
        if not g2:
            problems.append('no guard compares the buffered length with the full PDU length %s' % X)
        elif max(g2) != 0:
            problems.append('body guard is not strict: a complete PDU is held back until %d more byte(s) arrive' % max(g2))
    if n_decode == 0:
        raise AnalysisError('no path through _check_network reaches a PDU decode')
    # every fixed window of the buffer that is read anywhere in the provider (not only on the way to the decode) is read
    # under a guard for that many bytes: recv() may return any non-empty prefix of what was asked for, so "the buffer is not
    # empty" says nothing about a complete header
    n_windows = 0
    for fn_ in sorted(set(PRODUCERS) | {'_check_incoming_pdu', '_process_incoming'}):
        if pm.cls.find_method(fn_) is None:
            continue
        _fin, log_ = pm.paths_and_log(fn_, inline_helpers=False)
        for ev, _st_ in log_:
            if ev.kind not in ('unpack', 'indexbytes'):
                continue
            need = window_needed(ev, repo)
            if need is None:
                continue
            n_windows += 1
            have = [as_int(t) + sl for (t, sl) in (b for b in (_len_buf_bound(c) for c in ev.conds) if b) if as_int(t) is not None]
            if not have or max(have) < need:
                problems.append('line %d reads buffer bytes up to offset %d on a path that guarantees %s buffered byte(s): recv() may '
                                'have returned only part of the header' % (ev.line, need, max(have) if have else
                                                                           ('at least 1' if '+' + BUF in ev.conds else 'no')))
    if n_windows == 0 and not problems:
        rep.undecided('C03.B2', 'no fixed-window read of the receive buffer found: the length field is read in a form the window clause '
                      'does not know')
    rep.check(not problems, 'C03.B2', 'dulprovider:DULServiceProvider._process_incoming:header-arithmetic',
              pm.method('_process_incoming').loc(),
              'guards, length slice [%d:%d], big-endian unpack, +%d and both slices agree on %d decode path(s)'
              % (off, off + size, hdr, n_decode), '; '.join(sorted(set(problems))))

    # ---------------------------------------------------------------- B3
    problems, n_app = drain_order_problems(finals)
    if n_app == 0:
        problems.append('no path appends the received bytes to the buffer')
    rep.check(not problems, 'C03.B3', 'dulprovider:DULServiceProvider._check_network:drain-order',
              pm.method('_check_network').loc(), 'every append is followed by a framing attempt (%d paths with append)' % n_app,
              '; '.join(sorted(set(problems))))

    # ---------------------------------------------------------------- B4
    from ..excmodel import node_raises, folder
    _fold = folder(repo, 'dulprovider', 'DULServiceProvider')
    for name in PRODUCERS:
        f = pm.method(name)
        rep.analysed(f)
        fin = pm.paths(name, raises_of=lambda node, cl, st: node_raises(node, lambda e: cl.term(e, st, heap_ext=False), _fold))
        problems = []
        for s, how in fin:
            if not how.startswith('ret') and how != 'fall':
                continue
            n = sum(1 for e in s.trail if e.kind == 'append')
            if s.ret == 'True' and n != 1:
                problems.append('returns True with %d events appended [%s]' % (n, ' '.join(s.conds)))
            elif s.ret in ('False', 'None') and n != 0:
                problems.append('returns %s although %d event(s) were appended [%s]' % (s.ret, n, ' '.join(s.conds)))
            elif s.ret not in ('True', 'False', 'None'):
                problems.append('returns %s, not a boolean constant' % s.ret)
        rep.check(not problems, 'C03.B4', 'dulprovider:DULServiceProvider.%s:one-event' % name, f.loc(),
                  'exactly one event iff true on %d path(s)' % len(fin), '; '.join(sorted(set(problems))[:4]))

    # ---------------------------------------------------------------- B5
    init = pm.method('__init__')
    rep.analysed(init)
    q0 = 0
    for s, how in pm.paths('__init__'):
        n = 0
        for ev in s.trail:
            if ev.kind == 'start':
                break
            if ev.kind == 'append':
                n += 1
        # appends after start() race with the thread; count them too
        n = max(n, sum(1 for ev in s.trail if ev.kind == 'append'))
        q0 = max(q0, n)
    runf = pm.method('run')
    rep.analysed(runf)
    loop = next((n for n in ast.walk(runf.node) if isinstance(n, ast.While)), None)
    if loop is None:
        raise AnalysisError('no loop in run')
    c = pm.client('run', inline_helpers=False)
    from ..flow import Flow
    o = Flow(c).run(loop.body, [empty_state()])
    guarded = True
    n_calls = 0
    for s in list(o.fall) + list(o.cont) + [x for x, _ in o.ret] + list(o.brk) + [x for x, _ in o.exc]:
        for ev in s.trail:
            if ev.kind in ('call:_check_network', 'call:_check_outgoing_pdu'):
                n_calls += 1
                if not any(_says_queue_empty(cn) for cn in ev.conds):
                    guarded = False
    if n_calls == 0:
        raise AnalysisError('producers are not called from the loop body of run')
    # who else appends to the queue?  (actions must not)
    foreign = []
    for m in repo.modules.values():
        for n in ast.walk(m.tree):
            if isinstance(n, ast.Call) and isinstance(n.func, ast.Attribute) and n.func.attr in ('append', 'appendleft', 'extend'):
                ch = attr_chain(n.func.value)
                if ch and ch[-1] == 'event' and m.name != 'dulprovider':
                    foreign.append('%s:%d' % (m.relpath, n.lineno))
    ok = (q0 == 0 or guarded) and not foreign
    why = []
    if q0 and not guarded:
        why.append('the constructor queues %d event(s) before the loop starts and the loop polls the slot-writing producers '
                   'while the queue is not empty: the queue runs ahead of the single primitive slot, so a PDU that is '
                   'already waiting overwrites the primitive of the event popped next' % q0)
    if foreign:
        why.append('events are queued outside the provider: %s' % ', '.join(foreign))
    rep.check(ok, 'C03.B5', 'dulprovider:DULServiceProvider.run:slot-queue-pairing', runf.loc(loop),
              'queue empty whenever a slot-writing producer runs (q0=%d, producers guarded by emptiness: %s)' % (q0, guarded),
              '; '.join(why))


def _says_queue_empty(c: str) -> bool:
    pol, e = parse_cond(c)
    if e is None:
        return False
    t = ast.unparse(e)
    if t == 'self.event':
        return pol is False
    if t in ('len(self.event) == 0', 'not self.event', '0 == len(self.event)'):
        return pol is True
    if t in ('len(self.event)', 'len(self.event) > 0', 'len(self.event) != 0', 'len(self.event) >= 1'):
        return pol is False
    return False
