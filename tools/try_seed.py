#!/usr/bin/env python3
"""Evaluate a seeded change: tools/try_seed.py <worktree-or-dir-with-patch> [--keep]

With a git worktree that has the change applied (uncommitted): confirms that the stable tests pass,
that demo.py fails with the change and passes without it, and runs all 20 checks against the
worktree (VERIF_REPO) with the evidence redirected.  Prints which checks fire."""
import json
import os
import subprocess
import sys
import tempfile

PY = '/venv/bin/python'
VERIF = os.path.dirname(os.path.dirname(os.path.abspath(__file__)))


def sh(cmd, cwd=None, env=None, timeout=900):
    p = subprocess.run(cmd, shell=True, cwd=cwd, env=env, capture_output=True, text=True, timeout=timeout)
    return p.returncode, (p.stdout + p.stderr)


def main():
    wt = os.path.abspath(sys.argv[1])
    res = {'worktree': wt}
    rc, out = sh('%s -m pytest -q -p no:cacheprovider --timeout=900 tests/test_dimsemessages.py tests/test_pdu.py 2>&1 | tail -1' % PY, cwd=wt)
    res['stable_tests'] = out.strip()
    demo = os.path.join(wt, 'demo.py')
    if os.path.exists(demo):
        rc1, out1 = sh('timeout 300 %s demo.py' % PY, cwd=wt)
        # NB: never use git stash here -- the stash is shared by all worktrees of a repository
        sh('git diff -- pynetdicom2 > .try_seed.patch && git apply -R .try_seed.patch', cwd=wt)
        try:
            rc0, out0 = sh('timeout 300 %s demo.py' % PY, cwd=wt)
        finally:
            sh('git apply .try_seed.patch && rm -f .try_seed.patch', cwd=wt)
        res['demo_changed_rc'] = rc1
        res['demo_original_rc'] = rc0
        res['demo_changed_tail'] = out1.strip().splitlines()[-3:]
        res['demo_original_tail'] = out0.strip().splitlines()[-3:]
    tmp = tempfile.mkdtemp(prefix='seed_ev_')
    env = dict(os.environ, VERIF_REPO=wt, VERIF_EVIDENCE_DIR=tmp)
    fired = {}
    for i in range(1, 21):
        pid = 'C%02d' % i
        rc, out = sh('%s -m pnd_static.check --property %s' % (PY, pid), cwd=VERIF, env=env)
        if rc != 0:
            rules = sorted({ln.split('rule ')[1].split()[0] for ln in out.splitlines() if '  rule ' in ln})
            fired[pid] = {'rc': rc, 'rules': rules, 'first': [ln for ln in out.splitlines() if ln.startswith('  ') and 'rule' not in ln][:2] or out.splitlines()[:2]}
    sh('rm -rf %s' % tmp)
    res['checks_fired'] = fired
    print(json.dumps(res, indent=1))


if __name__ == '__main__':
    main()
