"""Frozen may-raise model of library calls (one line of reason each) and the
may-raise set of the PDU decoders computed from their source."""
from __future__ import annotations

import ast
from typing import Dict, List, Optional, Set

from .flow import attr_chain, calls_in
from .srcmodel import ClassRef, NotConst, Repo

# tables whose subscripting with a peer-derived key raises KeyError
KEYED_TABLES = ('PDU_TYPES', 'PDU_TO_EVENT', 'MESSAGE_TYPE', 'SUB_ITEM_TYPES')
KEYED_ATTRS = ('accepted_contexts', 'transition_table', 'command_set', 'context_def_list',
               'sop_classes_as_scp', 'sop_classes_as_scu', 'supported_scp', 'supported_scu')


def call_raises(call: ast.Call, callee: str) -> List[str]:
    out: List[str] = []
    last = callee.rsplit('.', 1)[-1]
    if last == 'unpack':
        out.append('struct.error')        # short read when the peer's lengths disagree
    elif callee == 'six.indexbytes':
        out.append('IndexError')          # empty slice
    elif last in ('recv', 'sendall', 'send', 'connect') and ('socket' in callee or 'sock' in callee):
        out.append('OSError')             # transport failure
    elif callee == 'socket.socket':
        out.append('OSError')
    elif last in ('shutdown', 'getpeername', 'getsockname', 'setsockopt', 'settimeout', 'setblocking', 'makefile') \
            and ('socket' in callee or 'sock' in callee):
        out.append('OSError')             # e.g. shutdown() on a connection the peer already reset: ENOTCONN
    elif callee == 'next':
        out.extend(['StopIteration', 'Exception'])   # exhausted / arbitrary generator code
    elif last in ('get', 'get_nowait') and 'from_service_user' in callee:
        out.append('queue.Empty')
    elif last in ('get',) and 'to_service_user' in callee:
        out.append('queue.Empty')
    elif last == 'popleft':
        out.append('IndexError')
    elif callee in ('dsutils.decode', 'dsutils.encode', 'dsutils.encode_element'):
        out.append('Exception')           # third-party parser on attacker-controlled bytes
    elif last == 'get_file_cb' or callee.endswith('.get_file'):
        out.append('Exception')           # application callback
    elif last in ('write', 'writelines', 'seek') and ('_fp' in callee or 'file' in callee):
        out.append('OSError')
    elif last == 'decode' and isinstance(call.func, ast.Attribute) and not call.args:
        out.append('UnicodeDecodeError')  # bytes.decode() of peer text
    elif last == 'decode' and call.args and isinstance(call.args[0], ast.Constant) and isinstance(call.args[0].value, str):
        out.append('UnicodeDecodeError')
    return out


def _fixed_width_unpack(call: ast.Call, callee: str, term_of, fold=None) -> bool:
    """``struct.unpack(<const fmt>, buf[a:b])`` -- or ``S.unpack(buf[a:b])`` on a folded
    ``struct.Struct`` constant -- with b - a == calcsize(fmt): cannot raise once the buffer
    is known to hold b bytes (the length guard is C03.B2's obligation)."""
    import struct as _st
    from .srcmodel import StructVal
    fmt = buf = None
    if callee == 'struct.unpack' and len(call.args) == 2:
        buf = call.args[1]
        if isinstance(call.args[0], ast.Constant):
            fmt = call.args[0].value
        elif fold is not None:
            fmt = fold(call.args[0])
    elif callee.rsplit('.', 1)[-1] == 'unpack' and isinstance(call.func, ast.Attribute) \
            and len(call.args) == 1 and fold is not None:
        sv = fold(call.func.value)
        if isinstance(sv, StructVal):
            fmt, buf = sv.fmt, call.args[0]
    if not isinstance(fmt, (str, bytes)) or buf is None:
        return False
    try:
        width = _st.calcsize(fmt)
    except Exception:
        return False
    try:
        a = ast.parse(term_of(buf) if term_of else ast.unparse(buf), mode='eval').body
    except SyntaxError:
        return False
    def window(x):
        """(lo, hi) of ``buf[a:b][c:d]...`` with non-negative literal bounds, relative to the innermost buffer; hi may be None"""
        if not (isinstance(x, ast.Subscript) and isinstance(x.slice, ast.Slice) and x.slice.step is None):
            return (0, None)
        lo = x.slice.lower.value if isinstance(x.slice.lower, ast.Constant) else (0 if x.slice.lower is None else None)
        hi = x.slice.upper.value if isinstance(x.slice.upper, ast.Constant) else (None if x.slice.upper is None else 'no')
        if not isinstance(lo, int) or lo < 0 or hi == 'no' or (hi is not None and (not isinstance(hi, int) or hi < 0)):
            raise ValueError
        ilo, ihi = window(x.value)
        nlo = ilo + lo
        nhi = ihi if hi is None else (ilo + hi if ihi is None else min(ihi, ilo + hi))
        return (nlo, nhi)
    try:
        lo, hi = window(a)
    except ValueError:
        return False
    return isinstance(a, ast.Subscript) and hi is not None and hi - lo == width


def folder(repo: Repo, module: str, cls: Optional[str] = None):
    """expr -> folded constant (or None) in the scope of ``module`` / ``cls``."""
    m = repo.module(module)
    c = m.classes.get(cls) if cls else None

    def fold(e):
        try:
            return repo.fold(e, m, c)
        except Exception:
            return None
    return fold


def node_raises(node: ast.AST, term_of=None, fold=None) -> List[str]:
    """Library exceptions of one statement/expression (calls + keyed subscripts)."""
    out: List[str] = []
    for call in calls_in(node):
        callee = term_of(call.func) if term_of else ast.unparse(call.func)
        if _fixed_width_unpack(call, callee, term_of, fold):
            continue
        out.extend(call_raises(call, callee))
    for n in ast.walk(node):
        if isinstance(n, ast.Subscript) and isinstance(n.ctx, ast.Load) and not isinstance(n.slice, ast.Slice):
            ch = attr_chain(n.value)
            if ch and (ch[-1] in KEYED_TABLES or ch[-1] in KEYED_ATTRS):
                out.append('KeyError')
    return out


def codec_decode_raises(repo: Repo) -> Dict[str, Set[str]]:
    """may-raise set of ``<Class>.decode`` for every codec class (own body, nested
    generators, and the decoders it calls), ignoring handlers inside the decoders
    (over-approximation)."""
    classes = {}
    for modname in ('pdu', 'userdataitems'):
        m = repo.module(modname)
        for c in m.classes.values():
            if c.find_method('decode'):
                classes[c.name] = c
    direct: Dict[str, Set[str]] = {}
    callees: Dict[str, Set[str]] = {}
    sub_item_values = set()
    try:
        tab = repo.module_const('pdu', 'SUB_ITEM_TYPES')
        for v in tab.values():
            if isinstance(v, ClassRef):
                sub_item_values.add(v.name)
    except Exception:
        pass
    for name, c in classes.items():
        fns = [c.find_method('decode')]
        # helper generators referenced through cls./Class. (UserInformationItem.sub_items)
        for mname, f in c.methods.items():
            if mname not in ('decode', 'encode', '__init__', '__repr__', 'total_length') and f.kind in ('staticmethod', 'classmethod'):
                fns.append(f)
        d: Set[str] = set()
        cs: Set[str] = set()
        for f in fns:
            for n in ast.walk(f.node):
                if isinstance(n, ast.Raise) and n.exc is not None:
                    e = n.exc.func if isinstance(n.exc, ast.Call) else n.exc
                    ch = attr_chain(e)
                    if ch:
                        d.add(ch[-1])
                if isinstance(n, ast.Call):
                    callee = ast.unparse(n.func)
                    if isinstance(n.func, ast.Attribute) and n.func.attr == 'decode' and n.args \
                            and not (isinstance(n.args[0], ast.Constant)):
                        recv = n.func.value
                        rn = recv.id if isinstance(recv, ast.Name) else (recv.attr if isinstance(recv, ast.Attribute) else None)
                        if rn in classes:
                            cs.add(rn)
                        elif rn in ('factory',) or rn not in ('cls', 'self'):
                            cs |= sub_item_values | {'GenericUserDataSubItem'}
                        continue
                    d.update(call_raises(n, callee))
                if isinstance(n, ast.Subscript) and isinstance(n.ctx, ast.Load):
                    ch = attr_chain(n.value)
                    if ch and ch[-1] in KEYED_TABLES:
                        d.add('KeyError')
        direct[name] = d
        callees[name] = cs & set(classes)
    # transitive closure
    changed = True
    total = {k: set(v) for k, v in direct.items()}
    while changed:
        changed = False
        for k in total:
            for c2 in callees[k]:
                new = total[c2] - total[k]
                if new:
                    total[k] |= new
                    changed = True
    return total


def const_table_keyerror(node: ast.AST, client) -> List[str]:
    """``TABLE[key]`` where TABLE is a dict display bound once at class or module level (``self.NAME`` / ``cls.NAME`` / ``Class.NAME`` /
    ``NAME``), the key is not a constant and not one of the display's keys: KeyError for every key outside the table.  A look-up
    guarded on its path by ``key in TABLE`` is not reported (the guard is a path condition)."""
    out: List[str] = []
    repo = client.repo
    for n in ast.walk(node):
        if not (isinstance(n, ast.Subscript) and isinstance(n.ctx, ast.Load) and not isinstance(n.slice, (ast.Slice, ast.Constant))):
            continue
        v = n.value
        table = None
        if isinstance(v, ast.Attribute) and isinstance(v.value, ast.Name):
            k = None
            if v.value.id in ('self', 'cls') and client.cls is not None:
                k = client.cls
            elif v.value.id in client.mod.classes:
                k = client.mod.classes[v.value.id]
            if k is not None:
                hit = k.find_attr(v.attr)
                if hit is not None and isinstance(hit[1], ast.Dict):
                    table = (hit[1], '%s.%s' % (hit[0].name, v.attr))
        elif isinstance(v, ast.Name):
            vals = client.mod.assigns.get(v.id)
            if vals and len(vals) == 1 and isinstance(vals[0], ast.Dict):
                table = (vals[0], v.id)
        if table is None or not table[0].keys or any(k_ is None for k_ in table[0].keys):
            continue
        out.append('KeyError')
    return out
