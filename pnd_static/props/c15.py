"""C15 -- C-STORE delivers the data set intact end-to-end; stored files are never clobbered.

Decided (only these clauses): the directory-backed get_file never opens an existing file for
writing; status and identity provenance in the storage user and provider; the data set is
handed to the application unmodified and every dsutils call uses the negotiated syntax.
NOT decided -- outside this family: integrity through the whole stack over loopback TCP
with real threads, sizes and transfer syntaxes (composition of C01, C06, C07 plus the OS)."""
from __future__ import annotations

import ast

from ..fsm_model import exc_hierarchy
from ..srcmodel import AnalysisError, norm
from ..svc_model import ServiceAnalysis, is_response_token
from ..sym import SymClient, empty_state, is_token, token_class


def atomic_claim_problems(repo):
    """C20.H5: every file _get_storage_file writes is created exclusively ('x' / O_EXCL), or is opened under a name this call
    has claimed atomically on the path (an exclusive create of that name, or ``os.link`` to it, which fails when the name is
    taken).  A test with os.path.exists, or a rename onto the name, is no claim: two associations pass it together."""
    f = repo.func('__init__', '_get_storage_file')
    hier = exc_hierarchy(repo)

    def ev(call, callee, client, state):
        if callee in ('open', 'io.open', 'os.open'):
            return 'open'
        if callee == 'os.link':
            return 'link'
        return None

    def raises(node, client, state):
        return ['FileExistsError' for n in ast.walk(node) if isinstance(n, ast.Call) and norm(n.func) in ('open', 'io.open', 'os.open', 'os.link')]
    from ..flow import ExcHierarchy
    h = ExcHierarchy(dict(hier.parents, FileExistsError='OSError'))
    c = SymClient(repo, f, event_of=ev, hierarchy=h, raises_of=raises)
    c.run(empty_state())
    probs = []
    n_open = 0
    for e, s in c.log:
        if e.kind != 'open':
            continue
        n_open += 1
        path = e.args[0] if e.args else ''
        mode = e.args[1] if len(e.args) > 1 else dict(e.kwargs).get('mode', "'r'")
        if not any(ch in mode for ch in 'wxa+') or 'x' in mode or 'O_EXCL' in ' '.join(e.args):
            continue
        claimed = [o.args[0] for o in s.trail if o.kind == 'open' and o is not e and o.args and
                   ('x' in (o.args[1] if len(o.args) > 1 else dict(o.kwargs).get('mode', "'r'")) or 'O_EXCL' in ' '.join(o.args))]
        claimed += [o.args[1] for o in s.trail if o.kind == 'link' and len(o.args) > 1]
        if path not in claimed:
            probs.append('open(..., %s) is not an exclusive create and the name was not claimed atomically on this path: two '
                         'associations storing the same instance at the same time both pass the existence test and write the same '
                         'file' % mode)
    if not n_open:
        probs.append('no open() found')
    return sorted(set(probs))


def check_no_clobber(repo, rep, rule='C15.V1'):
    f = repo.func('__init__', '_get_storage_file')
    rep.analysed(f)
    hier = exc_hierarchy(repo)

    REMOVERS = ('os.remove', 'os.unlink', 'shutil.rmtree', 'os.rmdir',
                'os.truncate', 'shutil.copy', 'shutil.copyfile', 'shutil.copy2')
    # library facts (POSIX): rename / replace / move put the source under the destination name and silently replace a file
    # that is there; link fails with FileExistsError when the destination exists -- an atomic claim of an unused name
    RENAMERS = ('os.rename', 'os.replace', 'os.renames', 'shutil.move')
    LINKERS = ('os.link',)

    def ev(call, callee, client, state):
        if callee in ('open', 'io.open', 'os.open'):
            return 'open'
        if callee == 'os.path.exists':
            return 'exists'
        if callee in REMOVERS:
            return 'remove'
        if callee in RENAMERS:
            return 'rename'
        if callee in LINKERS:
            return 'link'
        return None

    def raises(node, client, state):
        out = []
        for n in ast.walk(node):
            if isinstance(n, ast.Call) and norm(n.func) in ('open', 'io.open', 'os.open') + LINKERS:
                out.append('FileExistsError')
        return out
    from ..flow import ExcHierarchy
    h = ExcHierarchy(dict(hier.parents, FileExistsError='OSError'))
    c = SymClient(repo, f, event_of=ev, hierarchy=h, raises_of=raises)
    c.run(empty_state())
    opens = [(e, s) for e, s in c.log if e.kind == 'open']
    probs = []
    if not opens:
        raise AnalysisError('%s: no open() in _get_storage_file' % f.loc())
    for e, s in opens:
        path = e.args[0] if e.args else ''
        mode = e.args[1] if len(e.args) > 1 else dict(e.kwargs).get('mode', "'r'")
        writes = any(ch in mode for ch in 'wxa+')
        if not writes:
            continue
        if 'x' in mode:
            continue   # exclusive creation: an existing file is never truncated
        if 'O_EXCL' in ' '.join(e.args):
            continue
        absent = [cn[1:] for cn in e.conds if cn.startswith('-os.path.exists(')]
        proven = [t[len('os.path.exists('):-1] for t in absent]
        # ... or a name this very call has claimed on the path: created exclusively, linked to (fails when taken), or renamed to
        # (judged below)
        claimed = [o.args[0] for o in s.trail if o.kind == 'open' and o is not e and o.args and
                   ('x' in (o.args[1] if len(o.args) > 1 else dict(o.kwargs).get('mode', "'r'")) or 'O_EXCL' in ' '.join(o.args))]
        claimed += [o.args[1] for o in s.trail if o.kind in ('link', 'rename') and len(o.args) > 1]
        if path not in proven and path not in claimed:
            probs.append('open(%s, %s) %s the file it names, but the name proven unused is %s: storing the same SOP '
                         'instance UID twice overwrites the first file'
                         % (path, mode, 'truncates' if 'w' in mode else 'writes into', proven[-1] if proven else 'none'))
    for e, s in c.log:
        if e.kind != 'rename' or len(e.args) < 2:
            continue
        src_, dst_ = e.args[0], e.args[1]
        absent = [cn[1:] for cn in e.conds if cn.startswith('-os.path.exists(')]
        proven = [t[len('os.path.exists('):-1] for t in absent]
        claimed = [o.args[1] for o in s.trail if o.kind == 'link' and len(o.args) > 1 and o is not e]
        if dst_ not in proven and dst_ not in claimed:
            probs.append('%s(%s, %s) at line %d: on POSIX the destination is replaced silently when it exists (no FileExistsError is '
                         'raised), and nothing on this path shows the name unused: storing the same SOP instance UID twice '
                         'replaces the first file' % (e.callee, src_, dst_, e.line))
        created = [o for o in s.trail if o.kind == 'open' and o.args and o.args[0] == src_
                   and ('x' in (o.args[1] if len(o.args) > 1 else dict(o.kwargs).get('mode', "'r'")) or 'O_EXCL' in ' '.join(o.args))]
        if not created:
            probs.append('%s(%s, ..) at line %d moves a file this call has not created' % (e.callee, src_, e.line))
    # nothing already in the directory is removed, renamed or copied over: such a call may only name a file this very call
    # created (exclusively) on the path that leads to it -- e.g. to take back a half-written instance
    n_rm = 0
    for e, s in c.log:
        if e.kind != 'remove':
            continue
        n_rm += 1
        victim = e.args[-1] if e.callee in ('shutil.copy', 'shutil.copyfile', 'shutil.copy2') else (e.args[0] if e.args else '?')
        created = [o for o in s.trail if o.kind == 'open' and o.args and o.args[0] == victim
                   and ('x' in (o.args[1] if len(o.args) > 1 else dict(o.kwargs).get('mode', "'r'")) or 'O_EXCL' in ' '.join(o.args))]
        # (library fact: a name built from uuid.uuid4() / tempfile's mkstemp is this call's own, 122 random bits)
        if not created and not any(u_ in victim for u_ in ('uuid.uuid4()', 'uuid4()', 'tempfile.mkstemp(', 'mkstemp(')):
            probs.append('%s(%s) at line %d runs on a path on which this call has not created that file (%s): a file that was stored '
                         'before is removed / replaced' % (e.callee, ', '.join(e.args), e.line,
                                                           'after the exclusive open failed' if any(c_.startswith('exc:') for c_ in e.conds)
                                                           else 'no exclusive open of that name precedes it'))
    rep.notes['removals_checked'] = n_rm
    rep.check(not probs, rule, '__init__:_get_storage_file:no-clobber', f.loc(),
              'the file opened for writing is created exclusively or is the name proven absent (%d open paths)' % len(opens),
              '; '.join(sorted(set(probs))))
    # both storage entities use it
    for cname in ('StorageAE', 'ClientStorageAE'):
        cls = repo.cls('__init__', cname)
        gf = cls.find_method('get_file')       # own method or inherited (e.g. from a storage mix-in placed before the AE base)
        ok = False
        if gf is not None and gf.module.name == '__init__' and len(gf.params) == 3:
            want = [gf.params[1], gf.params[2], 'self.storage_dir']
            ok = any(isinstance(n_, ast.Return) and isinstance(n_.value, ast.Call) and norm(n_.value.func) == '_get_storage_file'
                     and [norm(a_) for a_ in n_.value.args[:3]] == want for n_ in ast.walk(gf.node))
        rep.check(ok, rule, '__init__:%s.get_file' % cname, cls.loc(), 'stores through _get_storage_file in its directory',
                  '%s.get_file does not delegate to _get_storage_file' % cname)


def run(repo, rep):
    from ..pitfalls import memo_rule as _memo_rule
    _memo_rule(repo, rep, 'C15', 'C15.Z1')
    from ..pitfalls import log_rule as _log_rule
    _log_rule(repo, rep, 'C15', 'C15.Z2')
    from ..api_pitfalls import truth_rule as _truth_rule
    _truth_rule(repo, rep, 'C15', 'C15.Z4')
    from ..api_pitfalls import attribute_rule as _attribute_rule
    _attribute_rule(repo, rep, 'C15', 'C15.Z5')
    from ..api_pitfalls import pairing_rule as _pairing_rule
    _pairing_rule(repo, rep, 'C15', 'C15.Z6')
    from ..pitfalls import zero_rule as _zero_rule
    _zero_rule(repo, rep, 'C15', 'C15.Z3')
    rep.rule('C15.V5', 'data sets and command sets are encoded into a buffer that is created in the call, or held per thread and emptied '
             'before the first write: the bytes of a message never contain what another thread or an earlier, failed encode wrote '
             '(same analysis as C08.M7)', 1)
    from ..pitfalls import writer_reuse_problems as _wrp
    _sh, _st, _nw = _wrp(repo)
    rep.check(not (_sh or _st), 'C15.V5', 'dsutils:writers', repo.module('dsutils').relpath, '%d write sites: buffers fresh, or per-thread and '
              'emptied first' % _nw, '; '.join(_sh + _st))
    rep.rule('C15.V6', 'a data set of any size goes out: the transport socket stays in blocking mode for the state machine\'s sendall() -- a '
             'function that switches it to non-blocking mode (setblocking(False), settimeout(0)) switches it back on every path', 1)
    from ..api_pitfalls import socket_mode_problems as _smp
    _mp, _nm = _smp(repo)
    rep.check(not _mp, 'C15.V6', 'dulprovider+fsm+asceprovider:socket-mode', repo.module('dulprovider').relpath,
              '%d mode switch(es), none leaves the transport non-blocking' % _nm, '; '.join(_mp[:4]))
    rep.rule('C15.V7', 'registering a service never takes a SOP class out of file reception by default: every path of add_scu / add_scp '
             '(update_context_def_list and helpers included) that removes entries from the store_in_file set is under a test that '
             'someone said so explicitly -- a store_in_file value that ``is not None`` -- not under the mere absence of the setting', 2)
    ae_ = repo.cls('applicationentity', 'AEBase')
    for cname_, mname_ in (('AEBase', 'add_scu'), ('AE', 'add_scp')):
        k_ = repo.cls('applicationentity', cname_)
        f_ = k_.find_method(mname_)
        if f_ is None:
            continue
        rep.analysed(f_)

        def ev7(call, callee, client, state):
            recv, _, last = callee.rpartition('.')
            if recv.endswith('store_in_file') and last in ('difference_update', 'discard', 'remove', 'clear', 'pop', 'intersection_update',
                                                           'symmetric_difference_update'):
                return 'unfile'
            return None
        env_ = {}
        named_ = [a.arg for a in f_.node.args.args]
        dfl_ = f_.node.args.defaults
        for p_, d_ in zip(named_[len(named_) - len(dfl_):], dfl_):
            if p_ not in ('sop_classes',) and isinstance(d_, ast.Constant):
                env_[p_] = repr(d_.value)
        c7 = SymClient(repo, f_, event_of=ev7, hierarchy=exc_hierarchy(repo),
                       inline=lambda fi_: repo.is_helper(fi_) or fi_.name in ('update_context_def_list', '_build_context_def_list'))
        c7.run(empty_state(env_))
        p7 = []
        n7 = 0
        for e7, s7 in c7.log:
            if e7.kind != 'unfile':
                continue
            n7 += 1
            def can_be_none(cn):
                subj = cn[1:].rsplit(' is ', 1)[0]
                try:
                    se = ast.parse(subj, mode='eval').body
                except SyntaxError:
                    return False
                if isinstance(se, ast.Call) and isinstance(se.func, ast.Name) and se.func.id in ('bool', 'int', 'str', 'len', 'list', 'tuple', 'set'):
                    return False          # such a value is never None: the test says nothing
                if isinstance(se, ast.Call) and isinstance(se.func, ast.Name) and se.func.id == 'getattr' and len(se.args) == 3 \
                        and not (isinstance(se.args[2], ast.Constant) and se.args[2].value is None):
                    return False
                return not isinstance(se, (ast.Constant, ast.Compare, ast.BoolOp))
            explicit = any((cn.startswith('+') and cn.endswith(' is not None') or cn.startswith('-') and cn.endswith(' is None'))
                           and 'store_in_file' in cn and can_be_none(cn) for cn in e7.conds)
            if not explicit:
                p7.append('%s(service) with store_in_file left at its default reaches %s (line %d) on a path that only knows the setting '
                          'is false-ish [%s]: a service that says nothing about files takes SOP classes another service registered '
                          'for file reception back into memory' % (mname_, e7.callee, e7.line, ' '.join(cn for cn in e7.conds if 'store_in_file' in cn)[:160]))
        rep.check(not p7, 'C15.V7', 'applicationentity:%s.%s:file-reception-kept' % (cname_, mname_), f_.loc(),
                  '%d removal site(s), each under an explicit setting' % n7, '; '.join(sorted(set(p7))))
    rep.trust('C01/C06/C07 for the byte path; CPython open() modes; pydicom for data-set encoding')
    rep.assume('NOT DECIDED by this family: end-to-end integrity over real TCP with real threads for all sizes / syntaxes')
    rep.rule('C15.V1', 'the directory-backed get_file creates files exclusively or opens exactly the name it proved unused', 3)
    rep.rule('C15.V2', 'storage provider: status <- handler result (documented failure on EventHandlingError), SOP class / '
             'instance <- request; storage user: returns Status(response status), tags the request with the data set\'s own UIDs', 2)
    rep.rule('C15.V3', 'the object given to on_receive_store is the received data set itself; every dsutils call in sopclass.py '
             'passes (is_implicit_VR, is_little_endian) of the context\'s negotiated syntax in that order', 14)
    check_no_clobber(repo, rep)

    # ---------------------------------------------------------------- V2 / V3 provider
    f = repo.func('sopclass', 'storage_scp')
    rep.analysed(f)
    a = ServiceAnalysis(repo, f)
    probs = []
    sends = [(e, s) for e, s in a.sends() if is_response_token(e.args[0])]
    for e, s in sends:
        fl = e.fields(e.args[0])
        in_handler = any(cn.startswith('exc:EventHandlingError') for cn in e.conds)
        if not in_handler and fl.get('status') != 'int(asce.ae.on_receive_store(ctx, msg.data_set))':
            probs.append('status sent is %s, not the handler\'s result' % fl.get('status'))
        if in_handler and fl.get('status') != 'int(statuses.C_STORE_CANNON_UNDERSTAND)':
            probs.append('status on EventHandlingError is %s, documented: CANNOT_UNDERSTAND' % fl.get('status'))
        if fl.get('sop_class_uid') != 'msg.sop_class_uid' or fl.get('affected_sop_instance_uid') != 'msg.affected_sop_instance_uid':
            probs.append('response UIDs are (%s, %s), not the request\'s' % (fl.get('sop_class_uid'), fl.get('affected_sop_instance_uid')))
    if not sends:
        probs.append('no response sent')
    rep.check(not probs, 'C15.V2', 'sopclass:storage_scp:status-and-identity', f.loc(),
              'status from the handler / documented failure; UIDs from the request (%d send paths)' % len(sends), '; '.join(sorted(set(probs))))
    hs = [(e, s) for e, s in a.log if e.kind == 'handler']
    ok = bool(hs) and all(e.args == ('ctx', 'msg.data_set') for e, s in hs)
    rep.check(ok, 'C15.V3', 'sopclass:storage_scp:pass-through', f.loc(), 'on_receive_store(ctx, msg.data_set): the received object itself',
              'on_receive_store receives %s' % [e.args for e, s in hs])
    # ---------------------------------------------------------------- V2 user
    f = repo.func('sopclass', 'storage_scu')
    rep.analysed(f)
    a = ServiceAnalysis(repo, f)
    probs = []
    n_ret = 0
    for s, how in a.finals:
        if how != 'return':
            continue
        n_ret += 1
        rf = dict((f_, v) for t, f_, v in s.heap if t == s.ret) if is_token(s.ret or '') else {}
        if not (is_token(s.ret or '') and token_class(s.ret) == 'Status' and rf.get('@value') == 'asce.receive()[0].status'
                and rf.get('@command') == 'dimsemessages.CStoreRSPMessage'):
            probs.append('returns %s %s, not Status(response.status, C-STORE-RSP)' % (s.ret, rf))
        sn = [e for e in s.trail if e.kind == 'send']
        if len(sn) != 1:
            probs.append('%d requests sent on one path' % len(sn))
            continue
        fl = sn[0].fields(sn[0].args[0])
        is_file = any(cn.startswith('+isinstance(dataset,') for cn in s.conds)
        if is_file:
            if fl.get('sop_class_uid') != 'filereader._read_file_meta_info(open(dataset, \'rb\')).MediaStorageSOPClassUID':
                probs.append('file branch: SOP class is %s, not the file meta information\'s' % fl.get('sop_class_uid'))
            inst = fl.get('affected_sop_instance_uid', '')
            if not (inst.endswith('.MediaStorageSOPInstanceUID') or inst.endswith('.SOPInstanceUID')):
                probs.append('file branch: SOP instance is %s' % inst)
            if fl.get('data_set') != "open(dataset, 'rb')":
                probs.append('file branch: data set sent is %s, not the opened file' % fl.get('data_set'))
        else:
            if fl.get('sop_class_uid') != 'dataset.SOPClassUID' or fl.get('affected_sop_instance_uid') != 'dataset.SOPInstanceUID':
                probs.append('request tagged with (%s, %s), not the data set\'s own UIDs' % (fl.get('sop_class_uid'), fl.get('affected_sop_instance_uid')))
            if fl.get('data_set') != 'dsutils.encode(dataset, ctx.supported_ts.is_implicit_VR, ctx.supported_ts.is_little_endian)':
                probs.append('data set sent is %s' % fl.get('data_set'))
        if sn[0].args[1] != 'ctx.id':
            probs.append('request sent on context %s' % sn[0].args[1])
        par_ = f.params[3]
        unset_ = any(cn in ('+%s is None' % par_, '-%s is not None' % par_) for cn in sn[0].conds)
        # (a message id the caller left out -- ``msg_id=None`` -- may be chosen by the library; one that was given is used as given)
        if fl.get('message_id') != par_ and not unset_:
            probs.append('message id is %s' % fl.get('message_id'))
    if n_ret < 2:
        probs.append('only %d return paths' % n_ret)
    rep.check(not probs, 'C15.V2', 'sopclass:storage_scu:request-and-status', f.loc(),
              'request tagged with the data set\'s UIDs, sent on the context, Status(response.status) returned (%d paths)' % n_ret,
              '; '.join(sorted(set(probs))))
    # ---------------------------------------------------------------- V3 dsutils sites
    sc = repo.module('sopclass')
    n_sites = 0
    for fi in repo.all_functions():
        if fi.module.name != 'sopclass':
            continue
        for n in ast.walk(fi.node):
            if isinstance(n, ast.Call) and norm(n.func) in ('dsutils.encode', 'dsutils.decode') and fi.node in [fi.node]:
                # only the function that directly contains the call (not its enclosing one)
                owner = fi
                inner = [g for g in fi.nested.values() if n in list(ast.walk(g.node))]
                if inner:
                    continue
                n_sites += 1
                flags = [norm(x) for x in n.args[1:3]]
                ok = len(flags) == 2 and flags[0].endswith('.is_implicit_VR') and flags[1].endswith('.is_little_endian') and \
                    flags[0].rsplit('.', 1)[0] == flags[1].rsplit('.', 1)[0] == 'ctx.supported_ts'
                rep.check(ok, 'C15.V3', 'sopclass:%s:dsutils-flags:%s' % (fi.qualname, norm(n.args[0])[:40]), fi.loc(n),
                          'negotiated syntax flags in (implicit VR, little endian) order',
                          '%s called with flags %s, expected (ctx.supported_ts.is_implicit_VR, ctx.supported_ts.is_little_endian)'
                          % (norm(n.func), flags))
    rep.notes['dsutils_sites'] = n_sites
