"""C19 -- retrieve (C-GET / C-MOVE) performs each sub-operation exactly once, with true progress.

Decided: per-iteration shape of the C-GET user loop and of the C-MOVE provider loop, the
closed form of the progress counters at each report, exactly one final response."""
from __future__ import annotations

import ast

from ..srcmodel import AnalysisError, norm
from ..svc_model import ServiceAnalysis, classify, is_response_token, status_constant
from ..sym import is_token, loop_body_outcomes, token_class

DEC = 'dsutils.decode(msg.data_set, ctx.supported_ts.is_implicit_VR, ctx.supported_ts.is_little_endian)'


def _same_expr(a: str, b: str) -> bool:
    """are the two terms the same expression (parentheses that only group do not matter)?"""
    if a == b:
        return True
    try:
        return ast.unparse(ast.parse(a, mode='eval')) == ast.unparse(ast.parse(b, mode='eval'))
    except SyntaxError:
        return False



class _CopyCanon(ast.NodeTransformer):
    """``dict(x, k=v)`` / ``dict(x)`` / ``x.copy()`` / ``copy.copy(x)`` / ``{**x, 'k': v}`` of the destination the application returned
    is that destination (with further keys the library adds for itself): for the question *whom the sub-association goes to* it is x."""
    def visit_Call(self, node):
        self.generic_visit(node)
        fn = ast.unparse(node.func)
        if fn == 'dict' and len(node.args) == 1 and all(k.arg is not None for k in node.keywords):
            return node.args[0]
        if fn in ('copy.copy', 'copy.deepcopy') and len(node.args) == 1 and not node.keywords:
            return node.args[0]
        if isinstance(node.func, ast.Attribute) and node.func.attr == 'copy' and not node.args and not node.keywords:
            return node.func.value
        return node

    def visit_Dict(self, node):
        self.generic_visit(node)
        spreads = [v for k, v in zip(node.keys, node.values) if k is None]
        if len(spreads) == 1 and node.keys[0] is None:
            return spreads[0]
        return node


def _copy_canon(term: str) -> str:
    try:
        e = ast.parse(term, mode='eval').body
    except SyntaxError:
        return term
    e2 = _CopyCanon().visit(e)
    ast.fix_missing_locations(e2)
    return ast.unparse(e2)


def run(repo, rep):
    from ..pitfalls import memo_rule as _memo_rule
    _memo_rule(repo, rep, 'C19', 'C19.Z1')
    from ..pitfalls import log_rule as _log_rule
    _log_rule(repo, rep, 'C19', 'C19.Z2')
    from ..api_pitfalls import truth_rule as _truth_rule
    _truth_rule(repo, rep, 'C19', 'C19.Z4')
    from ..api_pitfalls import attribute_rule as _attribute_rule
    _attribute_rule(repo, rep, 'C19', 'C19.Z5')
    from ..api_pitfalls import pairing_rule as _pairing_rule
    _pairing_rule(repo, rep, 'C19', 'C19.Z6')
    from ..pitfalls import zero_rule as _zero_rule
    _zero_rule(repo, rep, 'C19', 'C19.Z3')
    rep.trust('C18 for the pending classification; CPython generator semantics')
    rep.rule('C19.U1', 'C-GET user: a received C-STORE request is answered exactly once on the context it arrived on and yields '
             'at most once; the loop is left only on a non-pending C-GET response', 1)
    rep.rule('C19.U2', 'C-MOVE provider: exactly one store sub-operation per item of the application\'s iterator, on the '
             'sub-association to the destination the application returned', 1)
    rep.rule('C19.U3', 'progress: at the k-th report completed = k and remaining = total - k (counter incremented before the '
             'fields are filled; starts at 0, step 1); the final response reports the same counters', 1)
    rep.rule('C19.U4', 'exactly one final (non-pending) C-MOVE response on every path, also when there is nothing to move', 1)
    from ..api_pitfalls import flag_after_reset_problems as _farp
    _p6, _n6 = _farp(repo)
    rep.rule('C19.U6', 'a failure inside the sub-association block reaches the retrieve provider as the exception it is (its '
             '``except EventHandlingError`` sends the one final failure report with the counters): request_association does not decide '
             '"body failed" / "establishment failed" on a flag it has already cleared (same analysis as C14.J7)', 1)
    rep.check(not _p6, 'C19.U6', 'package:association_established:read-after-clear', '',
              '%d function(s) examined, no read of the flag after it was cleared' % _n6, '; '.join(_p6))
    rep.rule('C19.U5', 'each report keeps the counters it was sent with: a report constructed over another message\'s command set and then '
             'written to holds a deep copy of it (the same Dataset or a shallow copy shares the DataElement objects the counters are '
             'written into; same analysis as C17.P9)', 1)
    from ..svc_model import shared_command_set_problems as _scsp
    _p5, _n5 = _scsp(repo)
    rep.check(not _p5, 'C19.U5', 'sopclass:reports:own-command-set', repo.module('sopclass').relpath,
              '%d message(s) constructed over an existing command set, none shares elements it writes' % _n5, '; '.join(_p5[:3]))

    # ---------------------------------------------------------------- U1
    f = repo.func('sopclass', 'qr_get_scu')
    rep.analysed(f)
    a = ServiceAnalysis(repo, f)
    wl = [l for l in a.loops() if isinstance(l, ast.While)]
    if not wl:
        raise AnalysisError('%s: no receive loop' % f.loc())
    from ..sym import iteration_paths
    ipaths, o = iteration_paths(a.client, wl[0])
    probs = []
    rq = 'asce.receive()[0]'
    n_store = n_stop = 0
    for s, kind in ipaths:
        from ..sym import cond_eq
        is_store = cond_eq(s.conds, '%s.command_field' % rq, 'dimsemessages.CStoreRQMessage.command_field', fold=lambda e_: repo.try_fold(e_, repo.module('sopclass')))
        is_get = cond_eq(s.conds, '%s.command_field' % rq, 'dimsemessages.CGetRSPMessage.command_field', fold=lambda e_: repo.try_fold(e_, repo.module('sopclass')))
        sn = [e for e in s.trail if e.kind == 'send']
        ys = [e for e in s.trail if e.kind == 'yield']
        if len([e for e in s.trail if e.kind == 'receive']) != 1:
            probs.append('not exactly one receive per iteration')
        if kind == 'stop':
            n_stop += 1
            from ..status_model import allowed_types, status_tokens
            toks = status_tokens(s.conds)
            types = allowed_types(s.conds, toks[0], repo) if toks else None
            if not is_get or types is None or 'Pending' in types:
                probs.append('the loop is left on something else than a non-pending C-GET response [%s]' % ' '.join(s.conds)[:200])
            else:
                tok = toks[0]
                sf = dict((f_, v) for t, f_, v in s.heap if t == tok)
                if sf.get('@value') != '%s.status' % rq or sf.get('@command') != 'dimsemessages.CGetRSPMessage':
                    probs.append('the final status is classified as %s' % sf)
        if kind == 'next' and is_get:
            from ..status_model import allowed_types, status_tokens
            toks = status_tokens(s.conds)
            types = allowed_types(s.conds, toks[0], repo) if toks else None
            if types is not None and types != {'Pending'}:
                probs.append('the loop goes on after a C-GET response that is not pending (%s): it waits for messages that never come'
                             % ('/'.join(sorted(types)) or 'no type'))
        if is_store:
            n_store += 1
            if len(sn) != 1 or token_class(sn[0].args[0]) != 'CStoreRSPMessage':
                probs.append('%d responses for a received C-STORE request' % len(sn))
            elif sn[0].args[1] != 'asce.receive()[1]':
                probs.append('C-STORE response sent on %s, not on the context the request arrived on' % sn[0].args[1])
            else:
                mid = sn[0].fields(sn[0].args[0]).get('message_id_being_responded_to')
                if mid != '%s.message_id' % rq:
                    probs.append('the C-STORE response answers message id %s, not the id of the C-STORE request just received: '
                                 'the sub-operation the peer is waiting on is never answered' % mid)
            if len(ys) > 1:
                probs.append('an instance is yielded %d times' % len(ys))
            if kind == 'stop':
                probs.append('the operation ends on a C-STORE request')
        elif sn:
            probs.append('a response is sent for something that is not a C-STORE request')
    if n_store == 0 or n_stop == 0:
        probs.append('store branch / stop branch not found (%d, %d)' % (n_store, n_stop))
    rep.check(not probs, 'C19.U1', 'sopclass:qr_get_scu:loop', f.loc(wl[0]),
              'one response per C-STORE request on its context, at most one yield, stop only on final C-GET-RSP', '; '.join(sorted(set(probs))))

    # ---------------------------------------------------------------- U2..U4
    f = repo.func('sopclass', 'qr_move_scp')
    rep.analysed(f)
    a = ServiceAnalysis(repo, f)
    fl_ = [l for l in a.loops() if isinstance(l, ast.For)]
    if not fl_:
        raise AnalysisError('%s: no sub-operation loop' % f.loc())
    lp = fl_[0]
    H = 'asce.ae.on_receive_move(ctx, %s, msg.move_destination)' % DEC
    entry = [s for e, s in a.log if e.kind == 'loop' and e.line == lp.lineno][0]
    it = a.client.term(lp.iter, entry)
    p2, p3 = [], []
    if it != '%s[2]' % H:
        p2.append('instances come from %s, expected the iterator returned by on_receive_move' % it)
    o = loop_body_outcomes(a.client, lp)
    outs = list(o.fall) + list(o.cont)
    counter_locs = set()
    if o.brk or o.ret:
        p2.append('the sub-operation loop can be left early')
    item = 'ITEM(%s)' % it
    assoc = 'ENTER(asce.ae.request_association(%s[0]))' % H
    for s in outs:
        subs = [e for e in s.trail if e.kind == 'subop']
        if len(subs) != 1:
            p2.append('%d store sub-operations for one instance' % len(subs))
            continue
        got_ = _copy_canon(subs[0].callee)
        want_tail = '.get_scu(%s.SOPClassUID)' % item
        derived = got_.startswith('ENTER(asce.ae.request_association(') and got_.endswith(want_tail) and (
            ('%s[0]' % H) in got_[:-len(want_tail)] or
            ('msg.move_destination' in got_[:-len(want_tail)] and any(cn in ('+%s[0] is None' % H, '-%s[0] is not None' % H) for cn in subs[0].conds)))
        if got_ != '%s.get_scu(%s.SOPClassUID)' % (assoc, item) and not derived:
            p2.append('sub-operation performed by %s, expected the storage service of the sub-association to the returned destination' % subs[0].callee)
        if not subs[0].args or subs[0].args[0] != item:
            p2.append('sub-operation stores %s, not the current instance' % (subs[0].args[:1],))
        sn = [e for e in s.trail if e.kind == 'send' and is_response_token(e.args[0])]
        if len(sn) != 1:
            p3.append('%d progress reports for one sub-operation' % len(sn))
            continue
        fl = sn[0].fields(sn[0].args[0])
        comp = fl.get('num_of_completed_sub_ops') or ''
        rem = fl.get('num_of_remaining_sub_ops')
        # the reported value must be "the counter as it was when this iteration began, plus one", wherever the counter
        # lives: a local (AUG_x(PRE_x, 'Add', 1)) or a field of an object created before the loop (AUG(PRE_<obj>.f, ...))
        import re as _re
        m_loc = _re.match(r"^AUG_(\w+)\(PRE_(\w+), 'Add', 1\)$", comp)
        m_fld = _re.match(r"^AUG_(\w+)\(PRE_(NEW_\w+_L\d+)\.(\w+), 'Add', 1\)$", comp)
        loc = None
        # ... or "<a per-iteration counter as it was when the iteration began> + 1" (``for k, x in enumerate(..): report(k + 1)``)
        m_pre = _re.match(r"^(?:PRE_(\w+) \+ 1|1 \+ PRE_(\w+))$", comp)
        if m_pre:
            cname_ = m_pre.group(1) or m_pre.group(2)
            if s.get(cname_) == "AUG_%s(PRE_%s, 'Add', 1)" % (cname_, cname_):
                loc = ('local', cname_)
                comp_ok_as = comp
        if m_loc and m_loc.group(1) == m_loc.group(2):
            loc = ('local', m_loc.group(1))
        elif m_fld and m_fld.group(1) == m_fld.group(3):
            loc = ('field', m_fld.group(2), m_fld.group(3))
        if loc is None:
            p3.append('after the k-th sub-operation the report says completed = %s, i.e. the counter before its increment '
                      '(k-1 performed, total-k+1 remaining)' % comp if comp.startswith('PRE_') else
                      'completed reported as %s' % comp)
        else:
            counter_locs.add(loc)
        if not _same_expr(rem or '', '%s[1] - (%s)' % (H, comp)):
            p3.append('remaining reported as %s, expected total - completed(after increment)' % rem)
        const = status_constant(repo, fl.get('status', ''))
        if const is None or classify(repo, const[0], 'CMoveRSPMessage') != 'Pending':
            p3.append('progress report status is %s, not pending' % fl.get('status'))
        if subs and s.trail.index(subs[0]) > s.trail.index(sn[0]):
            p3.append('progress is reported before the sub-operation is performed')
    # base and step of the counter: 0 when the loop is entered, incremented by exactly 1 on every path of an iteration
    for loc in sorted(counter_locs):
        start = entry.get(loc[1]) if loc[0] == 'local' else entry.field(loc[1], loc[2])
        if start != '0':
            p3.append('completed does not start at 0 (%s)' % start)
        for s in outs:
            end = s.get(loc[1]) if loc[0] == 'local' else s.field(loc[1], loc[2])
            want = "AUG_%s(PRE_%s, 'Add', 1)" % (loc[1], loc[1]) if loc[0] == 'local' else \
                "AUG_%s(PRE_%s.%s, 'Add', 1)" % (loc[2], loc[1], loc[2])
            if end != want:
                p3.append('completed is not incremented by exactly 1 per sub-operation (%s on one path)' % end)
    if not counter_locs and not p3:
        p3.append('no progress counter found')
    rep.check(not p2, 'C19.U2', 'sopclass:qr_move_scp:one-suboperation-per-instance', f.loc(lp),
              'one store per instance on the sub-association to the application\'s destination (%d paths)' % len(outs), '; '.join(sorted(set(p2))))
    # final response counters and U4
    p4 = []
    n_paths = 0
    for s, how in a.finals:
        if how == 'raise:AttributeError':
            p4.append('a path ends with AttributeError instead of the final response: a generator-only method (close / send / throw) is '
                      'called on what on_receive_move returned, which may be any iterable (a list, iter(..)) -- test hasattr() first')
        if how.startswith('raise'):
            continue
        n_paths += 1
        finals_ = []
        for e in s.trail:
            if e.kind == 'send' and is_response_token(e.args[0]):
                const = status_constant(repo, e.fields(e.args[0]).get('status', ''))
                if const is not None and classify(repo, const[0], 'CMoveRSPMessage') != 'Pending':
                    finals_.append(e)
        nothing = any(cn in ('-%s[1]' % H, '+not %s[1]' % H) for cn in s.conds)
        if len(finals_) != 1:
            p4.append('%d final responses on the path where %s' % (len(finals_), 'there is nothing to move' if nothing else 'instances are moved'))
            continue
        fl = finals_[0].fields(finals_[0].args[0])
        moved = any(e.kind == 'loop' and e.line == lp.lineno for e in s.trail)
        failed_early = any(cn.startswith('exc:EventHandlingError') for cn in s.conds) and not moved
        # ... or the request was refused before anything was moved (destination unknown): a failure status, no sub-association
        fconst = status_constant(repo, fl.get('status', ''))
        if not moved and not any(e.kind in ('request_association', 'subop') for e in s.trail) and fconst is not None \
                and classify(repo, fconst[0], 'CMoveRSPMessage') == 'Failure':
            failed_early = True
        if not nothing and not failed_early:
            comp = fl.get('num_of_completed_sub_ops', '')
            rem = fl.get('num_of_remaining_sub_ops', '')
            if not _same_expr(rem or '', '%s[1] - (%s)' % (H, comp or '0')):
                p3.append('final response: remaining = %s with completed = %s' % (rem, comp))
            names = {l_[1] if l_[0] == 'local' else l_[2] for l_ in counter_locs} or {'completed'}
            folded = None
            try:
                from ..arith import eval_term
                folded = eval_term(ast.parse(comp, mode='eval').body, {})
            except Exception:
                folded = None
            if comp != '0' and not isinstance(folded, int) and \
                    not any(('AUG_%s(' % n_) in comp or ('PHI_%s_' % n_) in comp or comp == n_ for n_ in names):
                p3.append('final response: completed = %s is not the counter' % comp)
        if nothing and any(e.kind in ('request_association', 'subop') for e in s.trail):
            p4.append('with nothing to move a sub-association is still requested')
    rep.check(not p3, 'C19.U3', 'sopclass:qr_move_scp:progress-counters', f.loc(lp),
              'k-th report: completed = k, remaining = total - k; counter starts at 0, step 1', '; '.join(sorted(set(p3))))
    rep.check(not p4, 'C19.U4', 'sopclass:qr_move_scp:one-final-response', f.loc(),
              'exactly one final response on each of %d paths' % n_paths, '; '.join(sorted(set(p4))))
