#!/usr/bin/env python3
"""refcheck.py [Rnn ...]: run all 20 checks against each stored behaviour-preserving refactoring; print every non-zero exit."""
import os, shutil, subprocess, sys, tempfile
from concurrent.futures import ThreadPoolExecutor
VERIF = os.path.dirname(os.path.dirname(os.path.abspath(__file__)))
PY = '/venv/bin/python'

def one(job):
    rid, pid = job
    tmp = tempfile.mkdtemp(prefix='refck_')
    try:
        shutil.copytree('/repo/pynetdicom2', os.path.join(tmp, 'pynetdicom2'))
        p = subprocess.run(['patch', '-p1', '-s', '--no-backup-if-mismatch', '-i', os.path.join(VERIF, 'refactors', rid, 'patch.diff')], cwd=tmp, capture_output=True, text=True)
        if p.returncode:
            return rid, pid, 9, 'PATCH FAILED'
        env = dict(os.environ, VERIF_REPO=tmp, VERIF_EVIDENCE_DIR=os.path.join(tmp, 'ev'))
        r = subprocess.run([PY, '-m', 'pnd_static.check', '--property', pid], cwd=VERIF, env=env, capture_output=True, text=True)
        out = [l for l in r.stdout.splitlines() if not l.startswith('VIOLATION') and not l.startswith('KNOWN-FINDING')]
        return rid, pid, r.returncode, '\n'.join(out[:int(os.environ.get('LINES', '4'))])[:900]
    finally:
        shutil.rmtree(tmp, ignore_errors=True)

ids = sys.argv[1:] or sorted(os.listdir(os.path.join(VERIF, 'refactors')))
jobs = [(r, 'C%02d' % i) for r in ids for i in range(1, 21)]
with ThreadPoolExecutor(16) as ex:
    res = list(ex.map(one, jobs))
bad = 0
for rid, pid, rc, out in res:
    uf = os.path.join(VERIF, 'refactors', rid, 'undecided.txt')
    und = {ln.split()[0] for ln in open(uf) if ln.strip() and not ln.startswith('#')} if os.path.exists(uf) else set()
    hf = os.path.join(VERIF, 'refactors', rid, 'upheld.txt')
    uph = {ln.split()[0] for ln in open(hf) if ln.strip() and not ln.startswith('#')} if os.path.exists(hf) else set()
    if pid in uph:
        if rc != 1:
            bad += 1
            print('--- %s %s rc=%d (expected 1: listed in upheld.txt)\n%s' % (rid, pid, rc, out))
        continue
    if pid in und:
        if rc != 2:
            bad += 1
            print('--- %s %s rc=%d (expected 2: listed in undecided.txt)\n%s' % (rid, pid, rc, out))
        continue
    if rc:
        bad += 1
        print('--- %s %s rc=%d\n%s' % (rid, pid, rc, out))
print('%d refactorings x 20 checks: %d non-zero' % (len(ids), bad))
