"""Command line entry: ``python -m pnd_static.check --property Cnn [--tier quick|thorough]``.

Exit codes: 0 = every obligation passes or is a listed known finding,
1 = at least one unlisted violation (``VIOLATION property=<id> replay=<path>``),
2 = ANALYSIS-ERROR (vanished anchor, unmodelled construct, vacuous rule, internal error).
"""
from __future__ import annotations

import argparse
import importlib
import json
import os
import sys
import time
import traceback

from .report import Report, finish
from .srcmodel import AnalysisError, Repo

PROPS = ['C%02d' % i for i in range(1, 21)]


class _Watchdog(Exception):
    pass


def _arm_watchdog(seconds: int, prop: str):
    """An analysis that does not reach its fix-point must end as ANALYSIS-ERROR (exit 2), never hang the caller."""
    import signal

    def on_alarm(signum, frame):
        print('ANALYSIS-ERROR property=%s analysis did not terminate within %d s' % (prop, seconds))
        sys.stdout.flush()
        os._exit(2)
    try:
        signal.signal(signal.SIGALRM, on_alarm)
        signal.alarm(seconds)
    except (ValueError, AttributeError):
        pass


def run_property(prop: str, tier: str, seed: int) -> int:
    t0 = time.time()
    _arm_watchdog(int(os.environ.get('VERIF_TIMEOUT', '240' if tier != 'thorough' else '3000')), prop)
    try:
        mod = importlib.import_module('pnd_static.props.%s' % prop.lower())
    except ImportError as exc:
        print('ANALYSIS-ERROR property=%s no checker module: %s' % (prop, exc))
        return 2
    except Exception as exc:      # a defect of the checker itself is not a verdict about the repository
        print('ANALYSIS-ERROR property=%s checker module cannot be loaded: %s: %s' % (prop, type(exc).__name__, exc))
        return 2
    try:
        repo = Repo()
        rep = Report(prop)
        rep.notes['normalisation'] = dict(repo.normalize_stats, helpers_inlined=sorted({r[1] for r in repo.normalized_helpers}))
        try:
            mod.run(repo, rep)
        except AnalysisError as exc:
            # a rule met code it cannot read.  What the rules that ran before it found stands: an unlisted violation is
            # reported (exit 1); without one there is no verdict (exit 2)
            from .report import VIOLATION, load_known
            known = [k for k in load_known() if k.get('property') == prop and k.get('status') == 'known']
            unlisted = [o for o in rep.obligations if o.verdict == VIOLATION
                        and not any(k.get('rule') == o.rule and k.get('construct') == o.construct for k in known)]
            if not unlisted:
                raise
            print('ANALYSIS-INCOMPLETE property=%s %s (violations found before that point are reported)' % (prop, exc))
        extra = None
        if tier == 'thorough':
            # the static rules already cover every path / cell / interval of the current tree; the thorough
            # tier additionally measures the checker itself on must-fire / must-stay-silent variants of the
            # tree (scratch copies, removed afterwards).  These numbers never decide the exit code.
            from .selftest import run_all
            st = run_all(prop, jobs=int(os.environ.get('VERIF_JOBS', '16')))
            extra = {
                'programs': st['variants'],
                'selftest': {k: st[k] for k in ('variants', 'must_fire', 'fired', 'must_stay_silent', 'silent', 'must_be_undecided', 'undecided', 'skipped')},
                'selftest_wrong': [{'variant': r['variant'], 'rc': r.get('rc')} for r in st['wrong']],
                'selftest_samples': [{'variant': r['variant'], 'expect': r.get('expect'), 'status': r['status'],
                                      'rules': r.get('rules', [])} for r in st['results'][:40]],
            }
            print('%s selftest: must-fire %d/%d, must-stay-silent %d/%d, skipped %d'
                  % (prop, st['fired'], st['must_fire'], st['silent'], st['must_stay_silent'], st['skipped']))
            if hasattr(mod, 'thorough'):
                extra.update(mod.thorough(repo, rep, seed) or {})
        return finish(rep, tier, seed, t0, dict(sorted(repo.consulted.items())), extra)
    except AnalysisError as exc:
        print('ANALYSIS-ERROR property=%s %s' % (prop, exc))
        return 2
    except Exception:  # internal error of the checker: never report it as a violation
        traceback.print_exc()
        print('ANALYSIS-ERROR property=%s internal error in checker' % prop)
        return 2


def replay(path: str) -> int:
    with open(path) as f:
        v = json.load(f)
    prop = v['property']
    print('replaying %s rule %s construct %s' % (prop, v['rule'], v['construct']))
    print('  rule: %s' % v.get('rule_text', ''))
    mod = importlib.import_module('pnd_static.props.%s' % prop.lower())
    repo = Repo()
    rep = Report(prop)
    mod.run(repo, rep)
    hit = [o for o in rep.obligations if o.rule == v['rule'] and o.construct == v['construct']]
    if not hit:
        print('  construct no longer present on the current tree')
        return 2
    rc = 0
    for o in hit:
        print('  %s %s: %s' % (o.verdict.upper(), o.loc, o.what))
        if o.verdict == 'violation':
            rc = 1
    return rc


def main(argv=None) -> int:
    ap = argparse.ArgumentParser()
    ap.add_argument('--property')
    ap.add_argument('--tier', default=os.environ.get('VERIF_TIER', 'quick'))
    ap.add_argument('--replay')
    ap.add_argument('--all', action='store_true')
    a = ap.parse_args(argv)
    seed = int(os.environ.get('VERIF_SEED', '0') or 0)
    tier = a.tier if a.tier in ('quick', 'thorough') else 'quick'
    if a.replay:
        return replay(a.replay)
    if a.all:
        rc = 0
        for p in PROPS:
            rc = max(rc, run_property(p, tier, seed))
        return rc
    if not a.property:
        ap.error('--property required')
    return run_property(a.property, tier, seed)


if __name__ == '__main__':
    sys.exit(main())
